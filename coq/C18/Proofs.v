(* C18/Proofs.v — lemmas: the checker decides lin_spec; closed finite sets are invariants. *)
From Coq Require Import ZArith List Bool Permutation Lia PArith FMapPositive.
From C18 Require Import Model Generated Spec.
Import ListNotations.
Open Scope Z_scope.

(* ---------------------------------------------------------------- equality tests *)
Lemma zlist_eqb_eq : forall a b, zlist_eqb a b = true -> a = b.
Proof.
  induction a as [|x a IH]; destruct b as [|y b]; simpl; intros H; try discriminate; auto.
  apply andb_true_iff in H. destruct H as [H1 H2]. apply Z.eqb_eq in H1. f_equal; auto.
Qed.

Lemma zlist_eqb_refl : forall a, zlist_eqb a a = true.
Proof. induction a as [|x a IH]; simpl; auto. rewrite Z.eqb_refl. exact IH. Qed.

Lemma regs_eqb_eq : forall a b, regs_eqb a b = true -> a = b.
Proof.
  induction a as [|[f c] a IH]; destruct b as [|[g d] b]; simpl; intros H; try discriminate; auto.
  apply andb_true_iff in H. destruct H as [H H3]. apply andb_true_iff in H. destruct H as [H1 H2].
  apply Z.eqb_eq in H1. apply zlist_eqb_eq in H2. subst. f_equal. auto.
Qed.

Lemma regs_eqb_refl : forall a, regs_eqb a a = true.
Proof. induction a as [|[f c] a IH]; simpl; auto. rewrite Z.eqb_refl, zlist_eqb_refl. exact IH. Qed.

(* ---------------------------------------------------------------- boolean state equality is sound *)
Definition eqb_ok {A} (e : A -> A -> bool) : Prop := forall a b, e a b = true -> a = b.

Lemma list_eqb_ok : forall A (e : A -> A -> bool), eqb_ok e -> eqb_ok (list_eqb e).
Proof.
  intros A e He a. induction a as [|x a IH]; destruct b as [|y b]; simpl; intros H; try discriminate; auto.
  apply andb_true_iff in H. destruct H as [H1 H2]. f_equal; [apply He; exact H1 | apply IH; exact H2].
Qed.

Lemma opt_eqb_ok : forall A (e : A -> A -> bool), eqb_ok e -> eqb_ok (opt_eqb e).
Proof. intros A e He [x|] [y|]; simpl; intros H; try discriminate; auto. f_equal. apply He. exact H. Qed.

Ltac split_andb :=
  repeat match goal with H : _ && _ = true |- _ => apply andb_true_iff in H; destruct H end.

Lemma Z_eqb_ok : eqb_ok Z.eqb. Proof. intros a b H. apply Z.eqb_eq. exact H. Qed.
Lemma nat_eqb_ok : eqb_ok Nat.eqb. Proof. intros a b H. apply Nat.eqb_eq. exact H. Qed.
Lemma bool_eqb_ok : eqb_ok Bool.eqb. Proof. intros a b H. apply Bool.eqb_prop. exact H. Qed.
Lemma zlist_eqb_ok : eqb_ok zlist_eqb. Proof. exact zlist_eqb_eq. Qed.
Lemma exn_eqb_ok : eqb_ok exn_eqb. Proof. intros [] []; simpl; intros H; try discriminate; reflexivity. Qed.
Lemma tkind_eqb_ok : eqb_ok tkind_eqb. Proof. intros [] []; simpl; intros H; try discriminate; reflexivity. Qed.
Lemma tpc_eqb_ok : eqb_ok tpc_eqb. Proof. intros [] []; simpl; intros H; try discriminate; reflexivity. Qed.

Lemma outcome_eqb_ok : eqb_ok outcome_eqb.
Proof.
  intros [c|e] [d|f]; simpl; intros H; try discriminate; f_equal;
    [apply zlist_eqb_ok | apply exn_eqb_ok]; exact H.
Qed.

Lemma entry_eqb_ok : eqb_ok entry_eqb.
Proof.
  intros [w s f] [w' s' f']; unfold entry_eqb; simpl; intros H. split_andb.
  f_equal; [apply bool_eqb_ok | apply Z_eqb_ok | apply nat_eqb_ok]; assumption.
Qed.

Lemma fe_eqb_ok : eqb_ok fe_eqb.
Proof.
  intros [f e] [g e']; unfold fe_eqb; simpl; intros H. split_andb.
  f_equal; [apply Z_eqb_ok | apply entry_eqb_ok]; assumption.
Qed.

Lemma fc_eqb_ok : eqb_ok fc_eqb.
Proof.
  intros [f e] [g e']; unfold fc_eqb; simpl; intros H. split_andb.
  f_equal; [apply Z_eqb_ok | apply zlist_eqb_ok]; assumption.
Qed.

Lemma core_eqb_ok : eqb_ok core_eqb.
Proof.
  intros [m fu h d] [m' fu' h' d']; unfold core_eqb; simpl; intros H. split_andb.
  f_equal; [apply Z_eqb_ok | apply (list_eqb_ok _ _ fe_eqb_ok) | apply zlist_eqb_ok | apply (list_eqb_ok _ _ fc_eqb_ok)]; assumption.
Qed.

Lemma task_eqb_ok : eqb_ok task_eqb.
Proof.
  intros [k f d p r] [k' f' d' p' r']; unfold task_eqb; simpl; intros H. split_andb.
  f_equal; [apply tkind_eqb_ok | apply Z_eqb_ok | apply zlist_eqb_ok | apply tpc_eqb_ok
           | apply (opt_eqb_ok _ _ outcome_eqb_ok)]; assumption.
Qed.

Lemma op_eqb_ok : eqb_ok op_eqb.
Proof.
  intros [f|f c|f] [g|g d|g]; simpl; intros H; try discriminate; split_andb; f_equal;
    try (apply Z_eqb_ok; assumption); try (apply zlist_eqb_ok; assumption).
Qed.

Lemma cpc_eqb_ok : eqb_ok cpc_eqb.
Proof.
  intros [| |x|f p|f|] [| |y|g q|g|]; simpl; intros H; try discriminate; try reflexivity; split_andb; f_equal;
    try (apply Z_eqb_ok; assumption); try (apply nat_eqb_ok; assumption); try (apply bool_eqb_ok; assumption).
Qed.

Lemma client_eqb_ok : eqb_ok client_eqb.
Proof.
  intros [o i p] [o' i' p']; unfold client_eqb; simpl; intros H. split_andb.
  f_equal; [apply (list_eqb_ok _ _ op_eqb_ok) | apply nat_eqb_ok | apply cpc_eqb_ok]; assumption.
Qed.

Lemma result_eqb_ok : eqb_ok result_eqb.
Proof.
  intros [c|p| |e] [d|q| |f]; simpl; intros H; try discriminate; try reflexivity; f_equal;
    try (apply zlist_eqb_ok; assumption); try (apply bool_eqb_ok; assumption); try (apply exn_eqb_ok; assumption).
Qed.

Lemma event_eqb_ok : eqb_ok event_eqb.
Proof.
  intros [t i o|t i r] [u j p|u j q]; simpl; intros H; try discriminate; split_andb; f_equal;
    try (apply nat_eqb_ok; assumption); try (apply op_eqb_ok; assumption); try (apply result_eqb_ok; assumption).
Qed.

Lemma gstate_eqb_ok : eqb_ok gstate_eqb.
Proof.
  intros [c cl ts h k] [c' cl' ts' h' k']; unfold gstate_eqb; simpl; intros H. split_andb.
  f_equal; [apply core_eqb_ok | apply (list_eqb_ok _ _ client_eqb_ok) | apply (list_eqb_ok _ _ task_eqb_ok)
           | apply (list_eqb_ok _ _ event_eqb_ok) | apply Z_eqb_ok]; assumption.
Qed.

(* ---------------------------------------------------------------- picks *)
Lemma picks_spec : forall A (l : list A) a r,
  In (a, r) (picks l) <-> exists l1 l2, l = l1 ++ a :: l2 /\ r = l1 ++ l2.
Proof.
  induction l as [|x l IH]; intros a r; simpl.
  - split; [intros [] | intros (l1 & l2 & H & _); destruct l1; discriminate].
  - split.
    + intros [H | H].
      * inversion H; subst. exists []. eexists. split; reflexivity.
      * apply in_map_iff in H. destruct H as ([b r'] & E & Hin). simpl in E. inversion E; subst.
        apply IH in Hin. destruct Hin as (l1 & l2 & -> & ->). exists (x :: l1), l2. auto.
    + intros (l1 & l2 & E & ->). destruct l1 as [|y l1]; simpl in E; inversion E; subst.
      * left; reflexivity.
      * right. apply in_map_iff. exists (a, l1 ++ l2). split; [reflexivity|].
        apply IH. exists l1, l2. auto.
Qed.

Lemma rt_okb_ok : forall a b, rt_okb a b = true <-> rt_ok a b.
Proof.
  intros a b. unfold rt_okb, rt_ok. rewrite negb_true_iff. split.
  - intros H. apply Nat.ltb_ge in H. lia.
  - intros H. apply Nat.ltb_ge. lia.
Qed.

Lemma lin_search_step : forall k o ops r final,
  lin_search (S k) (o :: ops) r final =
  existsb (fun p => forallb (rt_okb (fst p)) (snd p) &&
                    match seq_step r (r_op (fst p)) (r_res (fst p)) with
                    | Some r' => lin_search k (snd p) r' final
                    | None => false
                    end) (picks (o :: ops)).
Proof. reflexivity. Qed.

Lemma lin_search_nil : forall k r final, lin_search k [] r final = regs_eqb r final.
Proof. destruct k; reflexivity. Qed.

Lemma lin_search_sound : forall fuel ops r final,
  lin_search fuel ops r final = true ->
  exists order, Permutation order ops /\ ForallOrdPairs rt_ok order /\ seq_run r order = Some final.
Proof.
  induction fuel as [|k IH]; intros ops r final H.
  - destruct ops; [|discriminate]. simpl in H. apply regs_eqb_eq in H. subst.
    exists []. repeat split; auto. constructor.
  - destruct ops as [|o ops].
    + simpl in H. apply regs_eqb_eq in H. subst. exists []. repeat split; auto. constructor.
    + rewrite lin_search_step in H. apply existsb_exists in H. destruct H as ([a rest] & Hin & H).
      simpl in H. apply andb_true_iff in H. destruct H as [Hrt H].
      destruct (seq_step r (r_op a) (r_res a)) as [r'|] eqn:Es; [|discriminate].
      apply IH in H. destruct H as (order & Hp & Hf & Hs).
      apply picks_spec in Hin. destruct Hin as (l1 & l2 & E & ->).
      exists (a :: order). split; [|split].
      * rewrite E. apply Permutation_cons_app. exact Hp.
      * constructor; [|exact Hf].
        apply Forall_forall. intros b Hb. apply rt_okb_ok.
        rewrite forallb_forall in Hrt. apply Hrt.
        eapply Permutation_in; [exact Hp | exact Hb].
      * simpl. rewrite Es. exact Hs.
Qed.

Lemma lin_search_complete : forall order ops r final,
  Permutation order ops -> ForallOrdPairs rt_ok order -> seq_run r order = Some final ->
  lin_search (length ops) ops r final = true.
Proof.
  induction order as [|a order IH]; intros ops r final Hp Hf Hs.
  - apply Permutation_nil in Hp. subst. simpl in *. inversion Hs; subst. apply regs_eqb_refl.
  - assert (Hin : In a ops) by (eapply Permutation_in; [exact Hp | left; reflexivity]).
    apply in_split in Hin. destruct Hin as (l1 & l2 & E). subst ops.
    apply Permutation_cons_app_inv in Hp.
    inversion Hf as [|x l Hfa Hfo]; subst.
    simpl in Hs. destruct (seq_step r (r_op a) (r_res a)) as [r'|] eqn:Es; [|discriminate].
    assert (El : length (l1 ++ a :: l2) = S (length (l1 ++ l2))) by (rewrite !app_length; simpl; lia).
    rewrite El.
    destruct (l1 ++ a :: l2) as [|o ops'] eqn:Eo; [destruct l1; discriminate|].
    rewrite lin_search_step. apply existsb_exists.
    exists (a, l1 ++ l2). split.
    + apply picks_spec. exists l1, l2. auto.
    + simpl. rewrite Es. apply andb_true_iff. split.
      * apply forallb_forall. intros b Hb. apply rt_okb_ok.
        rewrite Forall_forall in Hfa. apply Hfa.
        eapply Permutation_in; [apply Permutation_sym; exact Hp | exact Hb].
      * apply IH; assumption.
Qed.

Theorem linearizable_iff : forall init h final,
  linearizable init h final = true <-> lin_spec init h final.
Proof.
  intros init h final. unfold linearizable, lin_spec. split.
  - destruct (ops_of h) as [ops|] eqn:E; [|discriminate]. intros H.
    apply lin_search_sound in H. destruct H as (order & Hp & Hf & Hs).
    exists ops, order. auto.
  - intros (ops & order & E & Hp & Hf & Hs). rewrite E.
    eapply lin_search_complete; eauto.
Qed.

(* ---------------------------------------------------------------- closed sets are invariants *)
Lemma smem_in : forall s st, smem s st = true -> In s (sset_states st).
Proof.
  intros s st H. unfold smem in H.
  destruct (PositiveMap.find (enc s) st) as [l|] eqn:E; [|discriminate].
  apply existsb_exists in H. destruct H as (x & Hx & Heq).
  apply gstate_eqb_ok in Heq. subst x.
  unfold sset_states. apply in_flat_map. exists (enc s, l). split; [|exact Hx].
  apply PositiveMap.elements_correct. exact E.
Qed.

Lemma step_tid_bound : forall fl mx s t s', step fl mx s t = Some s' -> (t < ntids s)%nat.
Proof.
  intros fl mx s t s' H. unfold step in H. unfold ntids.
  destruct (t <? length (g_clients s))%nat eqn:E.
  - apply Nat.ltb_lt in E. lia.
  - destruct (nth_error (g_tasks s) (t - length (g_clients s))) eqn:En; [|discriminate].
    assert (t - length (g_clients s) < length (g_tasks s))%nat by (apply nth_error_Some; congruence).
    apply Nat.ltb_ge in E. lia.
Qed.

Lemma step_in_successors : forall fl mx s t s', step fl mx s t = Some s' -> In s' (successors fl mx s).
Proof.
  intros fl mx s t s' H. unfold successors. apply in_flat_map. exists t. split.
  - apply in_seq. pose proof (step_tid_bound _ _ _ _ _ H). lia.
  - rewrite H. left; reflexivity.
Qed.

Section Closed.
  Variable fl : flags.
  Variable cf : config.
  Variable P : gstate -> bool.
  Variable st : sset.
  Hypothesis Hclosed : closed fl cf P st = true.

  Lemma closed_member : forall s, smem s st = true ->
    P s = true /\ forall t s', step fl (cfg_max cf) s t = Some s' -> smem s' st = true /\ (weight s' < weight s)%nat.
  Proof.
    intros s Hs. unfold closed in Hclosed. apply andb_true_iff in Hclosed. destruct Hclosed as [_ Hall].
    rewrite forallb_forall in Hall. specialize (Hall s (smem_in _ _ Hs)).
    apply andb_true_iff in Hall. destruct Hall as [HP Hsucc]. split; [exact HP|].
    intros t s' Hst. rewrite forallb_forall in Hsucc.
    specialize (Hsucc s' (step_in_successors _ _ _ _ _ Hst)).
    apply andb_true_iff in Hsucc. destruct Hsucc as [H1 H2]. split; [exact H1|].
    apply Nat.ltb_lt in H2. exact H2.
  Qed.

  Lemma closed_reach : forall s, reach fl cf s -> smem s st = true.
  Proof.
    induction 1 as [|s t s' Hr IH Hst].
    - unfold closed in Hclosed. apply andb_true_iff in Hclosed. tauto.
    - destruct (closed_member s IH) as [_ H]. apply (H t s' Hst).
  Qed.

  Theorem closed_set_invariant : forall s, reach fl cf s ->
    P s = true /\ forall t s', step fl (cfg_max cf) s t = Some s' -> (weight s' < weight s)%nat.
  Proof.
    intros s Hr. destruct (closed_member s (closed_reach s Hr)) as [HP H]. split; [exact HP|].
    intros t s' Hst. apply (H t s' Hst).
  Qed.
End Closed.

Lemma check_conf_invariant : forall fl cf P fuel, check_conf fl cf P fuel = true ->
  forall s, reach fl cf s ->
    P s = true /\ forall t s', step fl (cfg_max cf) s t = Some s' -> (weight s' < weight s)%nat.
Proof.
  intros fl cf P fuel H. unfold check_conf in H.
  destruct (reach_set fl cf fuel) as [st|]; [|discriminate].
  exact (closed_set_invariant fl cf P st H).
Qed.

(* ---------------------------------------------------------------- from the boolean predicates to the statements *)
Lemma state_ok_strict_spec : forall fl cf s,
  state_ok_strict fl cf s = true -> enabled fl (cfg_max cf) s = [] ->
  quiescent s = true /\ g_k s = 0 /\
  lin_spec (real_files (cfg_disk cf)) (rev (g_hist s)) (real_files (disk (g_core s))) /\ final_agree s = true.
Proof.
  intros fl cf s H He. unfold state_ok_strict in H. rewrite He in H.
  apply andb_true_iff in H. destruct H as [H Hg]. apply andb_true_iff in H. destruct H as [Hq Hk].
  unfold good_final in Hg. apply andb_true_iff in Hg. destruct Hg as [Hl Ha].
  apply Z.eqb_eq in Hk. apply linearizable_iff in Hl. auto.
Qed.

Lemma state_ok_spec : forall fl cf s,
  state_ok fl cf s = true -> enabled fl (cfg_max cf) s = [] ->
  quiescent s = true /\
  (g_k s = 0 -> lin_spec (real_files (cfg_disk cf)) (rev (g_hist s)) (real_files (disk (g_core s))) /\ final_agree s = true).
Proof.
  intros fl cf s H He. unfold state_ok in H. rewrite He in H.
  apply andb_true_iff in H. destruct H as [Hq Hg]. split; [exact Hq|].
  intros Hk. rewrite Hk in Hg. simpl in Hg.
  unfold good_final in Hg. apply andb_true_iff in Hg. destruct Hg as [Hl Ha].
  apply linearizable_iff in Hl. auto.
Qed.

Lemma check_conf_full : forall fl cf fuel,
  check_conf fl cf (state_ok_strict fl cf) fuel = true -> C18_full_statement fl cf.
Proof.
  intros fl cf fuel H s Hr. destruct (check_conf_invariant _ _ _ _ H s Hr) as [HP Hw].
  split; [exact Hw|]. intros He.
  destruct (state_ok_strict_spec _ _ _ HP He) as (Hq & _ & Hl & Ha). auto.
Qed.

Lemma check_conf_outside : forall fl cf fuel,
  check_conf fl cf (state_ok fl cf) fuel = true -> C18_outside_K_statement fl cf.
Proof.
  intros fl cf fuel H s Hr. destruct (check_conf_invariant _ _ _ _ H s Hr) as [HP Hw].
  split; [exact Hw|]. intros He. exact (state_ok_spec _ _ _ HP He).
Qed.

Lemma full_implies_outside : forall fl cf, C18_full_statement fl cf -> C18_outside_K_statement fl cf.
Proof.
  intros fl cf H s Hr. destruct (H s Hr) as [Hw Hf]. split; [exact Hw|].
  intros He. destruct (Hf He) as (Hq & Hl & Ha). auto.
Qed.

Lemma check_universe_sound : forall fl U fuel, check_universe fl U fuel = true ->
  forall cf, In cf U ->
    C18_outside_K_statement fl cf /\ (fl_busy_guard fl = true \/ racy cf = false -> C18_full_statement fl cf).
Proof.
  intros fl U fuel H cf Hin. unfold check_universe in H. rewrite forallb_forall in H.
  specialize (H cf Hin). unfold conf_pred in H. destruct (racy cf && negb (fl_busy_guard fl)) eqn:Er.
  - split; [eapply check_conf_outside; exact H |].
    apply andb_true_iff in Er. destruct Er as [Er1 Er2]. apply negb_true_iff in Er2.
    intros [Hg | Hr]; congruence.
  - pose proof (check_conf_full _ _ _ H) as Hf. split; [apply full_implies_outside; exact Hf | intros _; exact Hf].
Qed.

Lemma check_universe_app : forall fl A B fuel,
  check_universe fl A fuel = true -> check_universe fl B fuel = true -> check_universe fl (A ++ B) fuel = true.
Proof. intros fl A B fuel HA HB. unfold check_universe in *. rewrite forallb_app, HA, HB. reflexivity. Qed.

(* ---------------------------------------------------------------- a schedule that runs is a reachable state *)
Lemma run_reach : forall fl cf sch s s', reach fl cf s -> run fl (cfg_max cf) s sch = (s', None) -> reach fl cf s'.
Proof.
  intros fl cf sch. induction sch as [|t r IH]; intros s s' Hr H; simpl in H.
  - inversion H; subst. exact Hr.
  - destruct (step fl (cfg_max cf) s t) as [s1|] eqn:Es; [|discriminate].
    destruct (run fl (cfg_max cf) s1 r) as [s2 [i|]] eqn:Er; [discriminate|].
    inversion H; subst. eapply IH; [|exact Er]. eapply reach_step; eauto.
Qed.

Lemma not_lin : forall init h final, linearizable init h final = false -> ~ lin_spec init h final.
Proof. intros init h final H Hl. apply linearizable_iff in Hl. congruence. Qed.

(* what a witness schedule establishes *)
Definition refutes (fl : flags) (cf : config) (sch : list nat) (check : gstate -> bool) : bool :=
  match run fl (cfg_max cf) (init cf) sch with
  | (s, None) => match enabled fl (cfg_max cf) s with [] => check s | _ => false end
  | _ => false
  end.

Lemma refutes_sound : forall fl cf sch check, refutes fl cf sch check = true ->
  exists s, reach fl cf s /\ enabled fl (cfg_max cf) s = [] /\ check s = true.
Proof.
  intros fl cf sch check H. unfold refutes in H.
  destruct (run fl (cfg_max cf) (init cf) sch) as [s [i|]] eqn:Er; [discriminate|].
  destruct (enabled fl (cfg_max cf) s) eqn:Ee; [|discriminate].
  exists s. split; [|split; auto].
  eapply run_reach; [apply reach_init | exact Er].
Qed.
