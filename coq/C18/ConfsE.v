(* C18/ConfsE.v — reflective check of the chunk U31a (see Spec.v) *)
From Coq Require Import ZArith List Bool.
From C18 Require Import Model Generated Spec Proofs.
Lemma u31a_ok : check_universe gen_flags U31a FUEL = true.
Proof. vm_cast_no_check (eq_refl true). Qed.
