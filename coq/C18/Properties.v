(* placeholder *)
