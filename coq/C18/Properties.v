(* C18/Properties.v — property theorems only: statement, `exact`, Print Assumptions. *)
From Coq Require Import ZArith List Bool Permutation.
From C18 Require Import Model Generated Spec Proofs Unbounded Confs.
Import ListNotations.
Open Scope Z_scope.

(* The checker that is run on every history recorded from the real FileCache decides exactly the
   definition of linearizability against one register per file (Spec.lin_spec): some permutation of
   the finished operations respects the real-time order, is a legal sequential run from the initial
   files (get returns the current contents, a successful update sets them, a failed update and unload
   change nothing) and ends in the observed final files. Histories of ANY length. *)
Theorem C18_checker_decides_linearizability : forall init h final,
  linearizable init h final = true <-> lin_spec init h final.
Proof. exact linearizable_iff. Qed.
Print Assumptions C18_checker_decides_linearizability.

(* "Every call returns", with NO bound: for any flags, any configuration (any number of client threads,
   operations per thread, files, contents, max_memory) and any schedule, every step strictly decreases
   `weight` (every run is finite, at most weight(init) steps), and a reachable state in which no thread can
   move is quiescent: every client has returned from every call and every worker task has completed. *)
Theorem C18_every_call_returns : forall fl cf s, reach fl cf s ->
  (forall t s', step fl (cfg_max cf) s t = Some s' -> (weight s' < weight s)%nat) /\
  (enabled fl (cfg_max cf) s = [] -> quiescent s = true).
Proof. exact every_call_returns. Qed.
Print Assumptions C18_every_call_returns.

(* With the busy guard in update_file / unload_file (flag regenerated from the source) NO client ever unloads an
   entry whose load or write has not yet been accounted - the root cause of K1-K3 - in ANY configuration (any
   number of threads, operations, files) under ANY schedule: the ghost mask g_k stays 0. Induction over `step`. *)
Theorem C18_guard_excludes_K : forall cf s, reach gen_flags cf s -> g_k s = 0.
Proof. exact (fun cf s => guard_excludes_K gen_flags cf s (eq_refl : fl_busy_guard gen_flags = true)). Qed.
Print Assumptions C18_guard_excludes_K.

(* Closed finite sets of global states are invariants of ALL schedules of ANY length. *)
Theorem C18_closed_set_invariant : forall fl cf P st, closed fl cf P st = true ->
  forall s, reach fl cf s ->
    P s = true /\ forall t s', step fl (cfg_max cf) s t = Some s' -> (weight s' < weight s)%nat.
Proof. exact closed_set_invariant. Qed.
Print Assumptions C18_closed_set_invariant.

(* Since the repair of update_file / unload_file (busy guard, flag fl_busy_guard regenerated from the source) the
   FULL statement holds for every configuration of every universe; the proofs below only type-check while
   the regenerated flag computes to true.  Without the guard only the weaker general form holds
   (Confs.universe_statement: outside K, and full for the non-racy configurations).
   The statement of the property for one configuration, over every schedule (Spec.v):
     C18_full_statement fl cf       every run is finite; when no thread can move, every call has returned, the
                                    history is linearizable with the disk as final register contents, and
                                    disk = cached contents, entry sizes = len, current_memory_usage = sum of entries
     C18_outside_K_statement fl cf  the same for the runs in which no client unloaded an in-flight entry (g_k = 0)
   Bound, written out: U21 = 2 client threads x 1 operation in {get, update, unload} x files {0,1}, all 36 ordered
   pairs, in 4 environments (144 configurations); U22 = 2 threads x 2 operations on file 0 (81 configurations);
   U31 = 3 threads x 1 operation on file 0 (27 configurations); U2112 below.  No bound on schedules.
   `racy cf` = two different threads address the same file, one with get/update and the other with unload, or one
   with get and the other with update (the configuration class of the known defect). *)
Theorem C18_conf_2x1 : forall cf, In cf U21 -> C18_full_statement gen_flags cf.
Proof.
  exact (fun cf H => proj2 (conf_2x1 (eq_refl : shape_ok = true) cf H) (or_introl (eq_refl : fl_busy_guard gen_flags = true))).
Qed.
Print Assumptions C18_conf_2x1.

Theorem C18_conf_2x2 : forall cf, In cf U22 -> C18_full_statement gen_flags cf.
Proof.
  exact (fun cf H => proj2 (conf_2x2 (eq_refl : shape_ok = true) cf H) (or_introl (eq_refl : fl_busy_guard gen_flags = true))).
Qed.
Print Assumptions C18_conf_2x2.

Theorem C18_conf_3x1 : forall cf, In cf U31 -> C18_full_statement gen_flags cf.
Proof.
  exact (fun cf H => proj2 (conf_3x1 (eq_refl : shape_ok = true) cf H) (or_introl (eq_refl : fl_busy_guard gen_flags = true))).
Qed.
Print Assumptions C18_conf_3x1.

(* U2112 = 2 threads, 2 operations || 1 operation in {get, update} x files {0,1}, both files on disk, max_memory 6
   so that the two files do not fit together and completions evict (64 configurations). *)
Theorem C18_conf_2plus1_evict : forall cf, In cf U2112 -> C18_full_statement gen_flags cf.
Proof.
  exact (fun cf H => proj2 (conf_2plus1_evict (eq_refl : shape_ok = true) cf H) (or_introl (eq_refl : fl_busy_guard gen_flags = true))).
Qed.
Print Assumptions C18_conf_2plus1_evict.

(* U31e = 3 threads x 1 get on files {0,1}, both on disk, max_memory 6 (8 configurations, none racy). *)
Theorem C18_conf_3x1_evict : forall cf, In cf U31e -> C18_full_statement gen_flags cf.
Proof.
  exact (fun cf H => proj2 (conf_3x1_evict (eq_refl : shape_ok = true) cf H) (or_introl (eq_refl : fl_busy_guard gen_flags = true))).
Qed.
Print Assumptions C18_conf_3x1_evict.

(* U21d = 2 threads x 1 operation on two files in a subdirectory that does not exist at the start (36 configurations):
   isdir / makedirs of the write task are steps of their own. *)
Theorem C18_conf_2x1_newdir : forall cf, In cf U21d -> C18_full_statement gen_flags cf.
Proof.
  exact (fun cf H => proj2 (conf_2x1_newdir (eq_refl : shape_ok = true) cf H) (or_introl (eq_refl : fl_busy_guard gen_flags = true))).
Qed.
Print Assumptions C18_conf_2x1_newdir.

(* Before the repair (old_flags = the same code without the busy guard) the full statement was false on the racy
   class. K1 = update_file unloads the entry of a pending load:
   {get(0) || update(0)}, file on disk, not cached.  Witness 1: the get returns b"" (torn read), the history
   is not linearizable and current_memory_usage ends at 2 for 7 cached bytes. *)
Theorem C18_K1_torn_read_refuted_without_guard :
  exists s, reach old_flags cfg_get_upd s /\ enabled old_flags (cfg_max cfg_get_upd) s = [] /\
    ~ lin_spec (cfg_disk cfg_get_upd) (rev (g_hist s)) (disk (g_core s)) /\ final_agree s = false /\
    In (ERet 0 0 (RCont [])) (g_hist s) /\ mem (g_core s) = 2.
Proof. exact k1_torn. Qed.

(* Witness 2 (other completion order): linearizable history, but the entry says 5 bytes for 7 cached bytes (current_memory_usage 7). *)
Theorem C18_K1_accounting_refuted_without_guard :
  exists s, reach old_flags cfg_get_upd s /\ enabled old_flags (cfg_max cfg_get_upd) s = [] /\
    lin_spec (cfg_disk cfg_get_upd) (rev (g_hist s)) (disk (g_core s)) /\ final_agree s = false /\
    mem_agrees (g_core s) = false.
Proof. exact k1_acct. Qed.

(* K2 = unload_file during a pending load: get_file raises AssertionError, current_memory_usage = -5. *)
Theorem C18_K2_unload_during_load_refuted_without_guard :
  exists s, reach old_flags cfg_get_unl s /\ enabled old_flags (cfg_max cfg_get_unl) s = [] /\
    ~ lin_spec (cfg_disk cfg_get_unl) (rev (g_hist s)) (disk (g_core s)) /\ final_agree s = false /\
    In (ERet 0 0 (RExn EAssert)) (g_hist s) /\ mem (g_core s) = -5.
Proof. exact k2. Qed.

(* K3 = unload_file during a pending write: update_file raises AssertionError. *)
Theorem C18_K3_unload_during_write_refuted_without_guard :
  exists s, reach old_flags cfg_upd_unl s /\ enabled old_flags (cfg_max cfg_upd_unl) s = [] /\
    ~ lin_spec (cfg_disk cfg_upd_unl) (rev (g_hist s)) (disk (g_core s)) /\ final_agree s = false /\
    In (ERet 0 0 (RExn EAssert)) (g_hist s).
Proof. exact k3. Qed.

(* PandasDataFrameCache.update (not in the model; run under the scheduler by the harness): the translator recognises
   its shape and the retry is evaluated after the per-file lock is released (repair b7a511d of finding K4). *)
Example C18_df_cache_shape : df_shape_ok = true /\ df_retry_outside_flock = true.
Proof. split; reflexivity. Qed.

(* Non-vacuity: the universes have the stated sizes, contain the witness configurations, contain
   non-racy configurations, and a concrete concurrent history is accepted / a torn one rejected. *)
Example C18_universe_sizes :
  length U21 = 144%nat /\ length U22 = 81%nat /\ length U31 = 27%nat /\ length U2112 = 64%nat /\ length U31e = 8%nat /\ length U21d = 36%nat /\ forallb (fun cf => negb (racy cf)) U31e = true /\
  length (filter (fun cf => negb (racy cf)) U2112) = 36%nat /\
  nth_error U21 2 = Some cfg_get_upd /\ nth_error U21 4 = Some cfg_get_unl /\ nth_error U21 16 = Some cfg_upd_unl /\
  length (filter (fun cf => negb (racy cf)) U21) = 96%nat /\
  nth_error U31 13 = Some (mkCfg BIG [(0, cA)] [[OUpd 0 u1]; [OUpd 0 u2]; [OUpd 0 u3]]) /\
  racy (mkCfg BIG [(0, cA)] [[OUpd 0 u1]; [OUpd 0 u2]; [OUpd 0 u3]]) = false.
Proof. vm_compute. repeat split. Qed.

Example C18_checker_example :
  let h_ok := [ECall 0 0 (OGet 0); ECall 1 0 (OUpd 0 u1); ERet 1 0 (RBool true); ERet 0 0 (RCont cA)] in
  let h_torn := [ECall 0 0 (OGet 0); ECall 1 0 (OUpd 0 u1); ERet 0 0 (RCont []); ERet 1 0 (RBool true)] in
  let h_late := [ECall 1 0 (OUpd 0 u1); ERet 1 0 (RBool true); ECall 0 0 (OGet 0); ERet 0 0 (RCont cA)] in
  linearizable [(0, cA)] h_ok [(0, u1)] = true /\ linearizable [(0, cA)] h_torn [(0, u1)] = false /\
  linearizable [(0, cA)] h_late [(0, u1)] = false /\ linearizable [(0, cA)] h_ok [(0, cA)] = false.
Proof. vm_compute. repeat split. Qed.
