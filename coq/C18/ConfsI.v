(* C18/ConfsI.v — reflective check of the chunk U2112b (see Spec.v) *)
From Coq Require Import ZArith List Bool.
From C18 Require Import Model Generated Spec Proofs.
Lemma u2112b_ok : check_universe gen_flags U2112b FUEL = true.
Proof. vm_cast_no_check (eq_refl true). Qed.
