(* C18/ConfsH.v — reflective check of the chunk U2112a (see Spec.v) *)
From Coq Require Import ZArith List Bool.
From C18 Require Import Model Generated Spec Proofs.
Lemma u2112a_ok : check_universe gen_flags U2112a FUEL = true.
Proof. vm_cast_no_check (eq_refl true). Qed.
