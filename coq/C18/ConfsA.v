(* C18/ConfsA.v — reflective checks: universe U21 (2 threads x 1 op x 2 files, four environments) and the witnesses *)
From Coq Require Import ZArith List Bool.
From C18 Require Import Model Generated Spec Proofs.
Import ListNotations.
Open Scope Z_scope.

Lemma u21_ok : check_universe gen_flags U21 FUEL = true.
Proof. vm_cast_no_check (eq_refl true). Qed.

(* K1, torn read: the get returns b"" (neither the initial contents nor any update), not linearizable, accounting off *)
Definition chk_k1_torn (s : gstate) : bool :=
  negb (linearizable (cfg_disk cfg_get_upd) (rev (g_hist s)) (disk (g_core s))) && negb (final_agree s) &&
  existsb (event_eqb (ERet 0 0 (RCont []))) (g_hist s) && (mem (g_core s) =? 2).
Lemma k1_torn_ok : refutes old_flags cfg_get_upd sch_k1_torn chk_k1_torn = true.
Proof. vm_cast_no_check (eq_refl true). Qed.

(* K1, accounting: history linearizable, but entry size 5 for 7 cached bytes and current_memory_usage 7 <> 5 *)
Definition chk_k1_acct (s : gstate) : bool :=
  linearizable (cfg_disk cfg_get_upd) (rev (g_hist s)) (disk (g_core s)) && negb (final_agree s) && negb (mem_agrees (g_core s)).
Lemma k1_acct_ok : refutes old_flags cfg_get_upd sch_k1_acct chk_k1_acct = true.
Proof. vm_cast_no_check (eq_refl true). Qed.

(* K2: get_file raises AssertionError, current_memory_usage = -5 with an empty cache *)
Definition chk_k2 (s : gstate) : bool :=
  negb (linearizable (cfg_disk cfg_get_unl) (rev (g_hist s)) (disk (g_core s))) && negb (final_agree s) &&
  existsb (event_eqb (ERet 0 0 (RExn EAssert))) (g_hist s) && (mem (g_core s) =? -5).
Lemma k2_ok : refutes old_flags cfg_get_unl sch_k2 chk_k2 = true.
Proof. vm_cast_no_check (eq_refl true). Qed.

(* K3: update_file raises AssertionError although the bytes are on disk, current_memory_usage = -8 *)
Definition chk_k3 (s : gstate) : bool :=
  negb (linearizable (cfg_disk cfg_upd_unl) (rev (g_hist s)) (disk (g_core s))) && negb (final_agree s) &&
  existsb (event_eqb (ERet 0 0 (RExn EAssert))) (g_hist s).
Lemma k3_ok : refutes old_flags cfg_upd_unl sch_k3 chk_k3 = true.
Proof. vm_cast_no_check (eq_refl true). Qed.
