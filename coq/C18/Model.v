(* C18/Model.v — executable model of klongpy/db/file_cache.py (FileCache) under
   concurrent get_file / update_file / unload_file, at the granularity the
   property names:

     * every `with self.file_futures_lock:` block is ONE atomic step
       (executor.submit inside it creates a task),
     * every file-system call is a step: os.path.exists, os.path.getsize (client),
       open(..,'rb'), file.read(), open(..,'wb') [truncates], close of the written
       file [the buffered payload reaches the file] (worker task),
     * the completion of a task's future (set_result / set_exception) is a step,
     * future.result() blocks until that step has happened.

   One Gallina definition per Python function where practical:
     unload_core   = FileCache._unload_file
     recover_loop  = FileCache.recover_memory        (the while loop; writing entries are pushed back)
     touch         = FileCache.update_file_access_time
     ufm           = FileCache.update_file_futures_and_memory   (the whole locked block, assertion included)
     client_step   = get_file / update_file / unload_file cut at their yield points
     task_step     = _load_file / _write_file run by the executor
   The model follows the code, defects included (an in-flight entry is unloaded
   by update_file/unload_file: ghost bit g_k records when that happens).

   file_access_times is kept as the list of file names in increasing time
   order (time.time_ns() is assumed strictly increasing; each file occurs at
   most once because update_file_access_time filters it out before pushing).

   No proofs in this file. *)
From Coq Require Import ZArith List Bool PArith FMapPositive.
Import ListNotations.
Open Scope Z_scope.

Definition file := Z.
Definition content := list Z.

Definition zlen {A} (l : list A) : Z := Z.of_nat (length l).

(* ---------------------------------------------------------------- flags read from the source *)
Record flags := mkFlags {
  fl_get_w : bool;        (* writing component of the entry stored by get_file                      (False) *)
  fl_upd_w : bool;        (* writing component of the entry stored by update_file                   (True)  *)
  fl_done_w : bool;       (* writing component stored by update_file_futures_and_memory             (False) *)
  fl_first : bool;        (* write_applied in the branch that submits the write                     (True)  *)
  fl_second : bool;       (* write_applied in the second-writer branch                              (False) *)
  fl_touch_if_done : bool;(* get_file on a present entry touches the access time only if future.done()      *)
  fl_oversize_uncached : bool; (* update_file_futures_and_memory: contents larger than max_memory skip recover_memory
                             (no assertion) and take the not-cached branch                                    *)
  fl_else_drops_heap : bool;   (* ... whose not-cached branch also removes the file's access-time item             *)
  fl_load_reads_whole : bool;  (* _load_file does file.read() (the whole file at the time of the read); false = it reads at
                             most the size get_file took with os.path.getsize before its locked block              *)
  fl_mkdir_exist_ok : bool;    (* _write_file creates the directory with os.makedirs(.., exist_ok=True); false = check-then-act:
                             `if not os.path.isdir(p): os.makedirs(p)`                                             *)
  fl_drop_failed : bool;       (* a worker whose load or write raised forgets its entry and access-time item under the lock
                             (nothing is subtracted) before the exception reaches the future                       *)
  fl_busy_guard : bool    (* update_file waits for (and retries after) an in-flight load instead of unloading its
                             entry; unload_file leaves an entry whose future is not done alone                  *)
}.

(* ---------------------------------------------------------------- association lists sorted by key *)
Fixpoint lookup {A} (k : Z) (l : list (Z * A)) : option A :=
  match l with
  | [] => None
  | (k', v) :: r => if k =? k' then Some v else lookup k r
  end.

Fixpoint aset {A} (k : Z) (v : A) (l : list (Z * A)) : list (Z * A) :=
  match l with
  | [] => [(k, v)]
  | (k', v') :: r =>
      if k <? k' then (k, v) :: l
      else if k =? k' then (k, v) :: r
      else (k', v') :: aset k v r
  end.

Fixpoint adel {A} (k : Z) (l : list (Z * A)) : list (Z * A) :=
  match l with
  | [] => []
  | (k', v') :: r => if k =? k' then r else (k', v') :: adel k r
  end.

Fixpoint set_nth {A} (n : nat) (v : A) (l : list A) : list A :=
  match l, n with
  | [], _ => []
  | _ :: r, O => v :: r
  | x :: r, S m => x :: set_nth m v r
  end.

(* ---------------------------------------------------------------- cache state *)
Inductive exn := EAssert | EKey | ENotFound | EMemory | EExists.
Inductive outcome := OkC (c : content) | Exn (e : exn).

Record entry := mkE { e_w : bool; e_size : Z; e_fut : nat }.

Record core := mkCore {
  mem : Z;                        (* current_memory_usage *)
  futs : list (file * entry);     (* file_futures *)
  heap : list file;               (* file_access_times, oldest first *)
  disk : list (file * content)    (* the directory *)
}.

Definition remove_file (f : file) (h : list file) : list file := filter (fun g => negb (g =? f)) h.

(* update_file_access_time: drop the old stamp, push (now, f) *)
Definition touch (f : file) (h : list file) : list file := remove_file f h ++ [f].

(* _unload_file *)
Definition unload_core (f : file) (c : core) : core :=
  match lookup f (futs c) with
  | Some e => mkCore (mem c - e_size e) (adel f (futs c)) (heap c) (disk c)
  | None => c
  end.

(* recover_memory's loop over the heap h (threaded separately; c's heap field is ignored here).
   Result: (cache, what is left on the heap, popped writing entries, KeyError?) *)
Fixpoint recover_loop (max claim : Z) (h : list file) (c : core) (wr : list file)
  : core * list file * list file * bool :=
  match h with
  | [] => (c, [], wr, false)
  | f :: h' =>
      if (mem c + claim >? max) then
        match lookup f (futs c) with
        | None => (c, h', wr, true)                                   (* self.file_futures[oldest_file] -> KeyError *)
        | Some e =>
            if e_w e then recover_loop max claim h' c (wr ++ [f])     (* being written: skip, push back later *)
            else recover_loop max claim h' (unload_core f c) wr
        end
      else (c, h, wr, false)
  end.

(* update_file_futures_and_memory(file_name, memory_usage): the locked block.
   Some e = the block was left by that exception (partial effects are kept, as in Python). *)
Definition ufm (fl : flags) (max : Z) (f : file) (mu : Z) (c : core) : core * option exn :=
  let over := mu >? max in
  if over && negb (fl_oversize_uncached fl) then (c, Some EAssert) else          (* assert claim <= self.max_memory *)
  match (if over then (c, heap c, [], false) else recover_loop max mu (heap c) c []) with
  | (c1, rest, wr, keyerr) =>
    if keyerr then (mkCore (mem c1) (futs c1) rest (disk c1), Some EKey) else
    let h2 := wr ++ rest in
    let can := negb over && (mem c1 + mu <=? max) in
    match lookup f (futs c1) with
    | None => (mkCore (mem c1) (futs c1) h2 (disk c1), Some EAssert)   (* assert info is not None *)
    | Some e =>
        if can then
          (mkCore (mem c1 + mu) (aset f (mkE (fl_done_w fl) mu (e_fut e)) (futs c1)) (touch f h2) (disk c1), None)
        else
          (mkCore (mem c1) (adel f (futs c1)) (if fl_else_drops_heap fl then remove_file f h2 else h2) (disk c1), None)
    end
  end.

(* ---------------------------------------------------------------- worker tasks (= futures) *)
Inductive tkind := KLoad | KWrite.
(* load : T1 open rb   T2 read            T3 locked block   T4 future completion
   write: T1 open wb   T2 close (flush)   T3 locked block   T4 future completion
   a write into a directory that does not exist yet when the task is submitted starts with
          TMk makedirs     (or, check-then-act form: TIs isdir, then TMk makedirs without exist_ok)
   a failed task (busy... flag fl_drop_failed): TDrop locked block that forgets the entry, then T4 *)
Inductive tpc := T1 | T2 | T3 | T4 | TEnd | TMk | TIs | TDrop.

(* files 100, 101, .. live in ONE subdirectory of the cache root; it exists iff the pseudo entry DIRKEY is on `disk` *)
Definition DIRKEY : Z := -1.
Definition in_sub (f : file) : bool := 100 <=? f.
Definition dir_exists (d : list (file * content)) : bool :=
  match lookup DIRKEY d with Some _ => true | None => false end.
Definition dir_ready (d : list (file * content)) (f : file) : bool := negb (in_sub f) || dir_exists d.
Definition real_files (d : list (file * content)) : list (file * content) := filter (fun fc => 0 <=? fst fc) d.

Record task := mkTask {
  k_kind : tkind;
  k_file : file;
  k_data : content;            (* write: payload; load: what read() returned *)
  k_pc : tpc;
  k_res : option outcome       (* value/exception the function ended with; published at T4 *)
}.

Definition task_done (ts : list task) (i : nat) : bool :=
  match nth_error ts i with
  | Some k => match k_pc k with TEnd => true | _ => false end
  | None => false
  end.

(* the entry's own task has not yet run its locked block: its size was never added to mem *)
Definition inflight (ts : list task) (e : entry) : bool :=
  match nth_error ts (e_fut e) with
  | Some k => match k_pc k with T4 | TEnd => false | _ => true end
  | None => false
  end.

(* where a task goes when its function raises e *)
Definition fail_to (fl : flags) (k : task) (e : exn) : task :=
  mkTask (k_kind k) (k_file k) (k_data k) (if fl_drop_failed fl then TDrop else T4) (Some (Exn e)).

Definition task_step (fl : flags) (max : Z) (c : core) (k : task) : option (core * task) :=
  let f := k_file k in
  let mkdir := mkCore (mem c) (futs c) (heap c) (aset DIRKEY [] (disk c)) in
  match k_pc k with
  | TIs =>                                                                   (* os.path.isdir(write_path) *)
      Some (c, mkTask (k_kind k) f (k_data k) (if dir_exists (disk c) then T1 else TMk) None)
  | TMk =>                                                                   (* os.makedirs(write_path[, exist_ok=True]) *)
      if fl_mkdir_exist_ok fl then Some (mkdir, mkTask (k_kind k) f (k_data k) T1 None)
      else if dir_exists (disk c) then Some (c, fail_to fl k EExists)
      else Some (mkdir, mkTask (k_kind k) f (k_data k) T1 None)
  | T1 =>
      match k_kind k with
      | KLoad =>
          match lookup f (disk c) with
          | Some _ => Some (c, mkTask (k_kind k) f (k_data k) T2 None)
          | None => Some (c, fail_to fl k ENotFound)
          end
      | KWrite => Some (mkCore (mem c) (futs c) (heap c) (aset f [] (disk c)), mkTask (k_kind k) f (k_data k) T2 None)
      end
  | T2 =>
      match k_kind k with
      | KLoad =>
          (* until read() a load task's k_data holds [claim], the size argument it was submitted with (if any) *)
          let d := match lookup f (disk c) with Some d => d | None => [] end in
          let d' := if fl_load_reads_whole fl then d
                    else firstn (Z.to_nat (match k_data k with cl :: _ => cl | [] => 0 end)) d in
          Some (c, mkTask (k_kind k) f d' T3 None)
      | KWrite =>
          (* close() flushes the buffered payload at offset 0 of the descriptor opened at T1: the first
             len(payload) bytes are overwritten, whatever another writer put beyond them stays *)
          let cur := match lookup f (disk c) with Some d => d | None => [] end in
          Some (mkCore (mem c) (futs c) (heap c) (aset f (k_data k ++ skipn (length (k_data k)) cur) (disk c)),
                mkTask (k_kind k) f (k_data k) T3 None)
      end
  | T3 =>
      match ufm fl max f (zlen (k_data k)) c with
      | (c', None) => Some (c', mkTask (k_kind k) f (k_data k) T4 (Some (OkC (k_data k))))
      | (c', Some e) => Some (c', fail_to fl k e)
      end
  | TDrop =>                                                                 (* _run_task's except branch, under the lock *)
      Some (mkCore (mem c) (adel f (futs c)) (remove_file f (heap c)) (disk c),
            mkTask (k_kind k) f (k_data k) T4 (k_res k))
  | T4 => Some (c, mkTask (k_kind k) f (k_data k) TEnd (k_res k))
  | TEnd => None
  end.

(* ---------------------------------------------------------------- client threads *)
Inductive op := OGet (f : file) | OUpd (f : file) (c : content) | OUnl (f : file).

Inductive cpc :=
| CStart                              (* before the first action of the current operation *)
| CSize                               (* get_file: exists() said yes, before getsize() *)
| CLock (claim : Z)                   (* get_file: before its locked block *)
| CWait (fut : nat) (applied : bool)  (* before future.result() *)
| CRetry (fut : nat)                  (* update_file: before future.exception() of an in-flight load (busy guard) *)
| CAgain.                             (* update_file: the recursive call after that wait, before its locked block *)

Record client := mkClient { c_ops : list op; c_idx : nat; c_pc : cpc }.

Inductive result := RCont (c : content) | RBool (b : bool) | RNone | RExn (e : exn).
Inductive event := ECall (t : nat) (i : nat) (o : op) | ERet (t : nat) (i : nat) (r : result).

Record gstate := mkG {
  g_core : core;
  g_clients : list client;
  g_tasks : list task;
  g_hist : list event;      (* newest first *)
  g_k : Z                   (* ghost: 1 = update_file unloaded an in-flight load entry, 2 = unload_file unloaded an
                               in-flight load entry, 4 = unload_file unloaded an in-flight write entry (bit mask) *)
}.

Definition kbit (b : Z) (k : Z) : Z := Z.lor k b.

Definition ret_next (cl : client) : client := mkClient (c_ops cl) (S (c_idx cl)) CStart.

(* busy guard: the entry's future is not done (update_file only cares about non-writing entries) *)
Definition busy_entry (fl : flags) (ts : list task) (info : option entry) (any_kind : bool) : bool :=
  fl_busy_guard fl &&
  match info with
  | Some e => (any_kind || negb (e_w e)) && negb (task_done ts (e_fut e))
  | None => false
  end.

(* the locked block of update_file (first call: ev = [call event]; recursive call after a wait: ev = []) *)
Definition upd_lock (fl : flags) (s : gstate) (t : nat) (cl : client) (i : nat) (o : op) (f : file) (d : content)
           (ev : list event) : option gstate :=
  let c := g_core s in
  let upd cl' c' ts' k' := Some (mkG c' (set_nth t cl' (g_clients s)) ts' (ev ++ g_hist s) k') in
  let info := lookup f (futs c) in
  if busy_entry fl (g_tasks s) info false then
    match info with
    | Some e => upd (mkClient (c_ops cl) i (CRetry (e_fut e))) c (g_tasks s) (g_k s)
    | None => None
    end
  else
  let writer := match info with None => true | Some e => negb (e_w e) end in
  if writer then
    let k' := match info with
              | Some e => if inflight (g_tasks s) e then kbit 1 (g_k s) else g_k s
              | None => g_k s end in
    let c1 := unload_core f c in
    let id := length (g_tasks s) in
    upd (mkClient (c_ops cl) i (CWait id (fl_first fl)))
        (mkCore (mem c1) (aset f (mkE (fl_upd_w fl) (zlen d) id) (futs c1)) (heap c1) (disk c1))
        (g_tasks s ++ [mkTask KWrite f d (if dir_ready (disk c) f then T1 else if fl_mkdir_exist_ok fl then TMk else TIs) None]) k'
  else
    match info with
    | Some e => upd (mkClient (c_ops cl) i (CWait (e_fut e) (fl_second fl))) c (g_tasks s) (g_k s)
    | None => None
    end.

(* one step of client number t; None = not enabled (finished, or blocked on a future) *)
Definition client_step (fl : flags) (max : Z) (s : gstate) (t : nat) (cl : client) : option gstate :=
  let c := g_core s in
  let i := c_idx cl in
  let upd cl' c' ts' ev k' := Some (mkG c' (set_nth t cl' (g_clients s)) ts' (ev ++ g_hist s) k') in
  match nth_error (c_ops cl) i with
  | None => None
  | Some o =>
    match o, c_pc cl with
    (* ---- get_file *)
    | OGet f, CStart =>                                                      (* os.path.exists *)
        match lookup f (disk c) with
        | Some _ => upd (mkClient (c_ops cl) i CSize) c (g_tasks s) [ECall t i o] (g_k s)
        | None => upd (ret_next cl) c (g_tasks s) [ERet t i (RExn ENotFound); ECall t i o] (g_k s)
        end
    | OGet f, CSize =>                                                       (* os.path.getsize *)
        match lookup f (disk c) with
        | Some d =>
            if zlen d >? max then upd (ret_next cl) c (g_tasks s) [ERet t i (RExn EMemory)] (g_k s)
            else upd (mkClient (c_ops cl) i (CLock (zlen d))) c (g_tasks s) [] (g_k s)
        | None => upd (ret_next cl) c (g_tasks s) [ERet t i (RExn ENotFound)] (g_k s)
        end
    | OGet f, CLock claim =>                                                 (* with self.file_futures_lock *)
        match lookup f (futs c) with
        | None =>
            let id := length (g_tasks s) in
            upd (mkClient (c_ops cl) i (CWait id false))
                (mkCore (mem c) (aset f (mkE (fl_get_w fl) claim id) (futs c)) (heap c) (disk c))
                (g_tasks s ++ [mkTask KLoad f [claim] T1 None]) [] (g_k s)
        | Some e =>
            let h := if (negb (fl_touch_if_done fl) || task_done (g_tasks s) (e_fut e)) then touch f (heap c) else heap c in
            upd (mkClient (c_ops cl) i (CWait (e_fut e) false))
                (mkCore (mem c) (futs c) h (disk c)) (g_tasks s) [] (g_k s)
        end
    | OGet f, CWait fut _ =>                                                 (* future.result() *)
        match nth_error (g_tasks s) fut with
        | Some (mkTask _ _ _ TEnd (Some (OkC d))) => upd (ret_next cl) c (g_tasks s) [ERet t i (RCont d)] (g_k s)
        | Some (mkTask _ _ _ TEnd (Some (Exn e))) => upd (ret_next cl) c (g_tasks s) [ERet t i (RExn e)] (g_k s)
        | _ => None
        end
    (* ---- update_file *)
    | OUpd f d, CStart =>
        if zlen d >? max then upd (ret_next cl) c (g_tasks s) [ERet t i (RExn EMemory); ECall t i o] (g_k s)
        else upd_lock fl s t cl i o f d [ECall t i o]
    | OUpd f d, CAgain => upd_lock fl s t cl i o f d []
    | OUpd f d, CRetry fut =>                                                (* future.exception(): wait, then retry *)
        if task_done (g_tasks s) fut then upd (mkClient (c_ops cl) i CAgain) c (g_tasks s) [] (g_k s) else None
    | OUpd f d, CWait fut applied =>
        match nth_error (g_tasks s) fut with
        | Some (mkTask _ _ _ TEnd (Some (OkC _))) => upd (ret_next cl) c (g_tasks s) [ERet t i (RBool applied)] (g_k s)
        | Some (mkTask _ _ _ TEnd (Some (Exn e))) => upd (ret_next cl) c (g_tasks s) [ERet t i (RExn e)] (g_k s)
        | _ => None
        end
    (* ---- unload_file *)
    | OUnl f, CStart =>
        if busy_entry fl (g_tasks s) (lookup f (futs c)) true then
          upd (ret_next cl) c (g_tasks s) [ERet t i RNone; ECall t i o] (g_k s)
        else
        let k' := match lookup f (futs c) with
                  | Some e => if inflight (g_tasks s) e then kbit (if e_w e then 4 else 2) (g_k s) else g_k s
                  | None => g_k s end in
        let c1 := unload_core f (mkCore (mem c) (futs c) (remove_file f (heap c)) (disk c)) in
        upd (ret_next cl) c1 (g_tasks s) [ERet t i RNone; ECall t i o] k'
    | _, _ => None
    end
  end.

(* thread ids: clients 0 .. n-1, then the tasks in the order they were submitted *)
Definition step (fl : flags) (max : Z) (s : gstate) (t : nat) : option gstate :=
  let n := length (g_clients s) in
  if (t <? n)%nat then
    match nth_error (g_clients s) t with
    | Some cl => client_step fl max s t cl
    | None => None
    end
  else
    match nth_error (g_tasks s) (t - n) with
    | Some k =>
        match task_step fl max (g_core s) k with
        | Some (c', k') => Some (mkG c' (g_clients s) (set_nth (t - n) k' (g_tasks s)) (g_hist s) (g_k s))
        | None => None
        end
    | None => None
    end.

(* ---------------------------------------------------------------- configurations, runs *)
Record config := mkCfg {
  cfg_max : Z;                          (* max_memory *)
  cfg_disk : list (file * content);     (* files present at the start (sorted by name); nothing cached *)
  cfg_progs : list (list op)            (* one program per client thread *)
}.

Definition init (cf : config) : gstate :=
  mkG (mkCore 0 [] [] (cfg_disk cf)) (map (fun p => mkClient p O CStart) (cfg_progs cf)) [] [] 0.

Definition ntids (s : gstate) : nat := (length (g_clients s) + length (g_tasks s))%nat.

Definition is_some {A} (o : option A) : bool := match o with Some _ => true | None => false end.

Definition enabled (fl : flags) (max : Z) (s : gstate) : list nat :=
  filter (fun t => is_some (step fl max s t)) (seq 0 (ntids s)).

Definition successors (fl : flags) (max : Z) (s : gstate) : list gstate :=
  flat_map (fun t => match step fl max s t with Some s' => [s'] | None => [] end) (seq 0 (ntids s)).

Definition client_finished (cl : client) : bool := (length (c_ops cl) <=? c_idx cl)%nat.
Definition all_returned (s : gstate) : bool := forallb client_finished (g_clients s).
Definition task_finished (k : task) : bool := match k_pc k with TEnd => true | _ => false end.
Definition quiescent (s : gstate) : bool := all_returned s && forallb task_finished (g_tasks s).

(* run a schedule; stops with the index of the first tid that is not enabled *)
Fixpoint run (fl : flags) (max : Z) (s : gstate) (sch : list nat) : gstate * option nat :=
  match sch with
  | [] => (s, None)
  | t :: r =>
      match step fl max s t with
      | Some s' => match run fl max s' r with (s2, Some i) => (s2, Some (S i)) | x => x end
      | None => (s, Some O)
      end
  end.

(* ---------------------------------------------------------------- termination measure
   rcount = operations that may still submit a task (gets before their locked block, updates before their
   final locked block) + tasks not yet completed; it never increases.  An update that has to wait for an
   in-flight load (busy guard) can be sent round once per such task, hence the 3*R terms. *)
Definition tpc_weight (p : tpc) : nat :=
  match p with TIs => 7 | TMk => 6 | T1 => 5 | T2 => 4 | T3 => 3 | TDrop => 2 | T4 => 1 | TEnd => 0 end.
Definition op_pending (o : op) : nat := match o with OGet _ | OUpd _ _ => 1 | OUnl _ => 0 end.
Definition cur_pending (o : op) (p : cpc) : nat :=
  match o, p with
  | OGet _, (CStart | CSize | CLock _) => 1
  | OUpd _ _, (CStart | CAgain | CRetry _) => 1
  | _, _ => 0
  end.
Definition client_pending (cl : client) : nat :=
  match skipn (c_idx cl) (c_ops cl) with
  | [] => O
  | o :: r => (cur_pending o (c_pc cl) + fold_right (fun o a => op_pending o + a) 0 r)%nat
  end.
Definition task_pending (k : task) : nat := match k_pc k with TEnd => 0 | _ => 1 end.
Definition rcount (s : gstate) : nat :=
  (fold_right (fun cl a => client_pending cl + a) 0 (g_clients s)
   + fold_right (fun k a => task_pending k + a) 0 (g_tasks s))%nat.

Definition op_weight (R : nat) (o : op) : nat := match o with OGet _ => 11 | OUpd _ _ => 11 + 3 * R | OUnl _ => 1 end.
Definition cur_weight (R : nat) (ts : list task) (o : op) (p : cpc) : nat :=
  match o, p with
  | OGet _, CStart => 11 | OGet _, CSize => 10 | OGet _, CLock _ => 9 | OGet _, _ => 1
  | OUpd _ _, CStart => 11 + 3 * R
  | OUpd _ _, CAgain => 9 + 3 * R
  | OUpd _ _, CRetry f => 10 + 3 * (R - (if task_done ts f then 0 else 1))
  | OUpd _ _, _ => 1
  | OUnl _, _ => 1
  end.
Definition client_weight (R : nat) (ts : list task) (cl : client) : nat :=
  match skipn (c_idx cl) (c_ops cl) with
  | [] => O
  | o :: r => (cur_weight R ts o (c_pc cl) + fold_right (fun o a => op_weight R o + a) 0 r)%nat
  end.
Definition weight (s : gstate) : nat :=
  let R := rcount s in
  (fold_right (fun cl a => client_weight R (g_tasks s) cl + a) 0 (g_clients s)
   + fold_right (fun k a => tpc_weight (k_pc k) + a) 0 (g_tasks s))%nat.

(* ---------------------------------------------------------------- quiescent-state agreement *)
Fixpoint zlist_eqb (a b : list Z) : bool :=
  match a, b with
  | [], [] => true
  | x :: a', y :: b' => (x =? y) && zlist_eqb a' b'
  | _, _ => false
  end.

Definition count_file (f : file) (h : list file) : nat := length (filter (fun g => g =? f) h).

(* cache entry = (not writing, len of the cached bytes, a finished future holding exactly the bytes on disk) *)
Definition entry_agrees (s : gstate) (fe : file * entry) : bool :=
  let '(f, e) := fe in
  negb (e_w e) &&
  match nth_error (g_tasks s) (e_fut e), lookup f (disk (g_core s)) with
  | Some (mkTask _ _ _ TEnd (Some (OkC d))), Some d' => zlist_eqb d d' && (e_size e =? zlen d)
  | _, _ => false
  end.

Definition mem_agrees (c : core) : bool :=
  mem c =? fold_right (fun fe a => e_size (snd fe) + a) 0 (futs c).

Definition heap_agrees (c : core) : bool :=
  forallb (fun f => is_some (lookup f (futs c))) (heap c) &&
  forallb (fun fe => (count_file (fst fe) (heap c) =? 1)%nat) (futs c) &&
  (length (heap c) =? length (futs c))%nat.

(* disk / cached contents / accounting agree (the "last successful update" part is the
   `final` argument of Spec.linearizable) *)
Definition final_agree (s : gstate) : bool :=
  forallb (entry_agrees s) (futs (g_core s)) && mem_agrees (g_core s) && heap_agrees (g_core s).

(* ---------------------------------------------------------------- finite exploration (used reflectively) *)
(* boolean equality of states (proved to imply Leibniz equality in Proofs.v) *)
Fixpoint list_eqb {A} (e : A -> A -> bool) (a b : list A) : bool :=
  match a, b with
  | [], [] => true
  | x :: a', y :: b' => e x y && list_eqb e a' b'
  | _, _ => false
  end.
Definition opt_eqb {A} (e : A -> A -> bool) (a b : option A) : bool :=
  match a, b with None, None => true | Some x, Some y => e x y | _, _ => false end.
Definition exn_eqb (a b : exn) : bool :=
  match a, b with
  | EAssert, EAssert | EKey, EKey | ENotFound, ENotFound | EMemory, EMemory | EExists, EExists => true
  | _, _ => false
  end.
Definition outcome_eqb (a b : outcome) : bool :=
  match a, b with OkC c, OkC d => zlist_eqb c d | Exn e, Exn f => exn_eqb e f | _, _ => false end.
Definition entry_eqb (a b : entry) : bool :=
  Bool.eqb (e_w a) (e_w b) && (e_size a =? e_size b) && (e_fut a =? e_fut b)%nat.
Definition fe_eqb (a b : file * entry) : bool := (fst a =? fst b) && entry_eqb (snd a) (snd b).
Definition fc_eqb (a b : file * content) : bool := (fst a =? fst b) && zlist_eqb (snd a) (snd b).
Definition core_eqb (a b : core) : bool :=
  (mem a =? mem b) && list_eqb fe_eqb (futs a) (futs b) && zlist_eqb (heap a) (heap b) && list_eqb fc_eqb (disk a) (disk b).
Definition tkind_eqb (a b : tkind) : bool :=
  match a, b with KLoad, KLoad | KWrite, KWrite => true | _, _ => false end.
Definition tpc_eqb (a b : tpc) : bool :=
  match a, b with
  | T1, T1 | T2, T2 | T3, T3 | T4, T4 | TEnd, TEnd | TMk, TMk | TIs, TIs | TDrop, TDrop => true
  | _, _ => false
  end.
Definition task_eqb (a b : task) : bool :=
  tpc_eqb (k_pc a) (k_pc b) && tkind_eqb (k_kind a) (k_kind b) && (k_file a =? k_file b) &&
  zlist_eqb (k_data a) (k_data b) && opt_eqb outcome_eqb (k_res a) (k_res b).
Definition op_eqb (a b : op) : bool :=
  match a, b with
  | OGet f, OGet g => f =? g
  | OUpd f c, OUpd g d => (f =? g) && zlist_eqb c d
  | OUnl f, OUnl g => f =? g
  | _, _ => false
  end.
Definition cpc_eqb (a b : cpc) : bool :=
  match a, b with
  | CStart, CStart => true
  | CSize, CSize => true
  | CLock x, CLock y => x =? y
  | CWait f p, CWait g q => (f =? g)%nat && Bool.eqb p q
  | CRetry f, CRetry g => (f =? g)%nat
  | CAgain, CAgain => true
  | _, _ => false
  end.
Definition client_eqb (a b : client) : bool :=
  (c_idx a =? c_idx b)%nat && cpc_eqb (c_pc a) (c_pc b) && list_eqb op_eqb (c_ops a) (c_ops b).
Definition result_eqb (a b : result) : bool :=
  match a, b with
  | RCont c, RCont d => zlist_eqb c d
  | RBool p, RBool q => Bool.eqb p q
  | RNone, RNone => true
  | RExn e, RExn f => exn_eqb e f
  | _, _ => false
  end.
Definition event_eqb (a b : event) : bool :=
  match a, b with
  | ECall t i o, ECall u j p => (t =? u)%nat && (i =? j)%nat && op_eqb o p
  | ERet t i r, ERet u j q => (t =? u)%nat && (i =? j)%nat && result_eqb r q
  | _, _ => false
  end.
Definition gstate_eqb (a b : gstate) : bool :=
  (g_k a =? g_k b) && list_eqb task_eqb (g_tasks a) (g_tasks b) && list_eqb event_eqb (g_hist a) (g_hist b) &&
  core_eqb (g_core a) (g_core b) && list_eqb client_eqb (g_clients a) (g_clients b).

(* a hash; collisions only cost time (buckets) *)
Definition dg (acc : positive) (d : Z) : positive :=
  Pos.add (Pos.mul 16 acc) (Z.to_pos (1 + Z.abs d mod 15)).
Definition tpc_code (p : tpc) : Z :=
  match p with T1 => 1 | T2 => 2 | T3 => 3 | T4 => 4 | TEnd => 5 | TMk => 6 | TIs => 7 | TDrop => 8 end.
Definition cpc_code (p : cpc) : Z :=
  match p with CStart => 0 | CSize => 1 | CLock _ => 2 | CWait f a => 5 + 2 * Z.of_nat f + (if a then 1 else 0)
  | CRetry f => 3 + 7 * Z.of_nat f | CAgain => 4 end.
Definition ev_code (e : event) : Z :=
  match e with
  | ECall t _ _ => 2 * Z.of_nat t
  | ERet t _ r => 2 * Z.of_nat t + 1 + match r with RCont c => 3 * zlen c + 6 | RBool true => 3 | RBool false => 6 | RNone => 0 | RExn _ => 9 end
  end.
Definition enc (s : gstate) : positive :=
  let c := g_core s in
  let a := fold_left (fun a cl => dg (dg a (Z.of_nat (c_idx cl))) (cpc_code (c_pc cl))) (g_clients s) 1%positive in
  let a := fold_left (fun a k => dg (dg a (tpc_code (k_pc k))) (zlen (k_data k))) (g_tasks s) a in
  let a := dg (dg a (mem c)) (g_k s) in
  let a := fold_left (fun a f => dg a (1 + f)) (heap c) a in
  let a := fold_left (fun a fe => dg (dg (dg a (fst fe)) (Z.of_nat (e_fut (snd fe)))) (e_size (snd fe) + if e_w (snd fe) then 7 else 0)) (futs c) (dg a 0) in
  let a := fold_left (fun a fd => dg a (zlen (snd fd))) (disk c) (dg a 0) in
  fold_left (fun a e => dg a (ev_code e)) (g_hist s) (dg a 0).

Definition sset := PositiveMap.t (list gstate).

Definition smem (s : gstate) (S : sset) : bool :=
  match PositiveMap.find (enc s) S with
  | Some l => existsb (gstate_eqb s) l
  | None => false
  end.

Definition sadd (s : gstate) (S : sset) : sset :=
  let k := enc s in
  match PositiveMap.find k S with
  | Some l => PositiveMap.add k (s :: l) S
  | None => PositiveMap.add k [s] S
  end.

(* worklist search; None = out of fuel *)
Fixpoint explore (fl : flags) (max : Z) (fuel : nat) (work : list gstate) (S : sset) : option sset :=
  match work with
  | [] => Some S
  | s :: w =>
      match fuel with
      | O => None
      | Datatypes.S fuel' =>
          let '(w', S') :=
            fold_left (fun (acc : list gstate * sset) s' =>
                         if smem s' (snd acc) then acc else (s' :: fst acc, sadd s' (snd acc)))
                      (successors fl max s) (w, S) in
          explore fl max fuel' w' S'
      end
  end.

Definition reach_set (fl : flags) (cf : config) (fuel : nat) : option sset :=
  let s0 := init cf in explore fl (cfg_max cf) fuel [s0] (sadd s0 (PositiveMap.empty _)).

Definition sset_states (S : sset) : list gstate := flat_map snd (PositiveMap.elements S).
