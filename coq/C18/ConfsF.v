(* C18/ConfsF.v — reflective check of the chunk U31b (see Spec.v) *)
From Coq Require Import ZArith List Bool.
From C18 Require Import Model Generated Spec Proofs.
Lemma u31b_ok : check_universe gen_flags U31b FUEL = true.
Proof. vm_cast_no_check (eq_refl true). Qed.
