(* C18/Unbounded.v — "every call returns", for ANY configuration (any number of client threads,
   operations, files, contents, any flags, any max_memory) and ANY schedule:
     * every step strictly decreases `weight` (so every run is finite), and
     * a reachable state in which no thread can move is quiescent: every call has returned and every
       task has finished (no deadlock).
   Proved by induction over the step relation; no finite bound anywhere. *)
From Coq Require Import ZArith List Bool Lia.
From C18 Require Import Model Generated Spec.
Import ListNotations.
Open Scope Z_scope.

(* ---------------------------------------------------------------- sums over lists *)
Definition sumw {A} (f : A -> nat) (l : list A) : nat := fold_right (fun x a => (f x + a)%nat) 0%nat l.

Lemma sumw_app : forall A (f : A -> nat) l1 l2, sumw f (l1 ++ l2) = (sumw f l1 + sumw f l2)%nat.
Proof. induction l1 as [|x l IH]; intros l2; simpl; [reflexivity | rewrite IH; lia]. Qed.

Lemma sumw_set_nth : forall A (f : A -> nat) l i x y, nth_error l i = Some x ->
  (sumw f (set_nth i y l) + f x = sumw f l + f y)%nat.
Proof.
  induction l as [|a l IH]; intros i x y H; destruct i; simpl in *; try discriminate.
  - inversion H; subst. lia.
  - specialize (IH _ _ y H). lia.
Qed.

Lemma sumw_set_nth_le : forall A (f f' : A -> nat) l i x y, (forall a, (f' a <= f a)%nat) -> nth_error l i = Some x ->
  (sumw f' (set_nth i y l) + f x <= sumw f l + f' y)%nat.
Proof.
  induction l as [|a l IH]; intros i x y Hle H; destruct i; simpl in *; try discriminate.
  - inversion H; subst. clear IH. induction l as [|b l IHl]; simpl; [lia|]. pose proof (Hle b). lia.
  - specialize (IH _ _ y Hle H). pose proof (Hle a). lia.
Qed.

Lemma sumw_le : forall A (f f' : A -> nat) l, (forall a, (f' a <= f a)%nat) -> (sumw f' l <= sumw f l)%nat.
Proof. induction l as [|a l IH]; intros Hle; simpl; [lia|]. pose proof (Hle a). specialize (IH Hle). lia. Qed.

Lemma sumw_ext : forall A (f g : A -> nat) l, (forall a, f a = g a) -> sumw f l = sumw g l.
Proof. induction l as [|a l IH]; intros H; simpl; [reflexivity|]. rewrite H, IH by exact H. reflexivity. Qed.

Lemma sumw_nth_le : forall A (f : A -> nat) l i x, nth_error l i = Some x -> (f x <= sumw f l)%nat.
Proof.
  induction l as [|a l IH]; intros i x H; destruct i; simpl in *; try discriminate.
  - inversion H; subst. lia.
  - specialize (IH _ _ H). lia.
Qed.

Lemma skipn_nth : forall A (l : list A) i o, nth_error l i = Some o -> skipn i l = o :: skipn (S i) l.
Proof.
  induction l as [|a l IH]; intros i o H; destruct i; simpl in *; try discriminate.
  - inversion H; reflexivity.
  - apply IH. exact H.
Qed.

Definition tpcw (k : task) : nat := tpc_weight (k_pc k).

Lemma rcount_eq : forall s, rcount s = (sumw client_pending (g_clients s) + sumw task_pending (g_tasks s))%nat.
Proof. reflexivity. Qed.

Lemma weight_eq : forall s,
  weight s = (sumw (client_weight (rcount s) (g_tasks s)) (g_clients s) + sumw tpcw (g_tasks s))%nat.
Proof. reflexivity. Qed.

Definition rest_weight (R : nat) (cl : client) : nat := sumw (op_weight R) (skipn (S (c_idx cl)) (c_ops cl)).
Definition rest_pending (cl : client) : nat := sumw op_pending (skipn (S (c_idx cl)) (c_ops cl)).

Lemma client_weight_cur : forall R ts cl o, nth_error (c_ops cl) (c_idx cl) = Some o ->
  client_weight R ts cl = (cur_weight R ts o (c_pc cl) + rest_weight R cl)%nat.
Proof. intros R ts cl o H. unfold client_weight, rest_weight. rewrite (skipn_nth _ _ _ _ H). reflexivity. Qed.

Lemma client_weight_same : forall R ts cl o p, nth_error (c_ops cl) (c_idx cl) = Some o ->
  client_weight R ts (mkClient (c_ops cl) (c_idx cl) p) = (cur_weight R ts o p + rest_weight R cl)%nat.
Proof.
  intros R ts cl o p H. unfold client_weight, rest_weight. cbn [c_ops c_idx c_pc].
  rewrite (skipn_nth _ _ _ _ H). reflexivity.
Qed.

Lemma cur_weight_start : forall R ts o, cur_weight R ts o CStart = op_weight R o.
Proof. destruct o; reflexivity. Qed.

Lemma client_weight_next : forall R ts cl, client_weight R ts (ret_next cl) = rest_weight R cl.
Proof.
  intros R ts cl. unfold client_weight, ret_next, rest_weight. cbn [c_ops c_idx c_pc].
  destruct (skipn (S (c_idx cl)) (c_ops cl)) as [|o r]; [reflexivity|].
  rewrite cur_weight_start. reflexivity.
Qed.

Lemma client_pending_cur : forall cl o, nth_error (c_ops cl) (c_idx cl) = Some o ->
  client_pending cl = (cur_pending o (c_pc cl) + rest_pending cl)%nat.
Proof. intros cl o H. unfold client_pending, rest_pending. rewrite (skipn_nth _ _ _ _ H). reflexivity. Qed.

Lemma client_pending_same : forall cl o p, nth_error (c_ops cl) (c_idx cl) = Some o ->
  client_pending (mkClient (c_ops cl) (c_idx cl) p) = (cur_pending o p + rest_pending cl)%nat.
Proof.
  intros cl o p H. unfold client_pending, rest_pending. cbn [c_ops c_idx c_pc].
  rewrite (skipn_nth _ _ _ _ H). reflexivity.
Qed.

Lemma client_pending_next : forall cl, client_pending (ret_next cl) = rest_pending cl.
Proof.
  intros cl. unfold client_pending, ret_next, rest_pending. cbn [c_ops c_idx c_pc].
  destruct (skipn (S (c_idx cl)) (c_ops cl)) as [|o r]; [reflexivity|]. destruct o; reflexivity.
Qed.

(* monotonicity in R *)
Lemma op_weight_mono : forall R R' o, (R' <= R)%nat -> (op_weight R' o <= op_weight R o)%nat.
Proof. intros R R' o H. destruct o; simpl; lia. Qed.

Lemma rest_weight_mono : forall R R' cl, (R' <= R)%nat -> (rest_weight R' cl <= rest_weight R cl)%nat.
Proof. intros R R' cl H. unfold rest_weight. apply sumw_le. intros o. apply op_weight_mono. exact H. Qed.

Lemma cur_weight_mono : forall R R' ts o p, (R' <= R)%nat -> (cur_weight R' ts o p <= cur_weight R ts o p)%nat.
Proof. intros R R' ts o p H. destruct o, p; simpl; lia. Qed.

Lemma client_weight_mono : forall R R' ts cl, (R' <= R)%nat -> (client_weight R' ts cl <= client_weight R ts cl)%nat.
Proof.
  intros R R' ts cl H. unfold client_weight. destruct (skipn (c_idx cl) (c_ops cl)) as [|o r]; [lia|].
  pose proof (cur_weight_mono R R' ts o (c_pc cl) H).
  assert (sumw (op_weight R') r <= sumw (op_weight R) r)%nat by (apply sumw_le; intros; apply op_weight_mono; exact H).
  unfold sumw in *. lia.
Qed.

(* dependence on the task list only through task_done *)
Lemma client_weight_ext : forall R ts ts' cl, (forall f, task_done ts' f = task_done ts f) ->
  client_weight R ts' cl = client_weight R ts cl.
Proof.
  intros R ts ts' cl H. unfold client_weight. destruct (skipn (c_idx cl) (c_ops cl)) as [|o r]; [reflexivity|].
  f_equal. destruct o, (c_pc cl); simpl; try reflexivity. rewrite H. reflexivity.
Qed.

Lemma task_done_app : forall ts k f, k_pc k <> TEnd -> task_done (ts ++ [k]) f = task_done ts f.
Proof.
  intros ts k f Hk. unfold task_done. destruct (lt_dec f (length ts)) as [Hlt|Hge].
  - rewrite nth_error_app1 by exact Hlt. reflexivity.
  - rewrite nth_error_app2 by lia. replace (nth_error ts f) with (@None task) by (symmetry; apply nth_error_None; lia).
    destruct (f - length ts)%nat as [|m]; simpl; [destruct (k_pc k); congruence | destruct m; reflexivity].
Qed.

Lemma nth_error_set_nth_eq : forall A (l : list A) i y, (i < length l)%nat -> nth_error (set_nth i y l) i = Some y.
Proof. induction l as [|a l IH]; intros i y H; destruct i; simpl in *; try lia; auto. apply IH. lia. Qed.

Lemma nth_error_set_nth_ne : forall A (l : list A) i j y, i <> j -> nth_error (set_nth i y l) j = nth_error l j.
Proof.
  induction l as [|a l IH]; intros i j y H; destruct i, j; simpl; try reflexivity; try congruence.
  apply IH. congruence.
Qed.

(* ---------------------------------------------------------------- every step decreases weight *)
Ltac break_match :=
  match goal with
  | H : context [match ?x with _ => _ end] |- _ => destruct x eqn:?
  end.

Ltac bools :=
  repeat match goal with
         | H : _ && _ = true |- _ => apply andb_true_iff in H; destruct H
         | H : negb _ = true |- _ => apply negb_true_iff in H
         | H : _ || _ = false |- _ => apply orb_false_iff in H; destruct H
         | H : negb _ = false |- _ => apply negb_false_iff in H
         end.

Lemma weight_client_move : forall s t cl cl' ts' c' h' k',
  nth_error (g_clients s) t = Some cl ->
  (forall f, task_done ts' f = task_done (g_tasks s) f) ->
  (sumw client_pending (set_nth t cl' (g_clients s)) + sumw task_pending ts' <= rcount s)%nat ->
  (client_weight (sumw client_pending (set_nth t cl' (g_clients s)) + sumw task_pending ts') ts' cl' + sumw tpcw ts'
   < client_weight (rcount s) (g_tasks s) cl + sumw tpcw (g_tasks s))%nat ->
  (weight (mkG c' (set_nth t cl' (g_clients s)) ts' h' k') < weight s)%nat.
Proof.
  intros s t cl cl' ts' c' h' k' Hn Hext HR Hlt. rewrite !weight_eq. rewrite (rcount_eq (mkG _ _ _ _ _)).
  simpl g_clients. simpl g_tasks.
  set (R' := (sumw client_pending (set_nth t cl' (g_clients s)) + sumw task_pending ts')%nat) in *.
  assert (Hle : forall a, (client_weight R' ts' a <= client_weight (rcount s) (g_tasks s) a)%nat).
  { intros a. rewrite (client_weight_ext R' _ _ a Hext). apply client_weight_mono. exact HR. }
  pose proof (sumw_set_nth_le _ _ _ _ _ _ cl' Hle Hn). lia.
Qed.

Lemma client_step_weight : forall fl mx s t cl s',
  nth_error (g_clients s) t = Some cl -> client_step fl mx s t cl = Some s' -> (weight s' < weight s)%nat.
Proof.
  intros fl mx s t cl s' Hn H. unfold client_step, upd_lock, busy_entry in H.
  destruct (nth_error (c_ops cl) (c_idx cl)) as [o|] eqn:Eo; [|discriminate].
  pose proof (sumw_nth_le _ client_pending _ _ _ Hn) as Hpl.
  rewrite (client_pending_cur _ _ Eo) in Hpl.
  pose proof (fun R' (H : (R' <= rcount s)%nat) => rest_weight_mono (rcount s) R' cl H) as Hrw.
  repeat break_match; try discriminate; inversion H; subst; clear H; bools;
    (eapply weight_client_move; [exact Hn | intros ?; first [reflexivity | apply task_done_app; discriminate] | | ]);
    match goal with
    | |- context [set_nth t ?c (g_clients s)] =>
        pose proof (sumw_set_nth _ client_pending _ _ _ c Hn) as Hp;
        rewrite (client_pending_cur _ _ Eo) in Hp;
        rewrite ?client_pending_next, ?(client_pending_same _ _ _ Eo) in Hp
    end;
    rewrite ?sumw_app; simpl sumw; simpl task_pending; simpl tpcw; simpl tpc_weight;
    try match goal with Hc : c_pc cl = _ |- _ => rewrite Hc in * end;
    simpl cur_pending in Hp; simpl cur_pending in Hpl; rewrite (rcount_eq s) in *;
    try lia.
  all: rewrite (client_weight_cur _ _ _ _ Eo);
       rewrite ?client_weight_next, ?(client_weight_same _ _ _ _ _ Eo);
       try match goal with Hc : c_pc _ = _ |- _ => rewrite Hc end;
       simpl cur_weight;
       repeat match goal with Ht : task_done _ _ = _ |- _ => rewrite Ht end.
  all: match goal with
       | Hr : forall R' : nat, (R' <= ?R)%nat -> _ |- context [rest_weight (sumw client_pending (set_nth ?i ?c ?cs) + ?T) ?c0] =>
           let HR := fresh "HR" in
           assert (HR : (sumw client_pending (set_nth i c cs) + T <= R)%nat) by lia;
           pose proof (Hr _ HR)
       end; lia.
Qed.
Lemma task_done_set_nth : forall ts i k' f, (i < length ts)%nat ->
  task_done (set_nth i k' ts) f = if (f =? i)%nat then task_finished k' else task_done ts f.
Proof.
  intros ts i k' f Hi. unfold task_done. destruct (f =? i)%nat eqn:E.
  - apply Nat.eqb_eq in E. subst f. rewrite nth_error_set_nth_eq by exact Hi. reflexivity.
  - apply Nat.eqb_neq in E. rewrite nth_error_set_nth_ne by congruence. reflexivity.
Qed.

Lemma cur_weight_finish : forall R R' ts i k k' o p,
  (R' + 1 = R)%nat -> nth_error ts i = Some k -> task_finished k = false -> task_finished k' = true ->
  (cur_weight R' (set_nth i k' ts) o p <= cur_weight R ts o p)%nat.
Proof.
  intros R R' ts i k k' o p HR Hn Hk Hk'.
  assert (Hi : (i < length ts)%nat) by (apply nth_error_Some; congruence).
  destruct o, p; simpl; try lia.
  rewrite (task_done_set_nth _ _ _ _ Hi). destruct (fut =? i)%nat eqn:E.
  - apply Nat.eqb_eq in E. subst fut. rewrite Hk'.
    assert (Hd : task_done ts i = false) by (unfold task_done; rewrite Hn; exact Hk).
    rewrite Hd. lia.
  - destruct (task_done ts fut); lia.
Qed.

Lemma client_weight_finish : forall R R' ts i k k' cl,
  (R' + 1 = R)%nat -> nth_error ts i = Some k -> task_finished k = false -> task_finished k' = true ->
  (client_weight R' (set_nth i k' ts) cl <= client_weight R ts cl)%nat.
Proof.
  intros R R' ts i k k' cl HR Hn Hk Hk'. unfold client_weight.
  destruct (skipn (c_idx cl) (c_ops cl)) as [|o r]; [lia|].
  pose proof (cur_weight_finish R R' ts i k k' o (c_pc cl) HR Hn Hk Hk').
  assert (sumw (op_weight R') r <= sumw (op_weight R) r)%nat by (apply sumw_le; intros; apply op_weight_mono; lia).
  unfold sumw in *. lia.
Qed.

Lemma task_step_pcs : forall fl mx c k c' k', task_step fl mx c k = Some (c', k') ->
  (tpc_weight (k_pc k') < tpc_weight (k_pc k))%nat /\ task_finished k = false /\
  (task_finished k' = true <-> k_pc k = T4).
Proof.
  intros fl mx c k c' k' H. unfold task_step, fail_to in H. unfold task_finished.
  repeat break_match; try discriminate; inversion H; subst; simpl;
    repeat match goal with |- context [if ?b then _ else _] => destruct b end; simpl;
    (split; [lia | split; [reflexivity | split; intros; congruence]]).
Qed.

Theorem step_decreases_weight : forall fl mx s t s', step fl mx s t = Some s' -> (weight s' < weight s)%nat.
Proof.
  intros fl mx s t s' H. unfold step in H.
  destruct (t <? length (g_clients s))%nat.
  - destruct (nth_error (g_clients s) t) as [cl|] eqn:En; [|discriminate].
    eapply client_step_weight; eauto.
  - destruct (nth_error (g_tasks s) (t - length (g_clients s))) as [k|] eqn:En; [|discriminate].
    destruct (task_step fl mx (g_core s) k) as [[c' k']|] eqn:Et; [|discriminate].
    inversion H; subst; clear H. rewrite !weight_eq, !rcount_eq. simpl g_clients. simpl g_tasks.
    destruct (task_step_pcs _ _ _ _ _ _ Et) as (Hw & Hk & Hfin).
    assert (Hi : (t - length (g_clients s) < length (g_tasks s))%nat) by (apply nth_error_Some; congruence).
    pose proof (sumw_set_nth _ tpcw _ _ _ k' En) as Hsum. change (tpcw k) with (tpc_weight (k_pc k)) in Hsum. change (tpcw k') with (tpc_weight (k_pc k')) in Hsum.
    pose proof (sumw_set_nth _ task_pending _ _ _ k' En) as Hpend.
    destruct (task_finished k') eqn:Ek'.
    + (* the task completes: R drops by one *)
      assert (Hp1 : task_pending k = 1%nat) by (unfold task_pending; unfold task_finished in Hk; destruct (k_pc k); congruence).
      assert (Hp0 : task_pending k' = 0%nat) by (unfold task_pending; unfold task_finished in Ek'; destruct (k_pc k'); congruence).
      rewrite Hp1, Hp0 in Hpend.
      set (R := (sumw client_pending (g_clients s) + sumw task_pending (g_tasks s))%nat) in *.
      set (R' := (sumw client_pending (g_clients s) + sumw task_pending (set_nth (t - length (g_clients s)) k' (g_tasks s)))%nat) in *.
      assert (HR : (R' + 1 = R)%nat) by (subst R R'; lia).
      assert (Hle : (sumw (client_weight R' (set_nth (t - length (g_clients s)) k' (g_tasks s))) (g_clients s)
                     <= sumw (client_weight R (g_tasks s)) (g_clients s))%nat).
      { apply sumw_le. intros a. eapply client_weight_finish; eauto. }
      lia.
    + (* any other task step: R and task_done are unchanged *)
      assert (Hp1 : task_pending k = 1%nat) by (unfold task_pending; unfold task_finished in Hk; destruct (k_pc k); congruence).
      assert (Hp1' : task_pending k' = 1%nat) by (unfold task_pending; unfold task_finished in Ek'; destruct (k_pc k'); congruence).
      rewrite Hp1, Hp1' in Hpend.
      assert (HR : (sumw client_pending (g_clients s) + sumw task_pending (set_nth (t - length (g_clients s)) k' (g_tasks s))
                    = sumw client_pending (g_clients s) + sumw task_pending (g_tasks s))%nat) by lia.
      rewrite HR.
      assert (Hext : forall f, task_done (set_nth (t - length (g_clients s)) k' (g_tasks s)) f = task_done (g_tasks s) f).
      { intros f. rewrite (task_done_set_nth _ _ _ _ Hi). destruct (f =? t - length (g_clients s))%nat eqn:E; [|reflexivity].
        apply Nat.eqb_eq in E. subst f. unfold task_done. rewrite En. rewrite Ek'. symmetry. exact Hk. }
      assert (Heq : sumw (client_weight (sumw client_pending (g_clients s) + sumw task_pending (g_tasks s))
                            (set_nth (t - length (g_clients s)) k' (g_tasks s))) (g_clients s)
                    = sumw (client_weight (sumw client_pending (g_clients s) + sumw task_pending (g_tasks s)) (g_tasks s)) (g_clients s)).
      { apply sumw_ext. intros a. apply client_weight_ext. exact Hext. }
      rewrite Heq. lia.
Qed.

(* ---------------------------------------------------------------- no deadlock *)
Definition pc_ok (n : nat) (cl : client) : Prop :=
  match nth_error (c_ops cl) (c_idx cl) with
  | None => True
  | Some o =>
      match o, c_pc cl with
      | OGet _, CWait f _ => (f < n)%nat
      | OGet _, (CRetry _ | CAgain) => False
      | OGet _, _ => True
      | OUpd _ _, CStart => True
      | OUpd _ _, CAgain => True
      | OUpd _ _, CWait f _ => (f < n)%nat
      | OUpd _ _, CRetry f => (f < n)%nat
      | OUnl _, CStart => True
      | _, _ => False
      end
  end.

Definition res_ok (k : task) : Prop :=
  match k_pc k with T4 | TEnd | TDrop => k_res k <> None | _ => True end.

Definition entries_ok (n : nat) (c : core) : Prop := Forall (fun fe : file * entry => (e_fut (snd fe) < n)%nat) (futs c).

Definition J (s : gstate) : Prop :=
  Forall (pc_ok (length (g_tasks s))) (g_clients s) /\ Forall res_ok (g_tasks s) /\
  entries_ok (length (g_tasks s)) (g_core s).

Lemma pc_ok_mono : forall n m cl, (n <= m)%nat -> pc_ok n cl -> pc_ok m cl.
Proof.
  intros n m cl Hle H. unfold pc_ok in *. destruct (nth_error (c_ops cl) (c_idx cl)) as [o|]; [|exact I].
  destruct o, (c_pc cl); auto; lia.
Qed.

Lemma pc_ok_next : forall n cl, pc_ok n (ret_next cl).
Proof.
  intros n cl. unfold pc_ok, ret_next. cbn [c_ops c_idx c_pc].
  destruct (nth_error (c_ops cl) (S (c_idx cl))) as [o|]; [|exact I]. destruct o; exact I.
Qed.

Lemma Forall_set_nth : forall A (P : A -> Prop) l i y, Forall P l -> P y -> Forall P (set_nth i y l).
Proof.
  induction l as [|a l IH]; intros i y Hl Hy; destruct i; simpl; auto; inversion Hl; subst; constructor; auto.
Qed.

Lemma length_set_nth : forall A (l : list A) i y, length (set_nth i y l) = length l.
Proof. induction l as [|a l IH]; intros i y; destruct i; simpl; auto. Qed.

Lemma Forall_mono_pc : forall n m l, (n <= m)%nat -> Forall (pc_ok n) l -> Forall (pc_ok m) l.
Proof. intros n m l Hle H. eapply Forall_impl; [|exact H]. intros a. apply pc_ok_mono. exact Hle. Qed.

(* association lists *)
Lemma lookup_Forall : forall A (P : Z * A -> Prop) l k v, Forall P l -> lookup k l = Some v -> exists k', P (k', v).
Proof.
  induction l as [|[k' v'] l IH]; intros k v Hf H; simpl in H; [discriminate|].
  inversion Hf; subst. destruct (k =? k'); [inversion H; subst; eauto | eauto].
Qed.

Lemma Forall_aset : forall A (P : Z * A -> Prop) l k v, Forall P l -> P (k, v) -> Forall P (aset k v l).
Proof.
  induction l as [|[k' v'] l IH]; intros k v Hf Hp; simpl; [constructor; auto|].
  inversion Hf; subst. destruct (k <? k'); [constructor; auto|]. destruct (k =? k'); constructor; auto.
Qed.

Lemma Forall_adel : forall A (P : Z * A -> Prop) l k, Forall P l -> Forall P (adel k l).
Proof.
  induction l as [|[k' v'] l IH]; intros k Hf; simpl; [constructor|].
  inversion Hf; subst. destruct (k =? k'); [assumption | constructor; auto].
Qed.

Lemma entries_ok_mono : forall n m c, (n <= m)%nat -> entries_ok n c -> entries_ok m c.
Proof. intros n m c Hle H. unfold entries_ok in *. eapply Forall_impl; [|exact H]. simpl. intros a Ha. lia. Qed.

Lemma entries_ok_lookup : forall n c f e, entries_ok n c -> lookup f (futs c) = Some e -> (e_fut e < n)%nat.
Proof. intros n c f e H Hl. destruct (lookup_Forall _ _ _ _ _ H Hl) as [k' Hk]. exact Hk. Qed.

Lemma entries_ok_unload : forall n f c, entries_ok n c -> entries_ok n (unload_core f c).
Proof.
  intros n f c H. unfold unload_core. destruct (lookup f (futs c)); [|exact H].
  unfold entries_ok. simpl. apply Forall_adel. exact H.
Qed.

Lemma recover_loop_entries : forall n mx claim h c wr c1 rest wr1 ke,
  entries_ok n c -> recover_loop mx claim h c wr = (c1, rest, wr1, ke) -> entries_ok n c1.
Proof.
  induction h as [|f h IH]; intros c wr c1 rest wr1 ke Hc H; simpl in H.
  - inversion H; subst. exact Hc.
  - destruct (mem c + claim >? mx); [|inversion H; subst; exact Hc].
    destruct (lookup f (futs c)) as [e|]; [|inversion H; subst; exact Hc].
    destruct (e_w e).
    + eapply IH; [exact Hc | exact H].
    + eapply IH; [apply entries_ok_unload; exact Hc | exact H].
Qed.

Lemma ufm_entries : forall n fl mx f mu c c' r, entries_ok n c -> ufm fl mx f mu c = (c', r) -> entries_ok n c'.
Proof.
  intros n fl mx f mu c c' r Hc H. unfold ufm in H.
  destruct ((mu >? mx) && negb (fl_oversize_uncached fl)); [inversion H; subst; exact Hc|].
  assert (H1 : forall c1 rest wr ke,
             (if mu >? mx then (c, heap c, [], false) else recover_loop mx mu (heap c) c []) = (c1, rest, wr, ke) ->
             entries_ok n c1).
  { intros c1 rest wr ke E. destruct (mu >? mx); [inversion E; subst; exact Hc|].
    eapply recover_loop_entries; eauto. }
  destruct (if mu >? mx then (c, heap c, [], false) else recover_loop mx mu (heap c) c []) as [[[c1 rest] wr] ke] eqn:Er.
  specialize (H1 _ _ _ _ eq_refl).
  destruct ke; [inversion H; subst; exact H1|].
  destruct (lookup f (futs c1)) as [e|] eqn:El; [|inversion H; subst; exact H1].
  pose proof (entries_ok_lookup _ _ _ _ H1 El) as He.
  destruct (negb (mu >? mx) && (mem c1 + mu <=? mx)); inversion H; subst; unfold entries_ok; simpl.
  - apply Forall_aset; [exact H1 | simpl; exact He].
  - apply Forall_adel. exact H1.
Qed.

Lemma res_ok_new : forall ts k f d p, p <> T4 -> p <> TEnd -> p <> TDrop -> Forall res_ok ts -> Forall res_ok (ts ++ [mkTask k f d p None]).
Proof.
  intros ts k f d p H4 HE HD H. apply Forall_app. split; [exact H|]. apply Forall_cons; [|apply Forall_nil].
  unfold res_ok. simpl. destruct p; try exact I; congruence.
Qed.

Lemma client_step_J : forall fl mx s t cl s',
  J s -> nth_error (g_clients s) t = Some cl -> client_step fl mx s t cl = Some s' -> J s'.
Proof.
  intros fl mx s t cl s' (Hc & Ht & He) Hn H. unfold client_step, upd_lock, busy_entry in H.
  destruct (nth_error (c_ops cl) (c_idx cl)) as [o|] eqn:Eo; [|discriminate].
  assert (Hsame : forall n p,
            match o, p with
            | OGet _, CWait f _ => (f < n)%nat
            | OGet _, (CRetry _ | CAgain) => False
            | OGet _, _ => True
            | OUpd _ _, CStart => True
            | OUpd _ _, CAgain => True
            | OUpd _ _, CWait f _ => (f < n)%nat
            | OUpd _ _, CRetry f => (f < n)%nat
            | OUnl _, CStart => True
            | _, _ => False
            end -> pc_ok n (mkClient (c_ops cl) (c_idx cl) p)).
  { intros n p. unfold pc_ok. cbn [c_ops c_idx c_pc]. rewrite Eo. tauto. }
  pose proof (fun f e => entries_ok_lookup _ _ f e He) as Hent.
  pose proof (entries_ok_unload _ (op_file o) _ He) as Hun.
  repeat break_match; try discriminate; inversion H; subst; clear H; unfold J; simpl g_clients; simpl g_tasks; simpl g_core;
    rewrite ?app_length; simpl length; (split; [|split]).
  all: try (first [ exact Ht | apply res_ok_new; [discriminate | discriminate | discriminate | exact Ht] ]).
  all: try (apply Forall_set_nth;
       [ eapply Forall_mono_pc; [|exact Hc]; lia
       | first [ apply pc_ok_next
               | apply Hsame; simpl; auto; try lia;
                 match goal with Hl : lookup _ _ = Some ?e |- (e_fut ?e < _)%nat => pose proof (Hent _ _ Hl); lia end ] ]).
  all: try (first [ exact He
               | eapply entries_ok_mono; [|exact He]; lia
               | unfold entries_ok; simpl futs; apply Forall_aset;
                 [ first [ eapply entries_ok_mono; [|exact He]; lia
                         | eapply entries_ok_mono; [|exact Hun]; lia ]
                 | simpl; lia ]
               | simpl op_file in Hun; unfold entries_ok in *; simpl futs in *; exact Hun ]).
  all: apply entries_ok_unload; unfold entries_ok; simpl futs; exact He.
Qed.

Lemma task_step_J_res : forall fl mx c k c' k', task_step fl mx c k = Some (c', k') -> res_ok k -> res_ok k'.
Proof.
  intros fl mx c k c' k' H Hr. unfold task_step, fail_to in H. unfold res_ok in *.
  repeat break_match; try discriminate; inversion H; subst; simpl in *; auto; try discriminate.
Qed.

Lemma task_step_J_entries : forall n fl mx c k c' k', task_step fl mx c k = Some (c', k') -> entries_ok n c -> entries_ok n c'.
Proof.
  intros n fl mx c k c' k' H He. unfold task_step in H.
  destruct (k_pc k); try discriminate.
  - destruct (k_kind k).
    + destruct (lookup (k_file k) (disk c)); inversion H; subst; exact He.
    + inversion H; subst. exact He.
  - destruct (k_kind k); inversion H; subst; exact He.
  - destruct (ufm fl mx (k_file k) (zlen (k_data k)) c) as [c1 [e|]] eqn:Eu; inversion H; subst;
      eapply ufm_entries; eauto.
  - inversion H; subst. exact He.
  - destruct (fl_mkdir_exist_ok fl); [inversion H; subst; exact He|].
    destruct (dir_exists (disk c)); inversion H; subst; exact He.
  - inversion H; subst. exact He.
  - inversion H; subst. unfold entries_ok. simpl. apply Forall_adel. exact He.
Qed.

Lemma nth_error_Forall : forall A (P : A -> Prop) l i x, Forall P l -> nth_error l i = Some x -> P x.
Proof. intros A P l i x Hf Hn. rewrite Forall_forall in Hf. apply Hf. eapply nth_error_In; eauto. Qed.

Theorem step_J : forall fl mx s t s', J s -> step fl mx s t = Some s' -> J s'.
Proof.
  intros fl mx s t s' HJ H. unfold step in H.
  destruct (t <? length (g_clients s))%nat.
  - destruct (nth_error (g_clients s) t) as [cl|] eqn:En; [|discriminate].
    eapply client_step_J; eauto.
  - destruct (nth_error (g_tasks s) (t - length (g_clients s))) as [k|] eqn:En; [|discriminate].
    destruct (task_step fl mx (g_core s) k) as [[c' k']|] eqn:Et; [|discriminate].
    inversion H; subst; clear H. destruct HJ as (Hc & Ht & He). unfold J. simpl.
    rewrite length_set_nth. split; [exact Hc | split].
    + apply Forall_set_nth; [exact Ht|].
      eapply task_step_J_res; [exact Et|]. eapply nth_error_Forall; eauto.
    + eapply task_step_J_entries; eauto.
Qed.

Lemma init_J : forall cf, J (init cf).
Proof.
  intros cf. unfold J, init. simpl. split; [|split; [constructor | constructor]].
  apply Forall_forall. intros cl Hin. apply in_map_iff in Hin. destruct Hin as (p & <- & _).
  unfold pc_ok. simpl. destruct p as [|o p']; [exact I|]. destruct o; exact I.
Qed.

Theorem reach_J : forall fl cf s, reach fl cf s -> J s.
Proof. induction 1; [apply init_J | eapply step_J; eauto]. Qed.

(* ---- progress *)
Lemma filter_nil : forall A (f : A -> bool) l, filter f l = [] -> forall x, In x l -> f x = false.
Proof.
  induction l as [|a l IH]; intros H x Hin; simpl in *; [contradiction|].
  destruct (f a) eqn:Ea; [discriminate|]. destruct Hin as [<-|Hin]; auto.
Qed.

Lemma task_step_enabled : forall fl mx c k, task_finished k = false -> task_step fl mx c k <> None.
Proof.
  intros fl mx c k H. unfold task_finished in H. unfold task_step.
  destruct (k_pc k); try discriminate;
    repeat (match goal with |- context [match ?x with _ => _ end] => destruct x end); discriminate.
Qed.

Lemma client_step_enabled : forall fl mx s t cl,
  pc_ok (length (g_tasks s)) cl -> Forall res_ok (g_tasks s) -> forallb task_finished (g_tasks s) = true ->
  client_finished cl = false -> client_step fl mx s t cl <> None.
Proof.
  intros fl mx s t cl Hp Hr Hfin Hnf. unfold client_finished in Hnf. apply Nat.leb_gt in Hnf.
  destruct (nth_error (c_ops cl) (c_idx cl)) as [o|] eqn:Eo; [|apply nth_error_None in Eo; lia].
  unfold pc_ok in Hp. rewrite Eo in Hp. unfold client_step. rewrite Eo.
  assert (Hw : forall f, (f < length (g_tasks s))%nat ->
           exists k r, nth_error (g_tasks s) f = Some k /\ k_pc k = TEnd /\ k_res k = Some r).
  { intros f Hf. destruct (nth_error (g_tasks s) f) as [k|] eqn:Ek; [|apply nth_error_None in Ek; lia].
    pose proof (nth_error_Forall _ _ _ _ _ Hr Ek) as Hk.
    rewrite forallb_forall in Hfin. pose proof (Hfin k (nth_error_In _ _ Ek)) as Hf2.
    unfold task_finished in Hf2. unfold res_ok in Hk. destruct (k_pc k) eqn:Epc; try discriminate.
    destruct (k_res k) as [r|] eqn:Er; [|congruence]. exists k, r. auto. }
  destruct o as [f|f d|f]; destruct (c_pc cl) as [| |claim|fut ap|fut|] eqn:Epc; try contradiction;
    unfold upd_lock, busy_entry.
  all: try (destruct (Hw _ Hp) as (k & r & Ek & Epk & Erk); destruct k as [kk kf kd kp kr]; simpl in Epk, Erk; subst kp kr;
            assert (Hd : task_done (g_tasks s) fut = true) by (unfold task_done; rewrite Ek; reflexivity);
            try rewrite Ek; try rewrite Hd).
  all: repeat (match goal with |- context [match ?x with _ => _ end] => destruct x eqn:? end; simpl); try discriminate.
  all: rewrite andb_false_r in *; discriminate.
Qed.

Theorem no_deadlock : forall fl cf s,
  reach fl cf s -> enabled fl (cfg_max cf) s = [] -> quiescent s = true.
Proof.
  intros fl cf s Hr He. pose proof (reach_J _ _ _ Hr) as (Hc & Ht & _).
  pose proof (filter_nil _ _ _ He) as Hno. unfold quiescent.
  assert (Htasks : forallb task_finished (g_tasks s) = true).
  { apply forallb_forall. intros k Hin. destruct (task_finished k) eqn:Ef; [reflexivity|exfalso].
    apply In_nth_error in Hin. destruct Hin as [i Hi].
    assert (Hlt : (i < length (g_tasks s))%nat) by (apply nth_error_Some; congruence).
    specialize (Hno (length (g_clients s) + i)%nat).
    assert (Hin : In (length (g_clients s) + i)%nat (seq 0 (ntids s))) by (apply in_seq; unfold ntids; lia).
    specialize (Hno Hin). unfold step in Hno.
    replace (length (g_clients s) + i <? length (g_clients s))%nat with false in Hno by (symmetry; apply Nat.ltb_ge; lia).
    replace (length (g_clients s) + i - length (g_clients s))%nat with i in Hno by lia.
    rewrite Hi in Hno. pose proof (task_step_enabled fl (cfg_max cf) (g_core s) k Ef) as Hen.
    destruct (task_step fl (cfg_max cf) (g_core s) k) as [[c' k']|]; [discriminate | congruence]. }
  rewrite Htasks, andb_true_r. unfold all_returned.
  apply forallb_forall. intros cl Hin. destruct (client_finished cl) eqn:Ef; [reflexivity|exfalso].
  apply In_nth_error in Hin. destruct Hin as [i Hi].
  assert (Hlt : (i < length (g_clients s))%nat) by (apply nth_error_Some; congruence).
  specialize (Hno i). assert (Hin : In i (seq 0 (ntids s))) by (apply in_seq; unfold ntids; lia).
  specialize (Hno Hin). unfold step in Hno.
  replace (i <? length (g_clients s))%nat with true in Hno by (symmetry; apply Nat.ltb_lt; lia).
  rewrite Hi in Hno.
  pose proof (client_step_enabled fl (cfg_max cf) s i cl (nth_error_Forall _ _ _ _ _ Hc Hi) Ht Htasks Ef) as Hen.
  destruct (client_step fl (cfg_max cf) s i cl); [discriminate | congruence].
Qed.

(* every maximal run of every configuration is finite and ends with every call returned *)
Theorem every_call_returns : forall fl cf s, reach fl cf s ->
  (forall t s', step fl (cfg_max cf) s t = Some s' -> (weight s' < weight s)%nat) /\
  (enabled fl (cfg_max cf) s = [] -> quiescent s = true).
Proof.
  intros fl cf s Hr. split.
  - intros t s'. apply step_decreases_weight.
  - apply no_deadlock. exact Hr.
Qed.

(* ---------------------------------------------------------------- with the busy guard the class K is empty
   (no client ever unloads an entry whose task has not yet run its locked block), for ANY configuration and schedule *)
Lemma done_not_inflight : forall ts e, task_done ts (e_fut e) = true -> inflight ts e = false.
Proof.
  intros ts e H. unfold task_done in H. unfold inflight.
  destruct (nth_error ts (e_fut e)) as [k|]; [|reflexivity]. destruct (k_pc k); try discriminate; reflexivity.
Qed.

Lemma client_step_k : forall fl mx s t cl s',
  fl_busy_guard fl = true -> client_step fl mx s t cl = Some s' -> g_k s = 0 -> g_k s' = 0.
Proof.
  intros fl mx s t cl s' Hg H Hk. unfold client_step, upd_lock, busy_entry in H. rewrite Hg in H.
  repeat break_match; try discriminate; inversion H; subst; clear H; simpl; try exact Hk.
  all: exfalso;
       try (repeat match goal with
              | Hw : e_w ?e = _ |- _ => rewrite Hw in *; clear Hw
              end; simpl in *;
       match goal with
       | Hb : negb (task_done ?ts (e_fut ?e)) = false, Hi : inflight ?ts ?e = true |- _ =>
           apply negb_false_iff in Hb; rewrite (done_not_inflight _ _ Hb) in Hi; discriminate
       | Hb : _ && negb (task_done ?ts (e_fut ?e)) = false, Hi : inflight ?ts ?e = true |- _ =>
           simpl in Hb; apply negb_false_iff in Hb; rewrite (done_not_inflight _ _ Hb) in Hi; discriminate
       end).
  all: match goal with
       | Hn : negb (e_w ?e) = true, Hb : true && ((false || negb (e_w ?e)) && negb (task_done ?ts (e_fut ?e))) = false,
         Hi : inflight ?ts ?e = true |- _ =>
           rewrite Hn in Hb; simpl in Hb; apply negb_false_iff in Hb;
           rewrite (done_not_inflight _ _ Hb) in Hi; discriminate
       end.
Qed.

Theorem guard_excludes_K : forall fl cf s, fl_busy_guard fl = true -> reach fl cf s -> g_k s = 0.
Proof.
  intros fl cf s Hg Hr. induction Hr as [|s t s' Hr IH Hst]; [reflexivity|].
  unfold step in Hst. destruct (t <? length (g_clients s))%nat.
  - destruct (nth_error (g_clients s) t) as [cl|]; [|discriminate]. eapply client_step_k; eauto.
  - destruct (nth_error (g_tasks s) (t - length (g_clients s))) as [k|]; [|discriminate].
    destruct (task_step fl (cfg_max cf) (g_core s) k) as [[c' k']|]; [|discriminate].
    inversion Hst; subst. simpl. exact IH.
Qed.
