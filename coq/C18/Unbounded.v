(* C18/Unbounded.v — "every call returns", for ANY configuration (any number of client threads,
   operations, files, contents, any flags, any max_memory) and ANY schedule:
     * every step strictly decreases `weight` (so every run is finite), and
     * a reachable state in which no thread can move is quiescent: every call has returned and every
       task has finished (no deadlock).
   Proved by induction over the step relation; no finite bound anywhere. *)
From Coq Require Import ZArith List Bool Lia.
From C18 Require Import Model Generated Spec.
Import ListNotations.
Open Scope Z_scope.

(* ---------------------------------------------------------------- sums over lists *)
Definition sumw {A} (f : A -> nat) (l : list A) : nat := fold_right (fun x a => (f x + a)%nat) 0%nat l.

Lemma sumw_app : forall A (f : A -> nat) l1 l2, sumw f (l1 ++ l2) = (sumw f l1 + sumw f l2)%nat.
Proof. induction l1 as [|x l IH]; intros l2; simpl; [reflexivity | rewrite IH; lia]. Qed.

Lemma sumw_set_nth : forall A (f : A -> nat) l i x y, nth_error l i = Some x ->
  (sumw f (set_nth i y l) + f x = sumw f l + f y)%nat.
Proof.
  induction l as [|a l IH]; intros i x y H; destruct i; simpl in *; try discriminate.
  - inversion H; subst. lia.
  - specialize (IH _ _ y H). lia.
Qed.

Lemma weight_eq : forall s, weight s = (sumw client_weight (g_clients s) + sumw (fun k => tpc_weight (k_pc k)) (g_tasks s))%nat.
Proof. reflexivity. Qed.

Lemma skipn_nth : forall A (l : list A) i o, nth_error l i = Some o -> skipn i l = o :: skipn (S i) l.
Proof.
  induction l as [|a l IH]; intros i o H; destruct i; simpl in *; try discriminate.
  - inversion H; reflexivity.
  - apply IH. exact H.
Qed.

Definition rest_weight (cl : client) : nat := sumw op_weight (skipn (S (c_idx cl)) (c_ops cl)).

Lemma client_weight_cur : forall cl o, nth_error (c_ops cl) (c_idx cl) = Some o ->
  client_weight cl = (cur_weight o (c_pc cl) + rest_weight cl)%nat.
Proof. intros cl o H. unfold client_weight, rest_weight. rewrite (skipn_nth _ _ _ _ H). reflexivity. Qed.

Lemma client_weight_same : forall cl o p, nth_error (c_ops cl) (c_idx cl) = Some o ->
  client_weight (mkClient (c_ops cl) (c_idx cl) p) = (cur_weight o p + rest_weight cl)%nat.
Proof. intros cl o p H. unfold client_weight, rest_weight. cbn [c_ops c_idx c_pc]. rewrite (skipn_nth _ _ _ _ H). reflexivity. Qed.

Lemma cur_weight_start : forall o, cur_weight o CStart = op_weight o.
Proof. destruct o; reflexivity. Qed.

Lemma client_weight_next : forall cl, client_weight (ret_next cl) = rest_weight cl.
Proof.
  intros cl. unfold client_weight, ret_next, rest_weight. cbn [c_ops c_idx c_pc].
  destruct (skipn (S (c_idx cl)) (c_ops cl)) as [|o r]; [reflexivity|].
  rewrite cur_weight_start. reflexivity.
Qed.

Lemma cur_weight_pos : forall o p, (1 <= cur_weight o p)%nat.
Proof. destruct o, p; simpl; lia. Qed.

(* ---------------------------------------------------------------- every step decreases weight *)
Ltac break_match :=
  match goal with
  | H : context [match ?x with _ => _ end] |- _ => destruct x eqn:?
  end.

Lemma client_step_weight : forall fl mx s t cl s',
  nth_error (g_clients s) t = Some cl -> client_step fl mx s t cl = Some s' -> (weight s' < weight s)%nat.
Proof.
  intros fl mx s t cl s' Hn H. unfold client_step in H.
  destruct (nth_error (c_ops cl) (c_idx cl)) as [o|] eqn:Eo; [|discriminate].
  pose proof (client_weight_cur _ _ Eo) as Hc.
  pose proof (client_weight_next cl) as Hnx.
  pose proof (fun p => client_weight_same cl o p Eo) as Hs.
  repeat break_match; try discriminate; inversion H; subst; clear H;
    rewrite !weight_eq; simpl g_clients; simpl g_tasks;
    match goal with
    | |- context [set_nth t ?c (g_clients s)] =>
        pose proof (sumw_set_nth _ client_weight _ _ _ c Hn) as Hsum
    end;
    rewrite ?sumw_app; simpl sumw; simpl tpc_weight;
    rewrite ?Hnx, ?Hs in Hsum; rewrite Hc in Hsum; simpl cur_weight in Hsum; lia.
Qed.

Lemma task_step_weight : forall fl mx c k c' k', task_step fl mx c k = Some (c', k') ->
  (tpc_weight (k_pc k') < tpc_weight (k_pc k))%nat.
Proof.
  intros fl mx c k c' k' H. unfold task_step in H.
  repeat break_match; try discriminate; inversion H; subst; simpl; lia.
Qed.

Theorem step_decreases_weight : forall fl mx s t s', step fl mx s t = Some s' -> (weight s' < weight s)%nat.
Proof.
  intros fl mx s t s' H. unfold step in H.
  destruct (t <? length (g_clients s))%nat.
  - destruct (nth_error (g_clients s) t) as [cl|] eqn:En; [|discriminate].
    eapply client_step_weight; eauto.
  - destruct (nth_error (g_tasks s) (t - length (g_clients s))) as [k|] eqn:En; [|discriminate].
    destruct (task_step fl mx (g_core s) k) as [[c' k']|] eqn:Et; [|discriminate].
    inversion H; subst; clear H. rewrite !weight_eq. simpl g_clients. simpl g_tasks.
    pose proof (task_step_weight _ _ _ _ _ _ Et) as Hw.
    pose proof (sumw_set_nth _ (fun k => tpc_weight (k_pc k)) _ _ _ k' En) as Hsum. simpl in Hsum. lia.
Qed.

(* ---------------------------------------------------------------- no deadlock *)
Definition pc_ok (n : nat) (cl : client) : Prop :=
  match nth_error (c_ops cl) (c_idx cl) with
  | None => True
  | Some o =>
      match o, c_pc cl with
      | OGet _, CWait f _ => (f < n)%nat
      | OGet _, _ => True
      | OUpd _ _, CStart => True
      | OUpd _ _, CWait f _ => (f < n)%nat
      | OUnl _, CStart => True
      | _, _ => False
      end
  end.

Definition res_ok (k : task) : Prop :=
  match k_pc k with T4 | TEnd => k_res k <> None | _ => True end.

Definition entries_ok (n : nat) (c : core) : Prop := Forall (fun fe : file * entry => (e_fut (snd fe) < n)%nat) (futs c).

Definition J (s : gstate) : Prop :=
  Forall (pc_ok (length (g_tasks s))) (g_clients s) /\ Forall res_ok (g_tasks s) /\
  entries_ok (length (g_tasks s)) (g_core s).

Lemma pc_ok_mono : forall n m cl, (n <= m)%nat -> pc_ok n cl -> pc_ok m cl.
Proof.
  intros n m cl Hle H. unfold pc_ok in *. destruct (nth_error (c_ops cl) (c_idx cl)) as [o|]; [|exact I].
  destruct o, (c_pc cl); auto; lia.
Qed.

Lemma pc_ok_next : forall n cl, pc_ok n (ret_next cl).
Proof.
  intros n cl. unfold pc_ok, ret_next. cbn [c_ops c_idx c_pc].
  destruct (nth_error (c_ops cl) (S (c_idx cl))) as [o|]; [|exact I]. destruct o; exact I.
Qed.

Lemma Forall_set_nth : forall A (P : A -> Prop) l i y, Forall P l -> P y -> Forall P (set_nth i y l).
Proof.
  induction l as [|a l IH]; intros i y Hl Hy; destruct i; simpl; auto; inversion Hl; subst; constructor; auto.
Qed.

Lemma length_set_nth : forall A (l : list A) i y, length (set_nth i y l) = length l.
Proof. induction l as [|a l IH]; intros i y; destruct i; simpl; auto. Qed.

Lemma Forall_mono_pc : forall n m l, (n <= m)%nat -> Forall (pc_ok n) l -> Forall (pc_ok m) l.
Proof. intros n m l Hle H. eapply Forall_impl; [|exact H]. intros a. apply pc_ok_mono. exact Hle. Qed.

(* association lists *)
Lemma lookup_Forall : forall A (P : Z * A -> Prop) l k v, Forall P l -> lookup k l = Some v -> exists k', P (k', v).
Proof.
  induction l as [|[k' v'] l IH]; intros k v Hf H; simpl in H; [discriminate|].
  inversion Hf; subst. destruct (k =? k'); [inversion H; subst; eauto | eauto].
Qed.

Lemma Forall_aset : forall A (P : Z * A -> Prop) l k v, Forall P l -> P (k, v) -> Forall P (aset k v l).
Proof.
  induction l as [|[k' v'] l IH]; intros k v Hf Hp; simpl; [constructor; auto|].
  inversion Hf; subst. destruct (k <? k'); [constructor; auto|]. destruct (k =? k'); constructor; auto.
Qed.

Lemma Forall_adel : forall A (P : Z * A -> Prop) l k, Forall P l -> Forall P (adel k l).
Proof.
  induction l as [|[k' v'] l IH]; intros k Hf; simpl; [constructor|].
  inversion Hf; subst. destruct (k =? k'); [assumption | constructor; auto].
Qed.

Lemma entries_ok_mono : forall n m c, (n <= m)%nat -> entries_ok n c -> entries_ok m c.
Proof. intros n m c Hle H. unfold entries_ok in *. eapply Forall_impl; [|exact H]. simpl. intros a Ha. lia. Qed.

Lemma entries_ok_lookup : forall n c f e, entries_ok n c -> lookup f (futs c) = Some e -> (e_fut e < n)%nat.
Proof. intros n c f e H Hl. destruct (lookup_Forall _ _ _ _ _ H Hl) as [k' Hk]. exact Hk. Qed.

Lemma entries_ok_unload : forall n f c, entries_ok n c -> entries_ok n (unload_core f c).
Proof.
  intros n f c H. unfold unload_core. destruct (lookup f (futs c)); [|exact H].
  unfold entries_ok. simpl. apply Forall_adel. exact H.
Qed.

Lemma recover_loop_entries : forall n mx claim h c wr c1 rest wr1 ke,
  entries_ok n c -> recover_loop mx claim h c wr = (c1, rest, wr1, ke) -> entries_ok n c1.
Proof.
  induction h as [|f h IH]; intros c wr c1 rest wr1 ke Hc H; simpl in H.
  - inversion H; subst. exact Hc.
  - destruct (mem c + claim >? mx); [|inversion H; subst; exact Hc].
    destruct (lookup f (futs c)) as [e|]; [|inversion H; subst; exact Hc].
    destruct (e_w e).
    + eapply IH; [exact Hc | exact H].
    + eapply IH; [apply entries_ok_unload; exact Hc | exact H].
Qed.

Lemma ufm_entries : forall n fl mx f mu c c' r, entries_ok n c -> ufm fl mx f mu c = (c', r) -> entries_ok n c'.
Proof.
  intros n fl mx f mu c c' r Hc H. unfold ufm in H.
  destruct (mu >? mx); [inversion H; subst; exact Hc|].
  destruct (recover_loop mx mu (heap c) c []) as [[[c1 rest] wr] ke] eqn:Er.
  pose proof (recover_loop_entries _ _ _ _ _ _ _ _ _ _ Hc Er) as H1.
  destruct ke; [inversion H; subst; exact H1|].
  destruct (lookup f (futs c1)) as [e|] eqn:El; [|inversion H; subst; exact H1].
  pose proof (entries_ok_lookup _ _ _ _ H1 El) as He.
  destruct (mem c1 + mu <=? mx); inversion H; subst; unfold entries_ok; simpl.
  - apply Forall_aset; [exact H1 | simpl; exact He].
  - apply Forall_adel. exact H1.
Qed.

Lemma res_ok_new : forall ts k f d, Forall res_ok ts -> Forall res_ok (ts ++ [mkTask k f d T1 None]).
Proof. intros ts k f d H. apply Forall_app. split; [exact H|]. apply Forall_cons; [exact I | apply Forall_nil]. Qed.

Lemma client_step_J : forall fl mx s t cl s',
  J s -> nth_error (g_clients s) t = Some cl -> client_step fl mx s t cl = Some s' -> J s'.
Proof.
  intros fl mx s t cl s' (Hc & Ht & He) Hn H. unfold client_step in H.
  destruct (nth_error (c_ops cl) (c_idx cl)) as [o|] eqn:Eo; [|discriminate].
  assert (Hsame : forall n p,
            match o, p with
            | OGet _, CWait f _ => (f < n)%nat
            | OGet _, _ => True
            | OUpd _ _, CStart => True
            | OUpd _ _, CWait f _ => (f < n)%nat
            | OUnl _, CStart => True
            | _, _ => False
            end -> pc_ok n (mkClient (c_ops cl) (c_idx cl) p)).
  { intros n p. unfold pc_ok. cbn [c_ops c_idx c_pc]. rewrite Eo. tauto. }
  pose proof (fun f e => entries_ok_lookup _ _ f e He) as Hent.
  pose proof (entries_ok_unload _ (op_file o) _ He) as Hun.
  repeat break_match; try discriminate; inversion H; subst; clear H; unfold J; simpl g_clients; simpl g_tasks; simpl g_core;
    rewrite ?app_length; simpl length; (split; [|split]).
  all: try (first [ exact Ht | apply res_ok_new; exact Ht ]).
  all: try (apply Forall_set_nth;
       [ eapply Forall_mono_pc; [|exact Hc]; lia
       | first [ apply pc_ok_next
               | apply Hsame; simpl; auto; try lia;
                 match goal with Hl : lookup _ _ = Some ?e |- (e_fut ?e < _)%nat => pose proof (Hent _ _ Hl); lia end ] ]).
  all: try (first [ exact He
               | eapply entries_ok_mono; [|exact He]; lia
               | unfold entries_ok; simpl futs; apply Forall_aset;
                 [ first [ eapply entries_ok_mono; [|exact He]; lia
                         | eapply entries_ok_mono; [|exact Hun]; lia ]
                 | simpl; lia ]
               | simpl op_file in Hun; unfold entries_ok in *; simpl futs in *; exact Hun ]).
  all: apply entries_ok_unload; unfold entries_ok; simpl futs; exact He.
Qed.

Lemma task_step_J_res : forall fl mx c k c' k', task_step fl mx c k = Some (c', k') -> res_ok k -> res_ok k'.
Proof.
  intros fl mx c k c' k' H Hr. unfold task_step in H. unfold res_ok in *.
  repeat break_match; try discriminate; inversion H; subst; simpl in *; auto; try discriminate.
Qed.

Lemma task_step_J_entries : forall n fl mx c k c' k', task_step fl mx c k = Some (c', k') -> entries_ok n c -> entries_ok n c'.
Proof.
  intros n fl mx c k c' k' H He. unfold task_step in H.
  destruct (k_pc k); try discriminate.
  - destruct (k_kind k).
    + destruct (lookup (k_file k) (disk c)); inversion H; subst; exact He.
    + inversion H; subst. exact He.
  - destruct (k_kind k); inversion H; subst; exact He.
  - destruct (ufm fl mx (k_file k) (zlen (k_data k)) c) as [c1 [e|]] eqn:Eu; inversion H; subst;
      eapply ufm_entries; eauto.
  - inversion H; subst. exact He.
Qed.

Lemma nth_error_Forall : forall A (P : A -> Prop) l i x, Forall P l -> nth_error l i = Some x -> P x.
Proof. intros A P l i x Hf Hn. rewrite Forall_forall in Hf. apply Hf. eapply nth_error_In; eauto. Qed.

Theorem step_J : forall fl mx s t s', J s -> step fl mx s t = Some s' -> J s'.
Proof.
  intros fl mx s t s' HJ H. unfold step in H.
  destruct (t <? length (g_clients s))%nat.
  - destruct (nth_error (g_clients s) t) as [cl|] eqn:En; [|discriminate].
    eapply client_step_J; eauto.
  - destruct (nth_error (g_tasks s) (t - length (g_clients s))) as [k|] eqn:En; [|discriminate].
    destruct (task_step fl mx (g_core s) k) as [[c' k']|] eqn:Et; [|discriminate].
    inversion H; subst; clear H. destruct HJ as (Hc & Ht & He). unfold J. simpl.
    rewrite length_set_nth. split; [exact Hc | split].
    + apply Forall_set_nth; [exact Ht|].
      eapply task_step_J_res; [exact Et|]. eapply nth_error_Forall; eauto.
    + eapply task_step_J_entries; eauto.
Qed.

Lemma init_J : forall cf, J (init cf).
Proof.
  intros cf. unfold J, init. simpl. split; [|split; [constructor | constructor]].
  apply Forall_forall. intros cl Hin. apply in_map_iff in Hin. destruct Hin as (p & <- & _).
  unfold pc_ok. simpl. destruct p as [|o p']; [exact I|]. destruct o; exact I.
Qed.

Theorem reach_J : forall fl cf s, reach fl cf s -> J s.
Proof. induction 1; [apply init_J | eapply step_J; eauto]. Qed.

(* ---- progress *)
Lemma filter_nil : forall A (f : A -> bool) l, filter f l = [] -> forall x, In x l -> f x = false.
Proof.
  induction l as [|a l IH]; intros H x Hin; simpl in *; [contradiction|].
  destruct (f a) eqn:Ea; [discriminate|]. destruct Hin as [<-|Hin]; auto.
Qed.

Lemma task_step_enabled : forall fl mx c k, task_finished k = false -> task_step fl mx c k <> None.
Proof.
  intros fl mx c k H. unfold task_finished in H. unfold task_step.
  destruct (k_pc k); try discriminate;
    repeat (match goal with |- context [match ?x with _ => _ end] => destruct x end); discriminate.
Qed.

Lemma client_step_enabled : forall fl mx s t cl,
  pc_ok (length (g_tasks s)) cl -> Forall res_ok (g_tasks s) -> forallb task_finished (g_tasks s) = true ->
  client_finished cl = false -> client_step fl mx s t cl <> None.
Proof.
  intros fl mx s t cl Hp Hr Hfin Hnf. unfold client_finished in Hnf. apply Nat.leb_gt in Hnf.
  destruct (nth_error (c_ops cl) (c_idx cl)) as [o|] eqn:Eo; [|apply nth_error_None in Eo; lia].
  unfold pc_ok in Hp. rewrite Eo in Hp. unfold client_step. rewrite Eo.
  assert (Hw : forall f, (f < length (g_tasks s))%nat ->
           exists k r, nth_error (g_tasks s) f = Some k /\ k_pc k = TEnd /\ k_res k = Some r).
  { intros f Hf. destruct (nth_error (g_tasks s) f) as [k|] eqn:Ek; [|apply nth_error_None in Ek; lia].
    pose proof (nth_error_Forall _ _ _ _ _ Hr Ek) as Hk.
    rewrite forallb_forall in Hfin. pose proof (Hfin k (nth_error_In _ _ Ek)) as Hf2.
    unfold task_finished in Hf2. unfold res_ok in Hk. destruct (k_pc k) eqn:Epc; try discriminate.
    destruct (k_res k) as [r|] eqn:Er; [|congruence]. exists k, r. auto. }
  destruct o as [f|f d|f]; destruct (c_pc cl) as [| |claim|fut ap] eqn:Epc; try contradiction.
  - destruct (lookup f (disk (g_core s))); discriminate.
  - destruct (lookup f (disk (g_core s))); [destruct (zlen c >? mx)|]; discriminate.
  - destruct (lookup f (futs (g_core s))); discriminate.
  - destruct (Hw _ Hp) as (k & r & Ek & Epk & Erk). rewrite Ek.
    destruct k as [kk kf kd kp kr]. simpl in *. subst. destruct r; discriminate.
  - destruct (zlen d >? mx); [discriminate|].
    destruct (lookup f (futs (g_core s))) as [e|]; [destruct (e_w e)|]; simpl; discriminate.
  - destruct (Hw _ Hp) as (k & r & Ek & Epk & Erk). rewrite Ek.
    destruct k as [kk kf kd kp kr]. simpl in *. subst. destruct r; discriminate.
  - discriminate.
Qed.

Theorem no_deadlock : forall fl cf s,
  reach fl cf s -> enabled fl (cfg_max cf) s = [] -> quiescent s = true.
Proof.
  intros fl cf s Hr He. pose proof (reach_J _ _ _ Hr) as (Hc & Ht & _).
  pose proof (filter_nil _ _ _ He) as Hno. unfold quiescent.
  assert (Htasks : forallb task_finished (g_tasks s) = true).
  { apply forallb_forall. intros k Hin. destruct (task_finished k) eqn:Ef; [reflexivity|exfalso].
    apply In_nth_error in Hin. destruct Hin as [i Hi].
    assert (Hlt : (i < length (g_tasks s))%nat) by (apply nth_error_Some; congruence).
    specialize (Hno (length (g_clients s) + i)%nat).
    assert (Hin : In (length (g_clients s) + i)%nat (seq 0 (ntids s))) by (apply in_seq; unfold ntids; lia).
    specialize (Hno Hin). unfold step in Hno.
    replace (length (g_clients s) + i <? length (g_clients s))%nat with false in Hno by (symmetry; apply Nat.ltb_ge; lia).
    replace (length (g_clients s) + i - length (g_clients s))%nat with i in Hno by lia.
    rewrite Hi in Hno. pose proof (task_step_enabled fl (cfg_max cf) (g_core s) k Ef) as Hen.
    destruct (task_step fl (cfg_max cf) (g_core s) k) as [[c' k']|]; [discriminate | congruence]. }
  rewrite Htasks, andb_true_r. unfold all_returned.
  apply forallb_forall. intros cl Hin. destruct (client_finished cl) eqn:Ef; [reflexivity|exfalso].
  apply In_nth_error in Hin. destruct Hin as [i Hi].
  assert (Hlt : (i < length (g_clients s))%nat) by (apply nth_error_Some; congruence).
  specialize (Hno i). assert (Hin : In i (seq 0 (ntids s))) by (apply in_seq; unfold ntids; lia).
  specialize (Hno Hin). unfold step in Hno.
  replace (i <? length (g_clients s))%nat with true in Hno by (symmetry; apply Nat.ltb_lt; lia).
  rewrite Hi in Hno.
  pose proof (client_step_enabled fl (cfg_max cf) s i cl (nth_error_Forall _ _ _ _ _ Hc Hi) Ht Htasks Ef) as Hen.
  destruct (client_step fl (cfg_max cf) s i cl); [discriminate | congruence].
Qed.

(* every maximal run of every configuration is finite and ends with every call returned *)
Theorem every_call_returns : forall fl cf s, reach fl cf s ->
  (forall t s', step fl (cfg_max cf) s t = Some s' -> (weight s' < weight s)%nat) /\
  (enabled fl (cfg_max cf) s = [] -> quiescent s = true).
Proof.
  intros fl cf s Hr. split.
  - intros t s'. apply step_decreases_weight.
  - apply no_deadlock. exact Hr.
Qed.
