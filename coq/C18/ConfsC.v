(* C18/ConfsC.v — reflective check of the chunk U22b (see Spec.v) *)
From Coq Require Import ZArith List Bool.
From C18 Require Import Model Generated Spec Proofs.
Lemma u22b_ok : check_universe gen_flags U22b FUEL = true.
Proof. vm_cast_no_check (eq_refl true). Qed.
