(* C18/Run.v — S-expression front end of the model, extracted to OCaml.
   cfg   = (cfg MAX ((f (b b ..)) ..) ((op ..) ..))        op = (get f) | (upd f (b ..)) | (unl f)
   requests:
     (run cfg (t t ..))        -> (ok (steps (st (en t ..) tid SNAP) ..) (en t ..) (hist EV ..) (lin b) (agree b) (k z) (quiescent b) (stuck i|-1))
     (lin REGS (EV ..) REGS)   -> 0 | 1            the verified checker on an observed history
     (explore cfg FUEL)        -> (states n (notok a) (notokstrict b) (quiescent q) (kstates k)) | (outoffuel)
     (witness NAME)            -> (w cfg (t ..))   the schedules of the _refuted theorems
   SNAP  = (snap MEM (futs (f w size fut) ..) (heap f ..) (disk (f (b ..)) ..) (tasks (pc RES) ..))
   EV    = (call t i OP) | (ret t i R)     R = (cont (b ..)) | (bool b) | (none) | (exn name) *)
From Coq Require Import ZArith List String FMapPositive.
From KB Require Import Sx.
From C18 Require Import Model Generated Spec.
Import ListNotations.
Open Scope Z_scope.

Definition sx_file_content (x : sx) : option (file * content) :=
  match x with
  | SL [SZ f; SL b] => match sx_get_zs b with Some c => Some (f, c) | None => None end
  | _ => None
  end.

Fixpoint sx_map_opt {A} (f : sx -> option A) (l : list sx) : option (list A) :=
  match l with
  | [] => Some []
  | x :: r => match f x, sx_map_opt f r with Some a, Some b => Some (a :: b) | _, _ => None end
  end.

Definition sx_op (x : sx) : option op :=
  match x with
  | SL [SS t; SZ f] => if is_tag "get" t then Some (OGet f) else if is_tag "unl" t then Some (OUnl f) else None
  | SL [SS t; SZ f; SL b] =>
      if is_tag "upd" t then match sx_get_zs b with Some c => Some (OUpd f c) | None => None end else None
  | _ => None
  end.

Definition sx_prog (x : sx) : option (list op) :=
  match x with SL l => sx_map_opt sx_op l | _ => None end.

Definition sx_regs (x : sx) : option regs :=
  match x with SL l => sx_map_opt sx_file_content l | _ => None end.

Definition sx_cfg (x : sx) : option config :=
  match x with
  | SL [SS t; SZ mx; d; SL progs] =>
      if is_tag "cfg" t then
        match sx_regs d, sx_map_opt sx_prog progs with
        | Some dk, Some ps => Some (mkCfg mx dk ps)
        | _, _ => None
        end
      else None
  | _ => None
  end.

Definition sx_nats (x : sx) : option (list nat) :=
  match x with SL l => option_map (map Z.to_nat) (sx_get_zs l) | _ => None end.

(* printing *)
Definition p_nat (n : nat) : sx := SZ (Z.of_nat n).
Definition p_exn (e : exn) : sx :=
  match e with EAssert => sx_w "AssertionError" | EKey => sx_w "KeyError" | ENotFound => sx_w "FileNotFoundError" | EMemory => sx_w "MemoryError" | EExists => sx_w "FileExistsError" end.
Definition p_outcome (o : option outcome) : sx :=
  match o with
  | None => sx_w "none"
  | Some (OkC c) => SL [sx_w "ok"; sx_zs c]
  | Some (Exn e) => SL [sx_w "exn"; p_exn e]
  end.
Definition p_regs (r : regs) : sx := SL (map (fun fc => SL [SZ (fst fc); sx_zs (snd fc)]) r).
Definition p_snap (s : gstate) : sx :=
  let c := g_core s in
  SL [sx_w "snap"; SZ (mem c);
      SL (sx_w "futs" :: map (fun fe => SL [SZ (fst fe); sx_bool (e_w (snd fe)); SZ (e_size (snd fe)); p_nat (e_fut (snd fe))]) (futs c));
      SL (sx_w "heap" :: map SZ (heap c));
      SL (sx_w "disk" :: map (fun fc => SL [SZ (fst fc); sx_zs (snd fc)]) (disk c));
      SL (sx_w "tasks" :: map (fun k => SL [SZ (tpc_code (k_pc k)); p_outcome (match k_pc k with TEnd => k_res k | _ => None end)]) (g_tasks s))].
Definition p_op (o : op) : sx :=
  match o with
  | OGet f => SL [sx_w "get"; SZ f]
  | OUpd f c => SL [sx_w "upd"; SZ f; sx_zs c]
  | OUnl f => SL [sx_w "unl"; SZ f]
  end.
Definition p_result (r : result) : sx :=
  match r with
  | RCont c => SL [sx_w "cont"; sx_zs c]
  | RBool b => SL [sx_w "bool"; sx_bool b]
  | RNone => SL [sx_w "none"]
  | RExn e => SL [sx_w "exn"; p_exn e]
  end.
Definition p_event (e : event) : sx :=
  match e with
  | ECall t i o => SL [sx_w "call"; p_nat t; p_nat i; p_op o]
  | ERet t i r => SL [sx_w "ret"; p_nat t; p_nat i; p_result r]
  end.

Definition sx_exn (w : list Z) : option exn :=
  if is_tag "AssertionError" w then Some EAssert else if is_tag "KeyError" w then Some EKey
  else if is_tag "FileNotFoundError" w then Some ENotFound else if is_tag "MemoryError" w then Some EMemory else if is_tag "FileExistsError" w then Some EExists else None.

Definition sx_result (x : sx) : option result :=
  match x with
  | SL [SS t] => if is_tag "none" t then Some RNone else None
  | SL [SS t; SZ b] => if is_tag "bool" t then Some (RBool (negb (b =? 0))) else None
  | SL [SS t; SL b] => if is_tag "cont" t then option_map RCont (sx_get_zs b) else None
  | SL [SS t; SS e] => if is_tag "exn" t then option_map RExn (sx_exn e) else None
  | _ => None
  end.

Definition sx_event (x : sx) : option event :=
  match x with
  | SL [SS k; SZ t; SZ i; y] =>
      if is_tag "call" k then option_map (ECall (Z.to_nat t) (Z.to_nat i)) (sx_op y)
      else if is_tag "ret" k then option_map (ERet (Z.to_nat t) (Z.to_nat i)) (sx_result y)
      else None
  | _ => None
  end.

Definition p_en (fl : flags) (mx : Z) (s : gstate) : sx := SL (sx_w "en" :: map p_nat (enabled fl mx s)).

Fixpoint run_trace (fl : flags) (mx : Z) (s : gstate) (sch : list nat) (i : Z) (acc : list sx) : gstate * list sx * Z :=
  match sch with
  | [] => (s, rev acc, -1)
  | t :: r =>
      match step fl mx s t with
      | Some s' => run_trace fl mx s' r (i + 1) (SL [sx_w "st"; p_en fl mx s; p_nat t; p_snap s'] :: acc)
      | None => (s, rev acc, i)
      end
  end.

Definition count_if {A} (f : A -> bool) (l : list A) : Z := zlen (filter f l).

Definition p_cfg (cf : config) : sx :=
  SL [sx_w "cfg"; SZ (cfg_max cf); p_regs (cfg_disk cf); SL (map (fun p => SL (map p_op p)) (cfg_progs cf))].

Definition dispatch (x : sx) : sx :=
  match x with
  | SL [SS t; c; sch] =>
      if is_tag "run" t then
        match sx_cfg c, sx_nats sch with
        | Some cf, Some sc =>
            let '(s, steps, stuck) := run_trace gen_flags (cfg_max cf) (init cf) sc 0 [] in
            SL [sx_w "ok"; SL (sx_w "steps" :: steps); p_en gen_flags (cfg_max cf) s;
                SL (sx_w "hist" :: map p_event (rev (g_hist s)));
                SL [sx_w "lin"; sx_bool (linearizable (real_files (cfg_disk cf)) (rev (g_hist s)) (real_files (disk (g_core s))))];
                SL [sx_w "agree"; sx_bool (final_agree s)];
                SL [sx_w "k"; SZ (g_k s)];
                SL [sx_w "quiescent"; sx_bool (quiescent s)];
                SL [sx_w "stuck"; SZ stuck]]
        | _, _ => sx_err "run"
        end
      else if is_tag "explore" t then
        match sx_cfg c, sch with
        | Some cf, SZ fuel =>
            match reach_set gen_flags cf (Z.to_nat fuel) with
            | Some st =>
                let l := sset_states st in
                SL [sx_w "states"; SZ (zlen l);
                    SL [sx_w "notok"; SZ (count_if (fun s => negb (state_ok gen_flags cf s)) l)];
                    SL [sx_w "predbad"; SZ (count_if (fun s => negb (conf_pred gen_flags cf s)) l)];
                    SL [sx_w "notokstrict"; SZ (count_if (fun s => negb (state_ok_strict gen_flags cf s)) l)];
                    SL [sx_w "quiescent"; SZ (count_if quiescent l)];
                    SL [sx_w "kstates"; SZ (count_if (fun s => negb (g_k s =? 0)) l)];
                    SL [sx_w "maxbucket"; SZ (fold_right (fun kv a => Z.max (zlen (snd kv)) a) 0 (PositiveMap.elements st))]]
            | None => SL [sx_w "outoffuel"]
            end
        | _, _ => sx_err "explore"
        end
      else sx_err "op"
  | SL [SS t; i; SL h; f] =>
      if is_tag "lin" t then
        match sx_regs i, sx_map_opt sx_event h, sx_regs f with
        | Some ri, Some ev, Some rf => sx_bool (linearizable ri ev rf)
        | _, _, _ => sx_err "lin"
        end
      else sx_err "op"
  | SL [SS t; SS n] =>
      if is_tag "universe" t then
        let pu := fun U => SL (map (fun cf => SL [p_cfg cf; sx_bool (racy cf)]) U) in
        if is_tag "u21" n then pu U21 else if is_tag "u22" n then pu U22 else if is_tag "u31" n then pu U31 else if is_tag "u2112" n then pu U2112 else if is_tag "u31e" n then pu U31e else if is_tag "u21d" n then pu U21d else sx_err "universe"
      else if is_tag "witness" t then
        if is_tag "k1torn" n then SL [sx_w "w"; p_cfg cfg_get_upd; SL (map p_nat sch_k1_torn)]
        else if is_tag "k1acct" n then SL [sx_w "w"; p_cfg cfg_get_upd; SL (map p_nat sch_k1_acct)]
        else if is_tag "k2" n then SL [sx_w "w"; p_cfg cfg_get_unl; SL (map p_nat sch_k2)]
        else if is_tag "k3" n then SL [sx_w "w"; p_cfg cfg_upd_unl; SL (map p_nat sch_k3)]
        else sx_err "witness"
      else sx_err "op"
  | _ => sx_err "shape"
  end.

Require Import ExtrOcamlBasic.
Extraction Language OCaml.
Extraction "extracted.ml" dispatch drv_add drv_mul drv_opp drv_div_eucl drv_ltb drv_eqb.
