(* C18/ConfsK.v — reflective check of U21d (see Spec.v) *)
From Coq Require Import ZArith List Bool.
From C18 Require Import Model Generated Spec Proofs.
Lemma u21d_ok : check_universe gen_flags U21d FUEL = true.
Proof. vm_cast_no_check (eq_refl true). Qed.
