(* C18/ConfsG.v — reflective check of the chunk U31c (see Spec.v) *)
From Coq Require Import ZArith List Bool.
From C18 Require Import Model Generated Spec Proofs.
Lemma u31c_ok : check_universe gen_flags U31c FUEL = true.
Proof. vm_cast_no_check (eq_refl true). Qed.
