(* C06/Properties.v — property theorems only: statement, `exact`, Print Assumptions. *)
From Coq Require Import QArith List Bool Lra.
From Coq Require Import Reals Qreals.
From Coquelicot Require Import Coquelicot.
From C06 Require Import Generated Model Proofs Analysis.
Import ListNotations.
Open Scope Q_scope.

(* T6.D — D is the partial derivative.  Stated algebraically (no limits, no axioms): along
   coordinate i, for EVERY step h that stays inside the domain,
       e(p + h e_i) = e(p) + h * (D e i)(p) + h^2 * R,      R = c2 + h * r3(h),
   with R an explicit rational function of h (Model.taylor) whose only denominators are
   denominators of e at p and at p + h e_i; in particular R is finite at h = 0, so
   (D e i)(p) is the limit of the difference quotient. *)
Theorem C06_D_is_derivative : forall e p i h,
  (i < length p)%nat -> defined e p -> defined e (shift p i h) ->
  evalQ e (shift p i h) ==
  evalQ e p + h * evalQ (D e i) p + h * h * (c2 (taylor e p i h) + h * r3 (taylor e p i h)).
Proof. exact D_is_derivative. Qed.
Print Assumptions C06_D_is_derivative.

(* the second-order coefficient c2 does not depend on h (it is f''/2) *)
Theorem C06_taylor_coefficients_independent_of_step : forall e p i h h',
  c0 (taylor e p i h) = c0 (taylor e p i h') /\
  c1 (taylor e p i h) = c1 (taylor e p i h') /\
  c2 (taylor e p i h) = c2 (taylor e p i h').
Proof. exact taylor_coeffs_indep. Qed.
Print Assumptions C06_taylor_coefficients_independent_of_step.

(* T6.central — the central difference the code computes differs from the derivative by
   h^2 times an explicit remainder (the mean of the third-order remainders at +h and -h). *)
Theorem C06_central_difference_error : forall e p i h,
  (i < length p)%nat -> ~ h == 0 ->
  defined e p -> defined e (shift p i h) -> defined e (shift p i (- h)) ->
  central (evalQ e) p i h ==
  evalQ (D e i) p + h * h * ((r3 (taylor e p i h) + r3 (taylor e p i (- h))) / 2).
Proof. exact central_difference_error. Qed.
Print Assumptions C06_central_difference_error.

(* ... and is exact for polynomials of degree <= 2 *)
Theorem C06_central_difference_exact_deg2 : forall e p i h d,
  (i < length p)%nat -> ~ h == 0 -> degree e = Some d -> (d <= 2)%nat ->
  central (evalQ e) p i h == evalQ (D e i) p.
Proof. exact central_difference_exact_deg2. Qed.
Print Assumptions C06_central_difference_exact_deg2.

(* T6.select — numeric_grad as the code writes it (in-place perturbation of x[idx], f on a copy,
   write-back): component j of the result is the central difference in coordinate j and in
   no other, and x is what it was afterwards. *)
Theorem C06_numeric_grad_selects_component : forall f x eps,
  length (numeric_grad f x eps) = length x /\
  forall j, (j < length x)%nat -> nth j (numeric_grad f x eps) 0 = central f x j eps.
Proof. exact numeric_grad_spec. Qed.
Print Assumptions C06_numeric_grad_selects_component.

Theorem C06_numeric_grad_writes_back : forall f x eps idxs grad, fst (ng_loop f eps idxs x grad) = x.
Proof. exact numeric_grad_writes_back. Qed.
Print Assumptions C06_numeric_grad_writes_back.

(* multi-parameter form: gradient i perturbs parameter i and only i, component j only *)
Theorem C06_multi_grad_selects_parameter : forall loss params eps i j,
  (i < length params)%nat -> (j < length (nth i params []))%nat ->
  nth j (nth i (multi_numeric_grad loss params eps) []) 0 =
  central (fun v => loss (upd i v params)) (nth i params []) j eps.
Proof. exact multi_numeric_grad_spec. Qed.
Print Assumptions C06_multi_grad_selects_parameter.

(* T6.jac — Jacobian entry (i, j) is the central difference of output i in input j *)
Theorem C06_numeric_jacobian_entries : forall g x eps i j,
  (i < length (g x))%nat -> (j < length x)%nat ->
  nth j (nth i (numeric_jacobian g x eps) []) 0 = central (fun v => nth i (g v) 0) x j eps.
Proof. exact numeric_jacobian_spec. Qed.
Print Assumptions C06_numeric_jacobian_entries.

(* the numeric gradient of an expression: derivative + eps^2 * explicit remainder *)
Theorem C06_numeric_grad_accuracy : forall e x eps j,
  (j < length x)%nat -> ~ eps == 0 ->
  defined e x -> defined e (shift x j eps) -> defined e (shift x j (- eps)) ->
  nth j (numeric_grad (evalQ e) x eps) 0 ==
  evalQ (D e j) x + eps * eps * ((r3 (taylor e x j eps) + r3 (taylor e x j (- eps))) / 2).
Proof. exact numeric_grad_accuracy. Qed.
Print Assumptions C06_numeric_grad_accuracy.

(* ---- analysis level (coq/C06/Analysis.v; depends on the standard-library axioms of the classical reals, named below) ----
   aexpr = dexpr + exp, ln, sin, cos, sqrt, abs, tanh + the general power a^b (a > 0).  Wherever the expression is defined,
   its symbolic derivative DA evaluates to the partial derivative in the sense of real analysis (Coquelicot is_derive). *)
Theorem C06_real_derivative : forall (e : aexpr) (p : nat -> R) (i : nat),
  definedR e p ->
  is_derive (fun t => evalR e (updR p i t)) (p i) (evalR (DA e i) p).
Proof. exact is_derive_DA. Qed.
Print Assumptions C06_real_derivative.

(* exact rational evaluation is real evaluation at rational points *)
Theorem C06_evalQ_is_real_evaluation : forall e p, defined e p -> Q2R (evalQ e p) = evalR (embed e) (pointR p).
Proof. exact evalQ_evalR. Qed.
Print Assumptions C06_evalQ_is_real_evaluation.

(* hence the extracted oracle of the correspondence, evalQ (D e i) p, is the real partial derivative *)
Theorem C06_oracle_is_real_derivative : forall (e : dexpr) (p : point) (i : nat),
  defined e p ->
  is_derive (fun t => evalR (embed e) (updR (pointR p) i t)) (pointR p i) (Q2R (evalQ (D e i) p)).
Proof. exact D_is_real_derivative. Qed.
Print Assumptions C06_oracle_is_real_derivative.

Example C06_real_example :
  (* d/dx0 of exp(x0 * x1) / sqrt(x1) + tanh(x0)^2 * |x1 - 3| ^ x0 is defined at (1/2, 2) *)
  let e := AAdd (ADiv (AFun FExp (AMul (AVar 0) (AVar 1))) (AFun FSqrt (AVar 1)))
                (AMul (APowN (AFun FTanh (AVar 0)) 2) (APow (AFun FAbs (ASub (AVar 1) (AConst 3))) (AVar 0))) in
  definedR e (fun i => match i with O => / 2 | _ => 2 end)%R.
Proof.
  cbv zeta. cbn [definedR evalR ufunR]. unfold Q2R; simpl.
  assert (H : (2 - 3 * / 1 <> 0)%R) by lra.
  repeat split; try lra; try exact H.
  - apply Rgt_not_eq. apply sqrt_lt_R0. lra.
  - apply Rabs_pos_lt. exact H.
Qed.

(* the scheme and step of the source are the ones of the model (facts read by the translator) *)
Theorem C06_source_scheme :
  ng_scheme_is_central && nj_scheme_is_central && mg_replaces_selected_parameter_only = true /\
  ng_eps64 == 1 # 1000000 /\ nj_eps64 == 1 # 1000000.
Proof. exact (conj eq_refl (conj (Qeq_refl (1 # 1000000)) (Qeq_refl (1 # 1000000)))). Qed.
Print Assumptions C06_source_scheme.

(* Known finding (torch backend, numeric path): the theorems above are about exact evaluation of f.
   When an intermediate of f is held in single precision and the step stays 1e-6, values within half a
   float32 ulp (2^-22 for magnitudes in [4,8)) of the true ones move the central difference of
   -1 - x^2 at -2 from 4 to 3.814697265625 = 10^6 / 2^18 — exactly what klongpy's torch backend
   returns for  s::-2.0; s∇{(-(1))-(x^2)} : 4.6 percent, against the 1e-5 the property asks. *)
Definition f32_witness : dexpr := DSub (DNeg (DConst 1)) (DPowN (DVar 0) 2).
Theorem C06_float32_evaluation_refuted :
  let f := evalQ f32_witness in let p := [- (2 # 1)] in let eps := 1 # 1000000 in
  let ulp_half := 1 # 4194304 in
  exists a b : Q,
    Qle_bool (a - f (shift p 0 eps)) ulp_half = true /\ Qle_bool (f (shift p 0 eps) - a) ulp_half = true /\
    Qle_bool (b - f (shift p 0 (- eps))) ulp_half = true /\ Qle_bool (f (shift p 0 (- eps)) - b) ulp_half = true /\
    evalQ (D f32_witness 0) p == 4 /\
    (a - b) / (2 * eps) == 1000000 # 262144 /\
    Qle_bool ((4 # 100) * evalQ (D f32_witness 0) p) (evalQ (D f32_witness 0) p - (a - b) / (2 * eps)) = true.
Proof.
  cbv zeta. exists (- (1310719 # 262144)), (- (1310721 # 262144)). repeat split; vm_compute; reflexivity.
Qed.

(* Non-vacuity: f = x0^3 / (1 + x1) + 2 x0 x1 at (2, 1), step 1/1000 *)
Definition ex_e : dexpr :=
  DAdd (DDiv (DPowN (DVar 0) 3) (DAdd (DConst 1) (DVar 1))) (DMul (DMul (DConst 2) (DVar 0)) (DVar 1)).
Example C06_example :
  let p := [2; 1] in let h := 1 # 1000 in
  definedb ex_e p = true /\ definedb ex_e (shift p 0 h) = true /\ definedb ex_e (shift p 0 (- h)) = true /\
  evalQ (D ex_e 0) p == 8 /\ evalQ (D ex_e 1) p == 2 /\
  ~ central (evalQ ex_e) p 0 h == evalQ (D ex_e 0) p /\
  central (evalQ ex_e) p 0 h - evalQ (D ex_e 0) p ==
    h * h * ((r3 (taylor ex_e p 0 h) + r3 (taylor ex_e p 0 (- h))) / 2) /\
  nth 0 (numeric_grad (evalQ (DMul (DVar 0) (DVar 1))) [3; 5] (1 # 1000000)) 0 == 5 /\
  nth 1 (numeric_grad (evalQ (DMul (DVar 0) (DVar 1))) [3; 5] (1 # 1000000)) 0 == 3.
Proof. cbv zeta. repeat split; try (vm_compute; reflexivity). vm_compute. discriminate. Qed.

Example C06_example_degree2_exact :
  central (evalQ (DAdd (DMul (DVar 0) (DVar 0)) (DMul (DConst 3) (DVar 1)))) [7 # 3; 1] 0 (1 # 1000000) == 14 # 3.
Proof. vm_compute. reflexivity. Qed.
