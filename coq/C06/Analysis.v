(* C06/Analysis.v — the analysis-level statement over the real numbers (Coquelicot).
   Kept apart from Proofs.v so that the algebraic theorems over Q stay axiom-free: everything
   here depends on the standard-library axioms of the classical real numbers
   (ClassicalDedekindReals.sig_forall_dec, sig_not_dec, FunctionalExtensionality.functional_extensionality_dep;
   Print Assumptions in Properties.v names them).

   aexpr = dexpr + the imported backend math functions (exp, ln, sin, cos, sqrt, abs, tanh) + the general
   power a^b (a > 0).  evalR interprets it over R, DA is the symbolic partial derivative, and
     is_derive_DA : definedR e p -> is_derive (fun t => evalR e (updR p i t)) (p i) (evalR (DA e i) p).
   embed : dexpr -> aexpr commutes with D (syntactically) and with evaluation (Q2R (evalQ e p) = evalR (embed e) (pointR p)),
   so the extracted oracle evalQ (D e i) p IS the real partial derivative. *)
From Coq Require Import Reals QArith Qreals List Lia Lra.
From Coquelicot Require Import Coquelicot.
From C06 Require Import Model.
Import ListNotations.
Open Scope R_scope.

Inductive ufun := FExp | FLn | FSin | FCos | FSqrt | FAbs | FTanh.

Inductive aexpr :=
| AConst (q : Q)
| AVar (i : nat)
| AAdd (a b : aexpr)
| ASub (a b : aexpr)
| AMul (a b : aexpr)
| ADiv (a b : aexpr)
| ANeg (a : aexpr)
| APowN (a : aexpr) (n : nat)
| AFun (f : ufun) (a : aexpr)
| APow (a b : aexpr).            (* a^b = exp (b * ln a), a > 0 *)

Definition ufunR (f : ufun) : R -> R :=
  match f with
  | FExp => exp | FLn => ln | FSin => sin | FCos => cos | FSqrt => sqrt | FAbs => Rabs | FTanh => tanh
  end.

Definition rpoint := nat -> R.
Definition updR (p : rpoint) (i : nat) (t : R) : rpoint := fun j => if Nat.eqb j i then t else p j.

Fixpoint evalR (e : aexpr) (p : rpoint) : R :=
  match e with
  | AConst q => Q2R q
  | AVar i => p i
  | AAdd a b => evalR a p + evalR b p
  | ASub a b => evalR a p - evalR b p
  | AMul a b => evalR a p * evalR b p
  | ADiv a b => evalR a p / evalR b p
  | ANeg a => - evalR a p
  | APowN a n => evalR a p ^ n
  | AFun f a => ufunR f (evalR a p)
  | APow a b => exp (evalR b p * ln (evalR a p))
  end.

Fixpoint definedR (e : aexpr) (p : rpoint) : Prop :=
  match e with
  | AConst _ | AVar _ => True
  | AAdd a b | ASub a b | AMul a b => definedR a p /\ definedR b p
  | ADiv a b => definedR a p /\ definedR b p /\ evalR b p <> 0
  | ANeg a | APowN a _ => definedR a p
  | AFun f a =>
      definedR a p /\
      match f with
      | FLn | FSqrt => 0 < evalR a p
      | FAbs => evalR a p <> 0
      | _ => True
      end
  | APow a b => definedR a p /\ definedR b p /\ 0 < evalR a p
  end.

(* derivative of the outer function, as an expression in the argument *)
Definition dufun (f : ufun) (a : aexpr) : aexpr :=
  match f with
  | FExp => AFun FExp a
  | FLn => ADiv (AConst 1) a
  | FSin => AFun FCos a
  | FCos => ANeg (AFun FSin a)
  | FSqrt => ADiv (AConst 1) (AMul (AConst 2) (AFun FSqrt a))
  | FAbs => ADiv a (AFun FAbs a)
  | FTanh => ASub (AConst 1) (APowN (AFun FTanh a) 2)
  end.

Fixpoint DA (e : aexpr) (i : nat) : aexpr :=
  match e with
  | AConst _ => AConst 0
  | AVar j => if Nat.eqb j i then AConst 1 else AConst 0
  | AAdd a b => AAdd (DA a i) (DA b i)
  | ASub a b => ASub (DA a i) (DA b i)
  | AMul a b => AAdd (AMul (DA a i) b) (AMul a (DA b i))
  | ADiv a b => ADiv (ASub (AMul (DA a i) b) (AMul a (DA b i))) (AMul b b)
  | ANeg a => ANeg (DA a i)
  | APowN a n =>
      match n with
      | O => AConst 0
      | S m => AMul (AMul (AConst (inject_Z (Z.of_nat n))) (APowN a m)) (DA a i)
      end
  | AFun f a => AMul (dufun f a) (DA a i)
  | APow a b => AMul (APow a b) (AAdd (AMul (DA b i) (AFun FLn a)) (ADiv (AMul b (DA a i)) a))
  end.

Fixpoint embed (e : dexpr) : aexpr :=
  match e with
  | DConst q => AConst q
  | DVar i => AVar i
  | DAdd a b => AAdd (embed a) (embed b)
  | DSub a b => ASub (embed a) (embed b)
  | DMul a b => AMul (embed a) (embed b)
  | DDiv a b => ADiv (embed a) (embed b)
  | DNeg a => ANeg (embed a)
  | DPowN a n => APowN (embed a) n
  end.

Definition pointR (p : point) : rpoint := fun i => Q2R (coord p i).

(* ---------------------------------------------------------------- embed commutes with D and with evaluation *)
Lemma embed_D : forall e i, embed (D e i) = DA (embed e) i.
Proof.
  induction e; intros k; simpl; try (rewrite ?IHe, ?IHe1, ?IHe2; reflexivity).
  - destruct (Nat.eqb i k); reflexivity.
  - destruct n; simpl; [reflexivity | rewrite IHe; reflexivity].
Qed.

Lemma Q2R_qpow : forall x n, Q2R (qpow x n) = Q2R x ^ n.
Proof.
  intros x n. induction n as [|m IH]; simpl.
  - unfold Q2R. simpl. field.
  - rewrite Q2R_mult, IH. reflexivity.
Qed.

Lemma evalQ_evalR : forall e p, defined e p -> Q2R (evalQ e p) = evalR (embed e) (pointR p).
Proof.
  induction e; intros p Hd; simpl in *.
  - reflexivity.
  - reflexivity.
  - destruct Hd. rewrite Q2R_plus, IHe1, IHe2; auto.
  - destruct Hd. rewrite Q2R_minus, IHe1, IHe2; auto.
  - destruct Hd. rewrite Q2R_mult, IHe1, IHe2; auto.
  - destruct Hd as [H1 [H2 H3]]. rewrite Q2R_div by exact H3. rewrite IHe1, IHe2; auto.
  - rewrite Q2R_opp, IHe; auto.
  - rewrite Q2R_qpow, IHe; auto.
Qed.

Lemma defined_definedR : forall e p, defined e p -> definedR (embed e) (pointR p).
Proof.
  induction e; intros p Hd; simpl in *; auto.
  - destruct Hd; split; auto.
  - destruct Hd; split; auto.
  - destruct Hd; split; auto.
  - destruct Hd as [H1 [H2 H3]]. repeat split; auto.
    rewrite <- evalQ_evalR by exact H2. intros H0. apply H3.
    apply eqR_Qeq. rewrite H0. unfold Q2R. simpl. field.
Qed.

Lemma defined_D : forall e p i, defined e p -> defined (D e i) p.
Proof.
  induction e; intros p k Hd; simpl in *; auto.
  - destruct (Nat.eqb i k); exact I.
  - destruct Hd; split; auto.
  - destruct Hd; split; auto.
  - destruct Hd; repeat split; auto.
  - destruct Hd as [H1 [H2 H3]]. repeat split; auto.
    intros H0. apply H3. destruct (Qmult_integral _ _ H0); assumption.
  - destruct n; simpl; auto.
Qed.

(* ---------------------------------------------------------------- evaluation depends on the point pointwise *)
Lemma evalR_ext : forall e p p', (forall j, p j = p' j) -> evalR e p = evalR e p'.
Proof.
  induction e; intros p p' H; simpl; auto;
    try (rewrite (IHe1 p p' H), (IHe2 p p' H); reflexivity);
    try (rewrite (IHe p p' H); reflexivity).
Qed.

Lemma updR_same : forall p i j, updR p i (p i) j = p j.
Proof. intros p i j. unfold updR. destruct (Nat.eqb j i) eqn:E; [apply Nat.eqb_eq in E; subst|]; reflexivity. Qed.

Lemma evalR_upd_same : forall e p i, evalR e (updR p i (p i)) = evalR e p.
Proof. intros. apply evalR_ext. apply updR_same. Qed.

(* ---------------------------------------------------------------- the outer functions *)
Lemma is_derive_tanh : forall x, is_derive tanh x (1 - tanh x ^ 2).
Proof.
  intros x. unfold tanh, sinh, cosh.
  assert (Hc : exp x + exp (- x) <> 0) by (pose proof (exp_pos x); pose proof (exp_pos (- x)); lra).
  auto_derive.
  - repeat split; auto. intros H. apply Hc. lra.
  - field. intros H. apply Hc. lra.
Qed.

Lemma sign_div_abs : forall x, x <> 0 -> sign x = x / Rabs x.
Proof.
  intros x Hx. destruct (Rlt_or_le 0 x) as [H|H].
  - rewrite sign_eq_1 by exact H. rewrite Rabs_pos_eq by lra. field. exact Hx.
  - assert (x < 0) by lra. rewrite sign_eq_m1 by assumption. rewrite Rabs_left by assumption. field. exact Hx.
Qed.

Lemma is_derive_ufun : forall f a p,
  match f with FLn | FSqrt => 0 < evalR a p | FAbs => evalR a p <> 0 | _ => True end ->
  is_derive (ufunR f) (evalR a p) (evalR (dufun f a) p).
Proof.
  intros f a p H. destruct f; simpl.
  - apply is_derive_exp.
  - evar_last; [apply is_derive_ln; exact H|]. rewrite RMicromega.Q2R_1. field. lra.
  - apply is_derive_sin.
  - apply is_derive_cos.
  - evar_last; [apply (is_derive_sqrt (fun t => t) (evalR a p) 1); [apply (@is_derive_id R_AbsRing) | exact H]|].
    rewrite RMicromega.Q2R_1. replace (Q2R 2) with 2 by (unfold Q2R; simpl; field). reflexivity.
  - evar_last; [apply (is_derive_Rabs (fun t => t) (evalR a p) 1); [apply (@is_derive_id R_AbsRing) | exact H]|].
    rewrite sign_div_abs by exact H. simpl. ring.
  - evar_last; [apply is_derive_tanh|]. rewrite RMicromega.Q2R_1. simpl. ring.
Qed.

(* ---------------------------------------------------------------- the theorem *)
Theorem is_derive_DA : forall e p i,
  definedR e p ->
  is_derive (fun t => evalR e (updR p i t)) (p i) (evalR (DA e i) p).
Proof.
  induction e; intros p k Hd; cbn [evalR DA definedR] in *.
  - (* const *) evar_last; [apply is_derive_const|]. unfold Q2R. simpl. unfold zero. simpl. field.
  - (* var *)
    unfold updR. destruct (Nat.eqb i k) eqn:E.
    + evar_last; [apply is_derive_id|]. simpl. unfold Q2R, one. simpl. field.
    + evar_last; [apply is_derive_const|]. simpl. unfold Q2R, zero. simpl. field.
  - destruct Hd as [H1 H2]. apply (is_derive_plus (fun t => evalR e1 (updR p k t)) (fun t => evalR e2 (updR p k t))); auto.
  - destruct Hd as [H1 H2]. apply (is_derive_minus (fun t => evalR e1 (updR p k t)) (fun t => evalR e2 (updR p k t))); auto.
  - destruct Hd as [H1 H2].
    evar_last; [apply (is_derive_mult (fun t => evalR e1 (updR p k t)) (fun t => evalR e2 (updR p k t)) (p k) _ _ (IHe1 p k H1) (IHe2 p k H2)); intros; apply Rmult_comm|].
    rewrite !evalR_upd_same. reflexivity.
  - destruct Hd as [H1 [H2 H3]].
    evar_last; [apply (is_derive_div (fun t => evalR e1 (updR p k t)) (fun t => evalR e2 (updR p k t)) (p k) _ _ (IHe1 p k H1) (IHe2 p k H2)); rewrite evalR_upd_same; exact H3|].
    rewrite !evalR_upd_same. simpl. field. exact H3.
  - apply (is_derive_opp (fun t => evalR e (updR p k t))). auto.
  - (* natural power *)
    destruct n as [|m].
    + cbn [pow evalR]. evar_last; [apply is_derive_const|]. unfold Q2R, zero. simpl. field.
    + evar_last; [apply (is_derive_pow (fun t => evalR e (updR p k t)) (S m) (p k) _ (IHe p k Hd))|].
      rewrite evalR_upd_same. cbn [evalR Init.Nat.pred].
      replace (Q2R (inject_Z (Z.of_nat (S m)))) with (INR (S m)).
      * ring.
      * rewrite INR_IZR_INZ. unfold Q2R, inject_Z. simpl. field.
  - (* imported math function *)
    destruct Hd as [H1 H2].
    evar_last; [apply (is_derive_comp (ufunR f) (fun t => evalR e (updR p k t)) (p k) (evalR (dufun f e) p) (evalR (DA e k) p)); [|apply IHe; exact H1]|].
    + rewrite evalR_upd_same. apply is_derive_ufun. exact H2.
    + cbn [evalR]. unfold scal. simpl. unfold mult. simpl. ring.
  - (* general power *)
    destruct Hd as [H1 [H2 H3]].
    assert (Hln : is_derive (fun t => ln (evalR e1 (updR p k t))) (p k) (evalR (DA e1 k) p / evalR e1 p)).
    { evar_last; [apply (is_derive_comp ln (fun t => evalR e1 (updR p k t)) (p k) (/ evalR e1 p) (evalR (DA e1 k) p)); [|apply IHe1; exact H1]|].
      - rewrite evalR_upd_same. apply is_derive_ln. exact H3.
      - unfold scal. simpl. unfold mult. simpl. field. lra. }
    evar_last.
    + apply (is_derive_comp exp (fun t => evalR e2 (updR p k t) * ln (evalR e1 (updR p k t))) (p k)).
      * apply is_derive_exp.
      * apply (is_derive_mult (fun t => evalR e2 (updR p k t)) (fun t => ln (evalR e1 (updR p k t))) (p k) _ _ (IHe2 p k H2) Hln).
        intros; apply Rmult_comm.
    + rewrite !evalR_upd_same. cbn [evalR ufunR]. unfold scal, plus, mult. simpl. unfold mult. simpl. field. lra.
Qed.

(* the extracted oracle is the real partial derivative *)
Theorem D_is_real_derivative : forall (e : dexpr) (p : point) (i : nat),
  defined e p ->
  is_derive (fun t => evalR (embed e) (updR (pointR p) i t)) (pointR p i) (Q2R (evalQ (D e i) p)).
Proof.
  intros e p i Hd.
  rewrite (evalQ_evalR (D e i) p (defined_D e p i Hd)). rewrite embed_D.
  apply is_derive_DA. apply defined_definedR. exact Hd.
Qed.
