(* C06/Model.v — differentiable expressions over exact rationals, their symbolic
   derivative, their second-order Taylor data with an explicit third-order
   remainder, and the finite-difference schemes of klongpy/autograd.py
   (numeric_grad, numeric_jacobian, multi_grad_of_fn's numeric branch) written
   over Q with the in-place perturb / write-back of the code.
   No proofs in this file. *)
From Coq Require Import QArith List Bool.
Import ListNotations.
Open Scope Q_scope.

Inductive dexpr :=
| DConst (q : Q)
| DVar (i : nat)                 (* the i-th component of the (flattened) parameter(s): x@i *)
| DAdd (a b : dexpr)
| DSub (a b : dexpr)
| DMul (a b : dexpr)
| DDiv (a b : dexpr)
| DNeg (a : dexpr)
| DPowN (a : dexpr) (n : nat).   (* a^n, n a literal natural *)

(* +/[e1 e2 ...]  and  [e1 e2 ...]@i  are derived forms *)
Definition dsum (l : list dexpr) : dexpr := fold_right DAdd (DConst 0) l.
Definition didx (l : list dexpr) (i : nat) : dexpr := nth i l (DConst 0).

Definition point := list Q.
Definition coord (p : point) (i : nat) : Q := nth i p 0.

Fixpoint qpow (x : Q) (n : nat) : Q :=
  match n with O => 1 | S m => x * qpow x m end.

Fixpoint evalQ (e : dexpr) (p : point) : Q :=
  match e with
  | DConst q => q
  | DVar i => coord p i
  | DAdd a b => evalQ a p + evalQ b p
  | DSub a b => evalQ a p - evalQ b p
  | DMul a b => evalQ a p * evalQ b p
  | DDiv a b => evalQ a p / evalQ b p
  | DNeg a => - evalQ a p
  | DPowN a n => qpow (evalQ a p) n
  end.

(* symbolic partial derivative with respect to component i *)
Fixpoint D (e : dexpr) (i : nat) : dexpr :=
  match e with
  | DConst _ => DConst 0
  | DVar j => if Nat.eqb j i then DConst 1 else DConst 0
  | DAdd a b => DAdd (D a i) (D b i)
  | DSub a b => DSub (D a i) (D b i)
  | DMul a b => DAdd (DMul (D a i) b) (DMul a (D b i))
  | DDiv a b => DDiv (DSub (DMul (D a i) b) (DMul a (D b i))) (DMul b b)
  | DNeg a => DNeg (D a i)
  | DPowN a n =>
      match n with
      | O => DConst 0
      | S m => DMul (DMul (DConst (inject_Z (Z.of_nat n))) (DPowN a m)) (D a i)
      end
  end.

Definition gradQ (e : dexpr) (n : nat) (p : point) : list Q :=
  map (fun i => evalQ (D e i) p) (seq 0 n).
Definition jacQ (g : list dexpr) (n : nat) (p : point) : list (list Q) :=
  map (fun e => gradQ e n p) g.

(* ---- replace one coordinate ---------------------------------------------------- *)
Fixpoint upd {A} (i : nat) (a : A) (l : list A) : list A :=
  match l, i with
  | [], _ => []
  | _ :: r, O => a :: r
  | x :: r, S j => x :: upd j a r
  end.
Definition shift (p : point) (i : nat) (h : Q) : point := upd i (coord p i + h) p.

(* ---- every denominator is non-zero -------------------------------------------- *)
Fixpoint defined (e : dexpr) (p : point) : Prop :=
  match e with
  | DConst _ | DVar _ => True
  | DAdd a b | DSub a b | DMul a b => defined a p /\ defined b p
  | DDiv a b => defined a p /\ defined b p /\ ~ evalQ b p == 0
  | DNeg a | DPowN a _ => defined a p
  end.
Definition Qnonzero (q : Q) : bool := negb (Qeq_bool q 0).
Fixpoint definedb (e : dexpr) (p : point) : bool :=
  match e with
  | DConst _ | DVar _ => true
  | DAdd a b | DSub a b | DMul a b => definedb a p && definedb b p
  | DDiv a b => definedb a p && definedb b p && Qnonzero (evalQ b p)
  | DNeg a | DPowN a _ => definedb a p
  end.

(* ---- Taylor data along coordinate i: value, first and second coefficient (independent of h),
        and the third-order remainder r3(h):
          e(p + h e_i) = c0 + h c1 + h^2 c2 + h^3 r3(h)                                  *)
Record jet := mkJet { c0 : Q ; c1 : Q ; c2 : Q ; r3 : Q }.

Definition jmul (h : Q) (a b : jet) : jet :=
  mkJet (c0 a * c0 b)
        (c0 a * c1 b + c1 a * c0 b)
        (c0 a * c2 b + c1 a * c1 b + c2 a * c0 b)
        (c0 a * r3 b + r3 a * c0 b + c1 a * c2 b + c2 a * c1 b
         + h * (c1 a * r3 b + r3 a * c1 b + c2 a * c2 b)
         + h * h * (c2 a * r3 b + r3 a * c2 b)
         + h * h * h * (r3 a * r3 b)).

(* bs = the value of the denominator at the shifted point *)
Definition jdiv (h : Q) (a b : jet) (bs : Q) : jet :=
  let q0 := c0 a / c0 b in
  let q1 := (c1 a - q0 * c1 b) / c0 b in
  let q2 := (c2 a - q0 * c2 b - q1 * c1 b) / c0 b in
  mkJet q0 q1 q2
        ((r3 a - q0 * r3 b - q1 * c2 b - q2 * c1 b
          - h * (q1 * r3 b + q2 * c2 b) - h * h * (q2 * r3 b)) / bs).

Fixpoint jpow (h : Q) (a : jet) (n : nat) : jet :=
  match n with
  | O => mkJet 1 0 0 0
  | S m => jmul h a (jpow h a m)
  end.

Fixpoint taylor (e : dexpr) (p : point) (i : nat) (h : Q) : jet :=
  match e with
  | DConst q => mkJet q 0 0 0
  | DVar j => mkJet (coord p j) (if Nat.eqb j i then 1 else 0) 0 0
  | DAdd a b => let ja := taylor a p i h in let jb := taylor b p i h in
                mkJet (c0 ja + c0 jb) (c1 ja + c1 jb) (c2 ja + c2 jb) (r3 ja + r3 jb)
  | DSub a b => let ja := taylor a p i h in let jb := taylor b p i h in
                mkJet (c0 ja - c0 jb) (c1 ja - c1 jb) (c2 ja - c2 jb) (r3 ja - r3 jb)
  | DMul a b => jmul h (taylor a p i h) (taylor b p i h)
  | DDiv a b => jdiv h (taylor a p i h) (taylor b p i h) (evalQ b (shift p i h))
  | DNeg a => let ja := taylor a p i h in mkJet (- c0 ja) (- c1 ja) (- c2 ja) (- r3 ja)
  | DPowN a n => jpow h (taylor a p i h) n
  end.

(* polynomial degree bound (None = not a polynomial: contains a division) *)
Fixpoint degree (e : dexpr) : option nat :=
  match e with
  | DConst _ => Some O
  | DVar _ => Some 1%nat
  | DAdd a b | DSub a b =>
      match degree a, degree b with Some x, Some y => Some (Nat.max x y) | _, _ => None end
  | DMul a b =>
      match degree a, degree b with Some x, Some y => Some (x + y)%nat | _, _ => None end
  | DDiv _ _ => None
  | DNeg a => degree a
  | DPowN a n => match degree a with Some x => Some (n * x)%nat | None => None end
  end.

(* ---- the finite-difference schemes as the code writes them -------------------- *)
Definition central (f : point -> Q) (x : point) (idx : nat) (eps : Q) : Q :=
  (f (upd idx (coord x idx + eps) x) - f (upd idx (coord x idx - eps) x)) / (2 * eps).

(* numeric_grad: x is mutated in place, func receives x.copy(), x[idx] is written back *)
Fixpoint ng_loop (f : point -> Q) (eps : Q) (idxs : list nat) (x : point) (grad : list Q) : point * list Q :=
  match idxs with
  | [] => (x, grad)
  | idx :: rest =>
      let orig := coord x idx in
      let x1 := upd idx (orig + eps) x in
      let f_pos := f x1 in
      let x2 := upd idx (orig - eps) x1 in
      let f_neg := f x2 in
      let grad' := upd idx ((f_pos - f_neg) / (2 * eps)) grad in
      let x3 := upd idx orig x2 in
      ng_loop f eps rest x3 grad'
  end.
Definition numeric_grad (f : point -> Q) (x : point) (eps : Q) : list Q :=
  snd (ng_loop f eps (seq 0 (length x)) x (map (fun _ => 0) x)).

(* numeric_jacobian: column j from x_plus = x.copy(); x_plus[j] += eps ... ; result m x n *)
Definition numeric_jacobian (g : point -> list Q) (x : point) (eps : Q) : list (list Q) :=
  let m := length (g x) in
  map (fun i => map (fun j =>
         (nth i (g (upd j (coord x j + eps) x)) 0 - nth i (g (upd j (coord x j - eps) x)) 0) / (2 * eps))
       (seq 0 (length x))) (seq 0 m).

(* multi_grad_of_fn, numeric branch: parameter i is replaced by the perturbed copy, the others are passed as they are *)
Definition multi_numeric_grad (loss : list point -> Q) (params : list point) (eps : Q) : list (list Q) :=
  map (fun i =>
         let single_param_fn := fun v => loss (upd i v params) in
         numeric_grad single_param_fn (nth i params []) eps)
      (seq 0 (length params)).

(* magnitude scale used for the tolerance of the correspondence: the expression evaluated with |.| everywhere *)
Definition Qabs' (q : Q) : Q := if Qle_bool 0 q then q else - q.
Fixpoint evalAbs (e : dexpr) (p : point) : Q :=
  match e with
  | DConst q => Qabs' q
  | DVar i => Qabs' (coord p i)
  | DAdd a b | DSub a b => evalAbs a p + evalAbs b p
  | DMul a b => evalAbs a p * evalAbs b p
  | DDiv a b => evalAbs a p / Qabs' (evalQ b p)
  | DNeg a => evalAbs a p
  | DPowN a n => qpow (evalAbs a p) n
  end.
(* the smallest |denominator| anywhere in the expression (None: no division) *)
Definition qmin_opt (a b : option Q) : option Q :=
  match a, b with
  | Some x, Some y => Some (if Qle_bool x y then x else y)
  | Some x, None => Some x
  | None, o => o
  end.
Fixpoint min_denominator (e : dexpr) (p : point) : option Q :=
  match e with
  | DConst _ | DVar _ => None
  | DAdd a b | DSub a b | DMul a b => qmin_opt (min_denominator a p) (min_denominator b p)
  | DDiv a b => qmin_opt (Some (Qabs' (evalQ b p))) (qmin_opt (min_denominator a p) (min_denominator b p))
  | DNeg a | DPowN a _ => min_denominator a p
  end.
