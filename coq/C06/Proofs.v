(* C06/Proofs.v *)
From Coq Require Import QArith List Bool Lia Arith.
From C06 Require Import Model.
Import ListNotations.
Open Scope Q_scope.

(* ---------------------------------------------------------------- lists *)
Lemma upd_length : forall A i (a : A) l, length (upd i a l) = length l.
Proof. induction i; destruct l; simpl; auto. Qed.

Lemma nth_upd_same : forall A i (a d : A) l, (i < length l)%nat -> nth i (upd i a l) d = a.
Proof. induction i; destruct l; simpl; intros; try lia; auto. apply IHi. lia. Qed.

Lemma nth_upd_other : forall A i j (a d : A) l, i <> j -> nth j (upd i a l) d = nth j l d.
Proof.
  induction i; destruct l; simpl; intros; auto.
  - destruct j; [lia | reflexivity].
  - destruct j; [reflexivity | apply IHi; lia].
Qed.

Lemma upd_upd : forall A i (a b : A) l, upd i a (upd i b l) = upd i a l.
Proof. induction i; destruct l; simpl; intros; auto. f_equal. apply IHi. Qed.

Lemma upd_nth_id : forall A i (d : A) l, upd i (nth i l d) l = l.
Proof. induction i; destruct l; simpl; intros; auto. f_equal. apply IHi. Qed.

Lemma coord_shift_same : forall p i h, (i < length p)%nat -> coord (shift p i h) i = coord p i + h.
Proof. intros. unfold shift, coord. apply nth_upd_same. assumption. Qed.

Lemma coord_shift_other : forall p i j h, i <> j -> coord (shift p i h) j = coord p j.
Proof. intros. unfold shift, coord. apply nth_upd_other. assumption. Qed.

(* ---------------------------------------------------------------- Taylor data *)
Definition expand (h : Q) (j : jet) : Q := c0 j + h * c1 j + h * h * c2 j + h * h * h * r3 j.

Lemma jmul_sound : forall h x y ja jb,
  x == expand h ja -> y == expand h jb -> x * y == expand h (jmul h ja jb).
Proof.
  intros h x y ja jb Hx Hy. rewrite Hx, Hy. unfold expand, jmul. cbn [c0 c1 c2 r3]. ring.
Qed.

Lemma jpow_sound : forall h x ja n, x == expand h ja -> qpow x n == expand h (jpow h ja n).
Proof.
  intros h x ja n Hx. induction n as [|m IH]; cbn [qpow jpow].
  - unfold expand. cbn [c0 c1 c2 r3]. ring.
  - apply jmul_sound; assumption.
Qed.

Lemma jdiv_sound : forall h x y ja jb,
  x == expand h ja -> y == expand h jb -> ~ c0 jb == 0 -> ~ y == 0 ->
  x / y == expand h (jdiv h ja jb y).
Proof.
  intros h x y ja jb Hx Hy Hb0 Hy0.
  assert (Hy0' : ~ expand h jb == 0) by (rewrite <- Hy; exact Hy0).
  unfold expand, jdiv in *. cbn [c0 c1 c2 r3] in *.
  rewrite Hx. rewrite Hy. field. split; assumption.
Qed.

(* the coefficients do not depend on h *)
Lemma jpow_coeffs : forall h h' ja jb n,
  c0 ja = c0 jb -> c1 ja = c1 jb -> c2 ja = c2 jb ->
  c0 (jpow h ja n) = c0 (jpow h' jb n) /\ c1 (jpow h ja n) = c1 (jpow h' jb n) /\ c2 (jpow h ja n) = c2 (jpow h' jb n).
Proof.
  intros h h' ja jb n H0 H1 H2. induction n as [|m [I0 [I1 I2]]]; cbn [jpow jmul c0 c1 c2]; auto.
  rewrite H0, H1, H2, I0, I1, I2. auto.
Qed.

Lemma taylor_coeffs_indep : forall e p i h h',
  c0 (taylor e p i h) = c0 (taylor e p i h') /\
  c1 (taylor e p i h) = c1 (taylor e p i h') /\
  c2 (taylor e p i h) = c2 (taylor e p i h').
Proof.
  induction e as [q|v|e1 IHe1 e2 IHe2|e1 IHe1 e2 IHe2|e1 IHe1 e2 IHe2|e1 IHe1 e2 IHe2|e IHe|e IHe n]; intros p i h h'; cbn [taylor]; cbv zeta;
    try (destruct (IHe1 p i h h') as [A0 [A1 A2]]; destruct (IHe2 p i h h') as [B0 [B1 B2]]);
    try (destruct (IHe p i h h') as [A0 [A1 A2]]);
    cbn [jmul jdiv c0 c1 c2];
    try (rewrite ?A0, ?A1, ?A2, ?B0, ?B1, ?B2; auto; fail).
  apply jpow_coeffs; assumption.
Qed.

Lemma inject_succ : forall m, inject_Z (Z.of_nat (S m)) == inject_Z (Z.of_nat m) + 1.
Proof.
  intros m. rewrite Nat2Z.inj_succ. unfold Z.succ. rewrite inject_Z_plus. reflexivity.
Qed.

Lemma jpow_c0 : forall h ja n, c0 (jpow h ja n) == qpow (c0 ja) n.
Proof.
  intros h ja n. induction n as [|m IH]; cbn [jpow jmul c0 qpow]; [reflexivity|]. rewrite IH. reflexivity.
Qed.

Lemma jpow_c1 : forall h ja n,
  c1 (jpow h ja n) ==
  match n with O => 0 | S m => inject_Z (Z.of_nat (S m)) * qpow (c0 ja) m * c1 ja end.
Proof.
  intros h ja n. induction n as [|m IH]; cbn [jpow jmul c0 c1]; [reflexivity|].
  rewrite IH, jpow_c0. destruct m as [|k].
  - cbn [qpow]. change (inject_Z (Z.of_nat 1)) with 1. ring.
  - rewrite (inject_succ (S k)). cbn [qpow]. ring.
Qed.

Lemma qpow_comp : forall x y n, x == y -> qpow x n == qpow y n.
Proof. intros x y n H. induction n as [|m IH]; cbn [qpow]; [reflexivity|]. apply Qmult_comp; assumption. Qed.

(* e(p + h e_i) = c0 + h c1 + h^2 c2 + h^3 r3(h), c0 = e(p), c1 = (D e i)(p) *)
Lemma taylor_sound : forall e p i h,
  (i < length p)%nat -> defined e p -> defined e (shift p i h) ->
  evalQ e (shift p i h) == expand h (taylor e p i h) /\
  c0 (taylor e p i h) == evalQ e p /\
  c1 (taylor e p i h) == evalQ (D e i) p.
Proof.
  induction e as [q|v|e1 IHe1 e2 IHe2|e1 IHe1 e2 IHe2|e1 IHe1 e2 IHe2|e1 IHe1 e2 IHe2|e IHe|e IHe n]; intros p i h Hi Hd Hs; cbn [taylor evalQ D defined] in *; cbv zeta.
  - (* const *) unfold expand; cbn [c0 c1 c2 r3]. repeat split; try reflexivity. ring.
  - (* var *)
    unfold expand; cbn [c0 c1 c2 r3]. destruct (Nat.eqb v i) eqn:E.
    + apply Nat.eqb_eq in E. subst v. rewrite coord_shift_same by assumption.
      repeat split; cbn [evalQ]; try reflexivity. ring.
    + apply Nat.eqb_neq in E. rewrite coord_shift_other by (intro; subst; apply E; reflexivity).
      repeat split; cbn [evalQ]; try reflexivity. ring.
  - (* add *)
    destruct Hd as [Hd1 Hd2]. destruct Hs as [Hs1 Hs2].
    destruct (IHe1 p i h Hi Hd1 Hs1) as [A [A0 A1]]. destruct (IHe2 p i h Hi Hd2 Hs2) as [B [B0 B1]].
    cbn [c0 c1 c2 r3]. repeat split.
    + rewrite A, B. unfold expand; cbn [c0 c1 c2 r3]. ring.
    + rewrite A0, B0. reflexivity.
    + rewrite A1, B1. reflexivity.
  - (* sub *)
    destruct Hd as [Hd1 Hd2]. destruct Hs as [Hs1 Hs2].
    destruct (IHe1 p i h Hi Hd1 Hs1) as [A [A0 A1]]. destruct (IHe2 p i h Hi Hd2 Hs2) as [B [B0 B1]].
    cbn [c0 c1 c2 r3]. repeat split.
    + rewrite A, B. unfold expand; cbn [c0 c1 c2 r3]. ring.
    + rewrite A0, B0. reflexivity.
    + rewrite A1, B1. reflexivity.
  - (* mul *)
    destruct Hd as [Hd1 Hd2]. destruct Hs as [Hs1 Hs2].
    destruct (IHe1 p i h Hi Hd1 Hs1) as [A [A0 A1]]. destruct (IHe2 p i h Hi Hd2 Hs2) as [B [B0 B1]].
    repeat split.
    + apply jmul_sound; assumption.
    + cbn [jmul c0]. rewrite A0, B0. reflexivity.
    + cbn [jmul c1]. rewrite A0, B0, A1, B1. ring.
  - (* div *)
    destruct Hd as [Hd1 [Hd2 Hn]]. destruct Hs as [Hs1 [Hs2 Hns]].
    destruct (IHe1 p i h Hi Hd1 Hs1) as [A [A0 A1]]. destruct (IHe2 p i h Hi Hd2 Hs2) as [B [B0 B1]].
    assert (Hb0 : ~ c0 (taylor e2 p i h) == 0) by (rewrite B0; exact Hn).
    repeat split.
    + apply jdiv_sound; assumption.
    + cbn [jdiv c0]. rewrite A0, B0. reflexivity.
    + cbn [jdiv c1]. rewrite A0, B0, A1, B1. field. exact Hn.
  - (* neg *)
    destruct (IHe p i h Hi Hd Hs) as [A [A0 A1]]. cbn [c0 c1 c2 r3]. repeat split.
    + rewrite A. unfold expand; cbn [c0 c1 c2 r3]. ring.
    + rewrite A0. reflexivity.
    + rewrite A1. reflexivity.
  - (* pow *)
    destruct (IHe p i h Hi Hd Hs) as [A [A0 A1]]. repeat split.
    + apply jpow_sound. exact A.
    + rewrite jpow_c0. apply qpow_comp. exact A0.
    + rewrite jpow_c1. destruct n as [|m]; cbn [D evalQ]; [reflexivity|].
      rewrite A1. rewrite (qpow_comp _ _ m A0). reflexivity.
Qed.

(* T6.D *)
Theorem D_is_derivative : forall e p i h,
  (i < length p)%nat -> defined e p -> defined e (shift p i h) ->
  evalQ e (shift p i h) ==
  evalQ e p + h * evalQ (D e i) p + h * h * (c2 (taylor e p i h) + h * r3 (taylor e p i h)).
Proof.
  intros e p i h Hi Hd Hs. destruct (taylor_sound e p i h Hi Hd Hs) as [A [A0 A1]].
  rewrite A. unfold expand. rewrite A0, A1. ring.
Qed.

(* T6.central *)
Lemma central_shift : forall e p i h,
  central (evalQ e) p i h = (evalQ e (shift p i h) - evalQ e (shift p i (- h))) / (2 * h).
Proof. reflexivity. Qed.

Theorem central_difference_error : forall e p i h,
  (i < length p)%nat -> ~ h == 0 ->
  defined e p -> defined e (shift p i h) -> defined e (shift p i (- h)) ->
  central (evalQ e) p i h ==
  evalQ (D e i) p + h * h * ((r3 (taylor e p i h) + r3 (taylor e p i (- h))) / 2).
Proof.
  intros e p i h Hi Hh Hd Hp Hm. rewrite central_shift.
  destruct (taylor_sound e p i h Hi Hd Hp) as [A [A0 A1]].
  destruct (taylor_sound e p i (- h) Hi Hd Hm) as [B [B0 B1]].
  destruct (taylor_coeffs_indep e p i (- h) h) as [E0 [E1 E2]].
  rewrite A, B. unfold expand. rewrite E0, E1, E2. rewrite <- A1. field. exact Hh.
Qed.

(* polynomials: vanishing of the higher Taylor data *)
Definition ord (j : jet) (d : nat) : Prop :=
  ((d <= 0)%nat -> c1 j == 0) /\ ((d <= 1)%nat -> c2 j == 0) /\ ((d <= 2)%nat -> r3 j == 0).

Lemma ord_mul : forall h ja jb x y, ord ja x -> ord jb y -> ord (jmul h ja jb) (x + y).
Proof.
  intros h ja jb x y [a1 [a2 a3]] [b1 [b2 b3]]. unfold ord, jmul. cbn [c0 c1 c2 r3]. repeat split; intros Hk.
  - rewrite a1, b1 by lia. ring.
  - destruct (le_gt_dec x 0).
    + rewrite a1, a2, b2 by lia. ring.
    + rewrite a2, b1, b2 by lia. ring.
  - destruct (le_gt_dec x 0); [|destruct (le_gt_dec x 1)].
    + rewrite a1, a2, a3, b3 by lia. ring.
    + rewrite a2, a3, b2, b3 by lia. ring.
    + rewrite a3, b1, b2, b3 by lia. ring.
Qed.

Lemma ord_pow : forall h ja x n, ord ja x -> ord (jpow h ja n) (n * x).
Proof.
  intros h ja x n Ha. induction n as [|m IH]; cbn [jpow].
  - unfold ord. cbn [c1 c2 r3]. repeat split; reflexivity.
  - change (S m * x)%nat with (x + m * x)%nat. apply ord_mul; assumption.
Qed.

Lemma ord_weaken : forall j d d', (d <= d')%nat -> ord j d -> ord j d'.
Proof. intros j d d' Hle [a [b c]]. unfold ord. repeat split; intros; [apply a | apply b | apply c]; lia. Qed.

Lemma taylor_ord : forall e p i h d, degree e = Some d -> ord (taylor e p i h) d.
Proof.
  induction e as [q|v|e1 IHe1 e2 IHe2|e1 IHe1 e2 IHe2|e1 IHe1 e2 IHe2|e1 IHe1 e2 IHe2|e IHe|e IHe n]; intros p i h d Hdeg; cbn [degree taylor] in *; cbv zeta.
  - inversion Hdeg. unfold ord; cbn [c1 c2 r3]. repeat split; reflexivity.
  - inversion Hdeg. unfold ord; cbn [c1 c2 r3]. repeat split; intros; try reflexivity; lia.
  - destruct (degree e1) as [x|] eqn:E1; [|discriminate]. destruct (degree e2) as [y|] eqn:E2; [|discriminate].
    inversion Hdeg; subst d.
    destruct (ord_weaken _ x (Nat.max x y) (Nat.le_max_l x y) (IHe1 p i h x eq_refl)) as [a1 [a2 a3]].
    destruct (ord_weaken _ y (Nat.max x y) (Nat.le_max_r x y) (IHe2 p i h y eq_refl)) as [b1 [b2 b3]].
    unfold ord; cbn [c1 c2 r3]. repeat split; intros Hk.
    + rewrite a1, b1 by exact Hk. ring.
    + rewrite a2, b2 by exact Hk. ring.
    + rewrite a3, b3 by exact Hk. ring.
  - destruct (degree e1) as [x|] eqn:E1; [|discriminate]. destruct (degree e2) as [y|] eqn:E2; [|discriminate].
    inversion Hdeg; subst d.
    destruct (ord_weaken _ x (Nat.max x y) (Nat.le_max_l x y) (IHe1 p i h x eq_refl)) as [a1 [a2 a3]].
    destruct (ord_weaken _ y (Nat.max x y) (Nat.le_max_r x y) (IHe2 p i h y eq_refl)) as [b1 [b2 b3]].
    unfold ord; cbn [c1 c2 r3]. repeat split; intros Hk.
    + rewrite a1, b1 by exact Hk. ring.
    + rewrite a2, b2 by exact Hk. ring.
    + rewrite a3, b3 by exact Hk. ring.
  - destruct (degree e1) as [x|] eqn:E1; [|discriminate]. destruct (degree e2) as [y|] eqn:E2; [|discriminate].
    inversion Hdeg; subst d. apply ord_mul; [apply IHe1 | apply IHe2]; reflexivity.
  - discriminate.
  - destruct (IHe p i h d Hdeg) as [a1 [a2 a3]]. unfold ord; cbn [c1 c2 r3]. repeat split; intros Hk.
    + rewrite a1 by exact Hk. ring.
    + rewrite a2 by exact Hk. ring.
    + rewrite a3 by exact Hk. ring.
  - destruct (degree e) as [x|] eqn:E1; [|discriminate]. inversion Hdeg; subst d.
    apply ord_pow. apply IHe. reflexivity.
Qed.

Lemma poly_defined : forall e p d, degree e = Some d -> defined e p.
Proof.
  induction e as [q|v|e1 IHe1 e2 IHe2|e1 IHe1 e2 IHe2|e1 IHe1 e2 IHe2|e1 IHe1 e2 IHe2|e IHe|e IHe n]; intros p d H; cbn [degree defined] in *; auto.
  - destruct (degree e1) eqn:E1; [|discriminate]. destruct (degree e2) eqn:E2; [|discriminate]. split; eauto.
  - destruct (degree e1) eqn:E1; [|discriminate]. destruct (degree e2) eqn:E2; [|discriminate]. split; eauto.
  - destruct (degree e1) eqn:E1; [|discriminate]. destruct (degree e2) eqn:E2; [|discriminate]. split; eauto.
  - discriminate.
  - eauto.
  - destruct (degree e) eqn:E1; [|discriminate]. eauto.
Qed.

Theorem central_difference_exact_deg2 : forall e p i h d,
  (i < length p)%nat -> ~ h == 0 -> degree e = Some d -> (d <= 2)%nat ->
  central (evalQ e) p i h == evalQ (D e i) p.
Proof.
  intros e p i h d Hi Hh Hdeg Hd.
  rewrite central_difference_error; try assumption; try (eapply poly_defined; eassumption).
  destruct (taylor_ord e p i h d Hdeg) as [_ [_ R1]]. destruct (taylor_ord e p i (- h) d Hdeg) as [_ [_ R2]].
  rewrite R1, R2 by exact Hd. field.
Qed.

(* ---------------------------------------------------------------- the schemes (T6.select) *)
Definition set_all (c : nat -> Q) (idxs : list nat) (g : list Q) : list Q :=
  fold_left (fun g idx => upd idx (c idx) g) idxs g.

Lemma ng_loop_eq : forall f eps idxs x grad,
  ng_loop f eps idxs x grad = (x, set_all (fun idx => central f x idx eps) idxs grad).
Proof.
  intros f eps idxs. induction idxs as [|idx rest IH]; intros x grad; cbn [ng_loop set_all fold_left]; [reflexivity|].
  cbv zeta. rewrite !upd_upd. unfold coord at 1. rewrite upd_nth_id. rewrite IH. reflexivity.
Qed.

Lemma set_all_length : forall c idxs g, length (set_all c idxs g) = length g.
Proof.
  intros c idxs. unfold set_all. induction idxs as [|i r IH]; intros g; cbn [fold_left]; [reflexivity|].
  rewrite IH. apply upd_length.
Qed.

Lemma set_all_nth : forall c idxs g j,
  (j < length g)%nat -> nth j (set_all c idxs g) 0 = if in_dec Nat.eq_dec j idxs then c j else nth j g 0.
Proof.
  intros c idxs. unfold set_all. induction idxs as [|i r IH]; intros g j Hj; cbn [fold_left]; [reflexivity|].
  rewrite IH by (rewrite upd_length; exact Hj).
  destruct (Nat.eq_dec i j) as [E|E].
  - subst i. rewrite nth_upd_same by exact Hj.
    destruct (in_dec Nat.eq_dec j (j :: r)) as [_|N]; [|exfalso; apply N; now left].
    destruct (in_dec Nat.eq_dec j r); reflexivity.
  - rewrite nth_upd_other by exact E.
    destruct (in_dec Nat.eq_dec j r) as [I|N]; destruct (in_dec Nat.eq_dec j (i :: r)) as [I'|N']; try reflexivity.
    + exfalso. apply N'. now right.
    + exfalso. destruct I' as [H|H]; [apply E; exact H | apply N; exact H].
Qed.

Theorem numeric_grad_spec : forall f x eps,
  length (numeric_grad f x eps) = length x /\
  forall j, (j < length x)%nat -> nth j (numeric_grad f x eps) 0 = central f x j eps.
Proof.
  intros f x eps. unfold numeric_grad. rewrite ng_loop_eq. cbn [snd]. split.
  - rewrite set_all_length. apply map_length.
  - intros j Hj. rewrite set_all_nth by (rewrite map_length; exact Hj).
    destruct (in_dec Nat.eq_dec j (seq 0 (length x))) as [_|N]; [reflexivity|].
    exfalso. apply N. apply in_seq. lia.
Qed.

(* the write-back: x is what it was after the loop *)
Theorem numeric_grad_writes_back : forall f x eps idxs grad, fst (ng_loop f eps idxs x grad) = x.
Proof. intros. rewrite ng_loop_eq. reflexivity. Qed.

Lemma nth_map_seq : forall A (F : nat -> A) n i d, (i < n)%nat -> nth i (map F (seq 0 n)) d = F i.
Proof.
  intros A F n i d Hi. rewrite (nth_indep _ d (F 0%nat)) by (rewrite map_length, seq_length; exact Hi).
  rewrite map_nth. rewrite seq_nth by exact Hi. reflexivity.
Qed.

Theorem multi_numeric_grad_spec : forall loss params eps i j,
  (i < length params)%nat -> (j < length (nth i params []))%nat ->
  nth j (nth i (multi_numeric_grad loss params eps) []) 0 =
  central (fun v => loss (upd i v params)) (nth i params []) j eps.
Proof.
  intros loss params eps i j Hi Hj. unfold multi_numeric_grad.
  rewrite nth_map_seq by exact Hi.
  apply (proj2 (numeric_grad_spec _ _ _)). exact Hj.
Qed.

Theorem numeric_jacobian_spec : forall g x eps i j,
  (i < length (g x))%nat -> (j < length x)%nat ->
  nth j (nth i (numeric_jacobian g x eps) []) 0 = central (fun v => nth i (g v) 0) x j eps.
Proof.
  intros g x eps i j Hi Hj. unfold numeric_jacobian.
  rewrite nth_map_seq by exact Hi. rewrite nth_map_seq by exact Hj. reflexivity.
Qed.

(* numeric gradient of an expression = its derivative + eps^2 * explicit remainder *)
Theorem numeric_grad_accuracy : forall e x eps j,
  (j < length x)%nat -> ~ eps == 0 ->
  defined e x -> defined e (shift x j eps) -> defined e (shift x j (- eps)) ->
  nth j (numeric_grad (evalQ e) x eps) 0 ==
  evalQ (D e j) x + eps * eps * ((r3 (taylor e x j eps) + r3 (taylor e x j (- eps))) / 2).
Proof.
  intros e x eps j Hj He Hd Hp Hm.
  rewrite (proj2 (numeric_grad_spec (evalQ e) x eps) j Hj).
  apply central_difference_error; assumption.
Qed.
