(* C06/Run.v — S-expression front end, extracted to OCaml.
   requests
     (oracle <expr> <point> <n>)     -> (ok <defined 0|1> <min |denominator| or none> <f> (<df/dx_i> i<n) (<|.|-magnitude of df/dx_i>) <magnitude of f>)
     (numgrad <expr> <point> <eps>)  -> (ok (<component of Model.numeric_grad over Q> ...))      (the scheme in exact arithmetic)
     (degree <expr>)                 -> (some d) | none
   expr  = (c num den) | (v i) | (add a b) | (sub a b) | (mul a b) | (div a b) | (neg a) | (pow a n)
   point = ((num den) ...)          rationals are answered reduced, as (num den) *)
From Coq Require Import QArith List String Bool.
From KB Require Import Sx.
From C06 Require Import Generated Model.
Import ListNotations.
Open Scope Z_scope.

Definition q_of_sx (x : sx) : option Q :=
  match x with
  | SL [SZ n; SZ d] => match d with Zpos p => Some (n # p) | _ => None end
  | _ => None
  end.
Definition sx_of_q (q : Q) : sx := let r := Qred q in SL [SZ (Qnum r); SZ (Zpos (Qden r))].

Fixpoint opt_all {A B} (f : A -> option B) (l : list A) : option (list B) :=
  match l with
  | [] => Some []
  | a :: r => match f a, opt_all f r with Some b, Some bs => Some (b :: bs) | _, _ => None end
  end.

Fixpoint dexpr_of_sx (fuel : nat) (x : sx) : option dexpr :=
  match fuel with O => None | S f =>
  match x with
  | SL [SS t; SZ a] => if is_tag "v" t then Some (DVar (Z.to_nat a)) else None
  | SL [SS t; SZ n; SZ d] =>
      if is_tag "c" t then option_map DConst (q_of_sx (SL [SZ n; SZ d])) else None
  | SL [SS t; a] =>
      if is_tag "neg" t then option_map DNeg (dexpr_of_sx f a) else None
  | SL [SS t; a; SZ n] =>
      if is_tag "pow" t then option_map (fun e => DPowN e (Z.to_nat n)) (dexpr_of_sx f a) else None
  | SL [SS t; a; b] =>
      match dexpr_of_sx f a, dexpr_of_sx f b with
      | Some ea, Some eb =>
          if is_tag "add" t then Some (DAdd ea eb) else
          if is_tag "sub" t then Some (DSub ea eb) else
          if is_tag "mul" t then Some (DMul ea eb) else
          if is_tag "div" t then Some (DDiv ea eb) else None
      | _, _ => None
      end
  | _ => None
  end end.

Definition point_of_sx (x : sx) : option point :=
  match x with SL l => opt_all q_of_sx l | _ => None end.

Definition dispatch (x : sx) : sx :=
  match x with
  | SL [SS t; e; p; SZ n] =>
      if is_tag "oracle" t then
        match dexpr_of_sx 200 e, point_of_sx p with
        | Some ex, Some pt =>
            let k := Z.to_nat n in
            SL [sx_w "ok"; sx_bool (definedb ex pt);
                match min_denominator ex pt with Some q => sx_of_q q | None => sx_w "none" end;
                sx_of_q (evalQ ex pt);
                SL (map sx_of_q (gradQ ex k pt));
                SL (map (fun i => sx_of_q (evalAbs (D ex i) pt)) (seq 0 k));
                sx_of_q (evalAbs ex pt)]
        | _, _ => sx_err "decode"
        end
      else sx_err "op"
  | SL [SS t; e; p; SL eps] =>
      if is_tag "numgrad" t then
        match dexpr_of_sx 200 e, point_of_sx p, q_of_sx (SL eps) with
        | Some ex, Some pt, Some h => SL [sx_w "ok"; SL (map sx_of_q (numeric_grad (evalQ ex) pt h))]
        | _, _, _ => sx_err "decode"
        end
      else sx_err "op"
  | SL [SS t; e] =>
      if is_tag "degree" t then
        match dexpr_of_sx 200 e with
        | Some ex => match degree ex with Some d => SL [sx_w "some"; sx_nat d] | None => sx_w "none" end
        | None => sx_err "decode"
        end
      else sx_err "op"
  | _ => sx_err "shape"
  end.

Require Import ExtrOcamlBasic.
Extraction Language OCaml.
Extraction "extracted.ml" dispatch drv_add drv_mul drv_opp drv_div_eucl drv_ltb drv_eqb.
