(* C01/Model.v — executable model of klongpy's primitive verbs on literal operands.
   NO proofs in this file (it must build and extract when a proof is broken).

   Values are representation-free (nested lists); the NumPy representation the code
   branches on (dtype == object, ndim, shape, size) is a FUNCTION of the abstract value
   for operands that come from literal text (kg_read + kg_asarray):
     rshape v = Some shape   iff v becomes a non-object ndarray (rectangular, all leaves numbers; [] is float64 (0,))
     otherwise a list becomes a 1-D object ndarray of its members  — provided `canonical v`;
     (a list whose members are all lists of one length but not numeric becomes a >=2-D object array:
      `canonical v = false`, the model answers Unmod and the harness checks such operands against Spec only).
   Reals are binary64 via Coq.Floats.SpecFloat (bit exact + - * % comparisons floor).
   `norm` is kg_asarray's homogenisation: a rectangular numeric block holding one real becomes all-real. *)
From Coq Require Import ZArith List Bool String.
From Coq Require Import Floats.SpecFloat.
From C01 Require Import Generated.
Import ListNotations.
Open Scope Z_scope.

Definition real := spec_float.

Inductive val :=
| VI (z : Z)            (* integer *)
| VR (r : real)         (* real, binary64 *)
| VC (c : Z)            (* character (code point) *)
| VS (s : list Z)       (* string *)
| VY (s : list Z)       (* symbol *)
| VL (l : list val)     (* list *)
| VU.                   (* :undefined *)

Inductive result (A : Type) :=
| Ok (a : A)
| Err                   (* the Python code raises *)
| Unmod                 (* outside the modelled fragment (never inside dom /\ ~K, see Properties) *)
| NoFuel.
Arguments Ok {A} a. Arguments Err {A}. Arguments Unmod {A}. Arguments NoFuel {A}.
Definition res := result val.

Definition bind {A B} (r : result A) (f : A -> result B) : result B :=
  match r with Ok a => f a | Err => Err | Unmod => Unmod | NoFuel => NoFuel end.

Section RMap.
  Context {A B : Type} (f : A -> result B).
  Fixpoint rmap (l : list A) : result (list B) :=
    match l with
    | [] => Ok []
    | x :: r => bind (f x) (fun y => bind (rmap r) (fun ys => Ok (y :: ys)))
    end.
End RMap.

(* zip of equal-length lists; a length mismatch is the `assert len(a) == len(b)` *)
Section RZip.
  Context {A B C : Type} (f : A -> B -> result C).
  Fixpoint rzip (la : list A) (lb : list B) : result (list C) :=
    match la, lb with
    | [], [] => Ok []
    | x :: la', y :: lb' => bind (f x y) (fun z => bind (rzip la' lb') (fun zs => Ok (z :: zs)))
    | _, _ => Err
    end.
End RZip.

Definition okl (r : result (list val)) : res := bind r (fun l => Ok (VL l)).
Definition zlen {A} (l : list A) : Z := Z.of_nat (List.length l).

(* ------------------------------------------------------------------ reals *)
Definition rofZ (z : Z) : real := binary_normalize 53 1024 z 0 false.
Definition radd := SFadd 53 1024.
Definition rsub := SFsub 53 1024.
Definition rmul := SFmul 53 1024.
Definition rdiv := SFdiv 53 1024.
Definition int64_min : Z := -9223372036854775808.
Definition two63 : Z := 9223372036854775808.

Definition clip64 (z : Z) : Z := if (z <? - two63) || (two63 <=? z) then int64_min else z.

(* np.floor(x).astype(int) : out-of-range and non-finite values give the x86 "integer indefinite" *)
Definition rfloor_exact (r : real) : option Z :=
  match r with
  | S754_zero _ => Some 0
  | S754_finite s m e =>
      let v := if s then Zneg m else Zpos m in
      Some (if 0 <=? e then v * 2 ^ e else v / 2 ^ (- e))
  | _ => None
  end.
Definition rfloor (r : real) : Z :=
  match rfloor_exact r with Some z => clip64 z | None => int64_min end.

Definition bits_of_real (r : real) : Z :=
  match r with
  | S754_zero s => if s then two63 else 0
  | S754_infinity s => (if s then two63 else 0) + 2047 * 2 ^ 52
  | S754_nan => 2047 * 2 ^ 52 + 2 ^ 51
  | S754_finite s m e =>
      (if s then two63 else 0) +
      (if Zpos m <? 2 ^ 52 then Zpos m else (e + 1075) * 2 ^ 52 + (Zpos m - 2 ^ 52))
  end.

Definition real_of_bits (b : Z) : real :=
  let s := two63 <=? b in
  let b' := b mod two63 in
  let ex := b' / 2 ^ 52 in
  let mant := b' mod 2 ^ 52 in
  if ex =? 2047 then (if mant =? 0 then S754_infinity s else S754_nan)
  else if ex =? 0 then (match mant with Zpos m => S754_finite s m (-1074) | _ => S754_zero s end)
  else match mant + 2 ^ 52 with Zpos m => S754_finite s m (ex - 1075) | _ => S754_nan end.

Definition is_real_zero (r : real) : bool := match r with S754_zero _ => true | _ => false end.

(* ------------------------------------------------------------------ representation queries *)
Fixpoint list_eqb {A} (eq : A -> A -> bool) (a b : list A) : bool :=
  match a, b with
  | [], [] => true
  | x :: a', y :: b' => eq x y && list_eqb eq a' b'
  | _, _ => false
  end.

Definition shape_eqb (a b : option (list nat)) : bool :=
  match a, b with
  | Some x, Some y => list_eqb Nat.eqb x y
  | _, _ => false
  end.

(* Some shape iff the literal becomes a non-object ndarray *)
Fixpoint rshape (v : val) : option (list nat) :=
  match v with
  | VI _ | VR _ => Some []
  | VL l =>
      match l with
      | [] => Some [O]
      | x :: r =>
          match rshape x with
          | Some s =>
              if forallb (fun y => shape_eqb (rshape y) (Some s)) r
              then Some (List.length l :: s)
              else None
          | None => None
          end
      end
  | _ => None
  end.

Definition is_arr (v : val) : bool := match v with VL _ => true | _ => false end.
Definition is_rect (v : val) : bool := match v with VL _ => (match rshape v with Some _ => true | None => false end) | _ => false end.
Definition is_obj (v : val) : bool := is_arr v && negb (is_rect v).
Definition is_num (v : val) : bool := match v with VI _ | VR _ => true | _ => false end.
Definition is_strlike (v : val) : bool := match v with VC _ | VS _ | VY _ => true | _ => false end.

(* number of array dimensions NumPy sees: rect -> ndim, object -> 1 (canonical), everything else 0 *)
Definition npdepth (v : val) : nat :=
  match v with
  | VL _ => match rshape v with Some s => List.length s | None => 1%nat end
  | _ => O
  end.
(* the same, but an object array counts as a scalar (leaf function of vec_fn2) *)
Definition rdepth (v : val) : nat :=
  match v with
  | VL _ => match rshape v with Some s => List.length s | None => O end
  | _ => O
  end.

Definition all_lists_same_len (l : list val) : bool :=
  match l with
  | VL x :: r => forallb (fun y => match y with VL z => (List.length z =? List.length x)%nat | _ => false end) r
  | _ => false
  end.

(* the object array kg_asarray builds for this value is 1-D at every level *)
Fixpoint canonical (v : val) : bool :=
  match v with
  | VL l => if is_rect v then true else negb (all_lists_same_len l) && forallb canonical l
  | _ => true
  end.

Fixpoint has_real (v : val) : bool :=
  match v with
  | VR _ => true
  | VL l => existsb has_real l
  | _ => false
  end.

Fixpoint to_real (v : val) : val :=
  match v with
  | VI z => VR (rofZ z)
  | VL l => VL (map to_real l)
  | other => other
  end.

(* kg_asarray on the abstract value: maximal rectangular numeric blocks are homogenised *)
Fixpoint norm (v : val) : val :=
  match v with
  | VL l => if is_rect v then (if has_real v then to_real v else v) else VL (map norm l)
  | other => other
  end.

Fixpoint prodn (s : list nat) : nat := match s with [] => 1%nat | d :: r => (d * prodn r)%nat end.

(* a.size *)
Definition array_size (v : val) : Z :=
  match v with
  | VL l => match rshape v with Some s => Z.of_nat (prodn s) | None => zlen l end
  | _ => 1
  end.

(* flatten n array levels *)
Fixpoint flat (n : nat) (v : val) : list val :=
  match n with
  | O => [v]
  | S n' => match v with VL l => flat_map (flat n') l | _ => [v] end
  end.

(* ndarray.flatten() / ravel of the NumPy array of v *)
Definition np_flat (v : val) : list val := flat (npdepth v) v.

(* reshape a flat list *)
Fixpoint build (shape : list nat) (l : list val) : val :=
  match shape with
  | [] => hd VU l
  | d :: rest =>
      let sz := prodn rest in
      VL (map (fun i => build rest (firstn sz (skipn (i * sz) l))) (seq 0 d))
  end.

Definition chars (s : list Z) : list val := map VC s.
(* "".join(r): every member must be a str (KGChar, str, KGSym are) *)
Fixpoint join_strs (l : list val) : result (list Z) :=
  match l with
  | [] => Ok []
  | VC c :: r => bind (join_strs r) (fun s => Ok (c :: s))
  | VS t :: r => bind (join_strs r) (fun s => Ok (t ++ s))
  | VY t :: r => bind (join_strs r) (fun s => Ok (t ++ s))
  | _ => Err
  end.
Definition joined (l : list val) : res := bind (join_strs l) (fun s => Ok (VS s)).

(* the shape NumPy sees: rect -> its shape, object array -> [len] *)
Definition npshape (v : val) : option (list nat) :=
  match v with
  | VL l => match rshape v with Some s => Some s | None => Some [List.length l] end
  | _ => None
  end.

(* ------------------------------------------------------------------ NumPy broadcasting
   bc elem da db a b : a, b seen as arrays of da / db dimensions (their members below that are scalars
   to NumPy); shapes are aligned at the TRAILING dimension, a dimension of 1 is stretched. *)
Fixpoint bc (n : nat) (elem : val -> val -> res) (da db : nat) (a b : val) : res :=
  match n with
  | O => NoFuel
  | S n' =>
      match da, db with
      | O, O => elem a b
      | O, S db' => match b with VL lb => okl (rmap (fun y => bc n' elem O db' a y) lb) | _ => Err end
      | S da', O => match a with VL la => okl (rmap (fun x => bc n' elem da' O x b) la) | _ => Err end
      | S da', S db' =>
          match a, b with
          | VL la, VL lb =>
              if (da' <? db')%nat then okl (rmap (fun y => bc n' elem da db' a y) lb)
              else if (db' <? da')%nat then okl (rmap (fun x => bc n' elem da' db x b) la)
              else if (List.length la =? List.length lb)%nat then okl (rzip (bc n' elem da' db') la lb)
              else if (List.length la =? 1)%nat then okl (rmap (fun y => bc n' elem da' db' (hd VU la) y) lb)
              else if (List.length lb =? 1)%nat then okl (rmap (fun x => bc n' elem da' db' x (hd VU lb)) la)
              else Err
          | _, _ => Err
          end
      end
  end.

Definition bcast (elem : val -> val -> res) (da db : nat) (a b : val) : res :=
  bc (S (da + db)) elem da db a b.

(* how a ufunc treats object arrays *)
Inductive objmode := ObjRec   (* object loop calls the Python operator, which recurses into member arrays (add subtract multiply divide) *)
                   | ObjCmp   (* minimum / maximum: rich comparison of members; member arrays of size <> 1 raise *)
                   | ObjNone. (* fmod: no object loop, raises *)

(* np.<ufunc>(a, b) called directly on the operands *)
Fixpoint np2 (fuel : nat) (mode : objmode) (sf sfpy : val -> val -> res) (a b : val) : res :=
  match fuel with
  | O => NoFuel
  | S fuel' =>
      if (is_obj a || is_obj b) && (match mode with ObjNone => true | _ => false end) then Err else
      (* a str operand becomes a '<U' array: whether a loop exists depends on the other operand's dtype *)
      if is_strlike a || is_strlike b then Unmod else
      bcast (fun x y =>
               if is_arr x || is_arr y then
                 match mode with
                 | ObjRec => np2 fuel' mode sf sfpy x y
                 | ObjCmp => if (array_size x =? 1) && (array_size y =? 1) then Unmod else Err
                 | ObjNone => Err
                 end
               else if is_obj a || is_obj b then sfpy x y   (* members of object arrays are Python scalars *)
               else sf x y)
            (npdepth a) (npdepth b) a b
  end.

(* leaf of vec_fn2: neither operand is an object array; f is a NumPy-vectorised scalar function *)
Definition leaf2 (sf : val -> val -> res) (a b : val) : res := bcast sf (rdepth a) (rdepth b) a b.
(* the same for leaf functions that call a numeric ufunc (np.less, np.divide): a str against an array is not modelled *)
Definition leaf2n (sf : val -> val -> res) (a b : val) : res :=
  if (is_strlike a && is_arr b) || (is_arr a && is_strlike b) then Unmod else leaf2 sf a b.

(* BackendProvider.vec_fn2 ; every list of results goes through kg_asarray (norm) *)
Fixpoint vec2 (fuel : nat) (leaf : val -> val -> res) (a b : val) : res :=
  match fuel with
  | O => NoFuel
  | S f' =>
      match a, b with
      | VL la, VL lb =>
          if is_obj a || is_obj b
          then bind (rzip (vec2 f' leaf) la lb) (fun l => Ok (norm (VL l)))
          else leaf a b
      | VL la, _ =>
          if is_obj a then bind (rmap (fun x => vec2 f' leaf x b) la) (fun l => Ok (norm (VL l)))
          else leaf a b
      | _, VL lb =>
          if is_obj b then bind (rmap (fun y => vec2 f' leaf a y) lb) (fun l => Ok (norm (VL l)))
          else leaf a b
      | _, _ => leaf a b
      end
  end.

(* BackendProvider.vec_fn : results are collected with np.asarray(dtype=object): no homogenisation;
   `_is_list(x)`: non-empty arrays recurse, everything else (also []) is given to f *)
Fixpoint vec1 (fuel : nat) (f : val -> res) (a : val) : res :=
  match fuel with
  | O => NoFuel
  | S f' =>
      match a with
      | VL la =>
          if is_obj a
          then okl (rmap (fun x => match x with VL (_ :: _) => vec1 f' f x | _ => f x end) la)
          else f a
      | _ => f a
      end
  end.

(* f is NumPy-vectorised over a non-object array *)
Fixpoint map_leaves (n : nat) (sf : val -> res) (a : val) : res :=
  match n with
  | O => sf a
  | S n' => match a with VL l => okl (rmap (map_leaves n' sf) l) | _ => Err end
  end.
Definition leaf1 (sf : val -> res) (a : val) : res := map_leaves (rdepth a) sf a.

Fixpoint depth (v : val) : nat :=
  match v with
  | VL l => S (fold_right (fun x acc => Nat.max (depth x) acc) O l)
  | _ => O
  end.
Definition fuel2 (a b : val) : nat := S (depth a + depth b).

(* ------------------------------------------------------------------ scalar functions *)
Definition toR (v : val) : option real :=
  match v with VI z => Some (rofZ z) | VR r => Some r | _ => None end.

Definition arith (fi : Z -> Z -> Z) (fr : real -> real -> real) (a b : val) : res :=
  match a, b with
  | VI x, VI y => Ok (VI (fi x y))
  | VI x, VR y => Ok (VR (fr (rofZ x) y))
  | VR x, VI y => Ok (VR (fr x (rofZ y)))
  | VR x, VR y => Ok (VR (fr x y))
  | _, _ => Unmod
  end.

Definition sc_add := arith Z.add radd.
Definition sc_sub := arith Z.sub rsub.
Definition sc_mul := arith Z.mul rmul.
Definition rmin (x y : real) : real := if SFleb x y then x else y.
Definition rmax (x y : real) : real := if SFleb y x then x else y.
Definition sc_min := arith Z.min rmin.
Definition sc_max := arith Z.max rmax.
Definition sc_div (a b : val) : res :=
  match toR a, toR b with
  | Some x, Some y => Ok (VR (rdiv x y))
  | _, _ => Unmod
  end.
(* Python's / on int and float: a zero divisor raises ZeroDivisionError *)
Definition sc_div_py (a b : val) : res :=
  match b with
  | VI 0 => Err
  | VR r => if is_real_zero r then Err else sc_div a b
  | _ => sc_div a b
  end.
(* np.fmod on int64: C remainder, truncated; a zero divisor gives 0 *)
Definition sc_fmod (a b : val) : res :=
  match a, b with
  | VI x, VI y => Ok (VI (if y =? 0 then 0 else Z.rem x y))
  | _, _ => Unmod
  end.
(* int(trunc(x / y)) through binary64; for |x|,|y| < 2^53 this is the truncated quotient (assumed, sampled) *)
Definition sc_idiv (a b : val) : res :=
  match a, b with
  | VI x, VI y => if y =? 0 then Unmod else Ok (VI (Z.quot x y))
  | _, _ => Unmod
  end.

Definition b2v (b : bool) : val := VI (if b then 1 else 0).

Fixpoint zs_ltb (a b : list Z) : bool :=
  match a, b with
  | _, [] => false
  | [], _ :: _ => true
  | x :: a', y :: b' => (x <? y) || ((x =? y) && zs_ltb a' b')
  end.
Definition zs_eqb := list_eqb Z.eqb.
Definition text_of (v : val) : option (list Z) :=
  match v with VC c => Some [c] | VS s => Some s | VY s => Some s | _ => None end.

(* x < y if both str else np.less(x, y) *)
Definition sc_less (a b : val) : res :=
  match a, b with
  | VI x, VI y => Ok (b2v (x <? y))
  | VI x, VR y => Ok (b2v (SFltb (rofZ x) y))
  | VR x, VI y => Ok (b2v (SFltb x (rofZ y)))
  | VR x, VR y => Ok (b2v (SFltb x y))
  | _, _ =>
      match text_of a, text_of b with
      | Some s, Some t => Ok (b2v (zs_ltb s t))
      | _, _ => Unmod
      end
  end.
Definition sc_more (a b : val) : res := sc_less b a.

(* np.asarray(x, dtype=object) == np.asarray(y, dtype=object) on scalars: Python == *)
Definition sc_equal (a b : val) : res :=
  match a, b with
  | VI x, VI y => Ok (b2v (x =? y))
  | VI x, VR y => Ok (b2v (SFeqb (rofZ x) y))
  | VR x, VI y => Ok (b2v (SFeqb x (rofZ y)))
  | VR x, VR y => Ok (b2v (SFeqb x y))
  | VY s, VY t => Ok (b2v (zs_eqb s t))
  | VY _, _ | _, VY _ => Ok (b2v false)             (* KGSym.__eq__ *)
  | VU, _ | _, VU => Unmod
  | VL _, _ | _, VL _ => Unmod
  | _, _ =>
      match text_of a, text_of b with
      | Some s, Some t => Ok (b2v (zs_eqb s t))      (* KGChar and str are both str *)
      | _, _ => Ok (b2v false)
      end
  end.

(* ------------------------------------------------------------------ atomic dyads *)
Definition both_atoms_zero_divisor (a b : val) : bool :=
  negb (is_arr a) && negb (is_arr b) &&
  match b with VI y => y =? 0 | VR y => is_real_zero y | _ => false end.

Definition m_add (a b : val) : res := np2 (fuel2 a b) ObjRec sc_add sc_add a b.
Definition m_sub (a b : val) : res := np2 (fuel2 a b) ObjRec sc_sub sc_sub a b.
Definition m_mul (a b : val) : res := np2 (fuel2 a b) ObjRec sc_mul sc_mul a b.
(* since the fix: commit these three go through vec_fn2 like the comparison verbs *)
Definition m_min (a b : val) : res := vec2 (fuel2 a b) (leaf2n sc_min) a b.
Definition m_max (a b : val) : res := vec2 (fuel2 a b) (leaf2n sc_max) a b.
Definition m_rem (a b : val) : res := vec2 (fuel2 a b) (leaf2n sc_fmod) a b.
Definition m_div (a b : val) : res :=
  if both_atoms_zero_divisor a b then Ok VU else np2 (fuel2 a b) ObjRec sc_div sc_div_py a b.
Definition m_idiv (a b : val) : res :=
  if both_atoms_zero_divisor a b then Ok VU else vec2 (fuel2 a b) (leaf2n sc_idiv) a b.
Definition m_less (a b : val) : res := vec2 (fuel2 a b) (leaf2n sc_less) a b.
Definition m_more (a b : val) : res := vec2 (fuel2 a b) (leaf2n sc_more) a b.
Definition m_equal (a b : val) : res := vec2 (fuel2 a b) (leaf2 sc_equal) a b.

(* ------------------------------------------------------------------ atomic monads *)
Definition sc_neg (a : val) : res :=
  match a with VI x => Ok (VI (- x)) | VR x => Ok (VR (SFopp x)) | _ => Unmod end.
Definition m_negate (a : val) : res := vec1 (S (depth a)) (leaf1 sc_neg) a.

(* floor_to_int on one number: an integer when the floored value is inside the int64 range, otherwise the floored real *)
(* the guard `np.abs(result) < 2.0**63`; strict = false models `<=` (the real 2^63 passes and astype(int) wraps it) *)
Definition in_guard (strict : bool) (z : Z) : bool := if strict then Z.abs z <? two63 else Z.abs z <=? two63.
Definition floor_fits_gen (strict : bool) (v : val) : bool :=
  match v with
  | VI _ => true
  | VR r => match rfloor_exact r with Some z => in_guard strict z | None => false end
  | _ => false
  end.
Definition sc_floor_gen (strict : bool) (a : val) : res :=
  match a with
  | VI x => Ok (VI x)
  | VR r => match rfloor_exact r with
            | Some z => if in_guard strict z then Ok (VI (clip64 z)) else Ok (VR r)
            | None => Ok (VR r)
            end
  | _ => Unmod
  end.
Definition floor_fits := floor_fits_gen floor_guard_strictly_below_2_63.
Definition sc_floor := sc_floor_gen floor_guard_strictly_below_2_63.
Fixpoint forall_leaves (p : val -> bool) (a : val) : bool :=
  match a with VL l => forallb (forall_leaves p) l | _ => p a end.
(* on a numeric array the test `np.all(abs(result) < 2**63)` is taken once for the whole array: one element beyond
   the range keeps every element real (np.floor of each) — abstractly the homogenisation of the element-wise result *)
Definition floor_leaf (a : val) : res :=
  if forall_leaves floor_fits a then leaf1 sc_floor a
  else bind (leaf1 sc_floor a) (fun v => Ok (norm v)).
Definition m_floor (a : val) : res := vec1 (S (depth a)) floor_leaf a.

Definition sc_recip (a : val) : res :=
  match toR a with Some x => Ok (VR (rdiv (rofZ 1) x)) | None => Unmod end.
Definition m_recip (a : val) : res :=
  match a with
  | VI 0 => Ok VU
  | VR r => if is_real_zero r then Ok VU else sc_recip a
  | _ => vec1 (S (depth a)) (leaf1 sc_recip) a
  end.

Definition sc_char (a : val) : res :=
  match a with VI x => if (0 <=? x) && (x <? 1114112) then Ok (VC x) else Err | VL _ => Ok a (* an empty list stays *) | _ => Unmod end.
(* rec_fn: `_is_list` — a non-empty array recurses (results through kg_asarray), anything else is given to f *)
Fixpoint rec1 (fuel : nat) (f : val -> res) (a : val) : res :=
  match fuel with
  | O => NoFuel
  | S f' =>
      match a with
      | VL (x :: r) => bind (rmap (rec1 f' f) (x :: r)) (fun l => Ok (norm (VL l)))
      | _ => f a
      end
  end.
Definition m_char (a : val) : res :=
  match a with VL _ => rec1 (S (depth a)) sc_char a | _ => sc_char a end.

(* ------------------------------------------------------------------ simple monads *)
Definition is_empty (v : val) : bool := match v with VL [] | VS [] => true | _ => false end.
Definition is_iterable (v : val) : bool := match v with VL _ | VS _ => true | _ => false end.

Definition m_atom (a : val) : res :=
  Ok (b2v (match a with VL (_ :: _) | VS (_ :: _) => false | _ => true end)).

Definition m_size (a : val) : res :=
  match a with
  | VI x => Ok (VI (Z.abs x))
  | VR x => Ok (VR (SFabs x))
  | VC c => Ok (VI c)
  | VS s => Ok (VI (zlen s))
  | VL l => Ok (VI (zlen l))
  | VY s => Ok (VI (zlen s))     (* KGSym is a str: len *)
  | VU => Err
  end.

(* a if empty or not iterable else a[0] (a character for a string) *)
Definition m_first (a : val) : res :=
  match a with
  | VL (x :: _) => Ok x
  | VS (c :: _) => Ok (VC c)      (* KGChar(a[0]) since the fix: commit *)
  | _ => Ok a
  end.

Definition m_list (a : val) : res :=
  match a with
  | VC c => Ok (VS [c])
  | _ => Ok (norm (VL [a]))
  end.

Definition m_enumerate (a : val) : res :=
  match a with
  | VI n => Ok (VL (map (fun i => VI (Z.of_nat i)) (seq 0 (Z.to_nat n))))
  | _ => Err
  end.

(* a[::-1] — or, when the guard of the fix: commit is present, atoms are returned unchanged *)
Definition m_reverse_gen (guards_atoms : bool) (a : val) : res :=
  match a with
  | VL l => Ok (VL (rev l))
  | VS s => Ok (VS (rev s))
  | VC c => if guards_atoms then Ok a else Ok (VS [c])
  | VY s => if guards_atoms then Ok a else Ok (VS (rev s))
  | _ => if guards_atoms then Ok a else Err
  end.
Definition m_reverse := m_reverse_gen reverse_guards_atoms.

(* np.repeat(np.arange(len(arr)), arr) *)
Fixpoint expand_from (i : nat) (l : list val) : result (list val) :=
  match l with
  | [] => Ok []
  | VI n :: r => if n <? 0 then Err else bind (expand_from (S i) r) (fun t => Ok (repeat (VI (Z.of_nat i)) (Z.to_nat n) ++ t))
  | _ => Unmod
  end.
Definition m_expand (a : val) : res :=
  match a with
  | VL [] => Ok (VL [])
  | VL l => if (npdepth a =? 1)%nat then okl (expand_from 0 l) else Unmod
  | VI _ => okl (expand_from 0 [a])
  | _ => Unmod
  end.

(* ------------------------------------------------------------------ structural dyads *)
(* Python b[:n] / b[n:] for n >= 0 *)
Definition py_head (n : Z) (l : list val) : list val := firstn (Z.to_nat n) l.
Definition py_tail (n : Z) (l : list val) : list val := skipn (Z.to_nat n) l.
(* b[a:] for a < 0: the last |a| members, everything when |a| > len *)
Definition py_last (n : Z) (l : list val) : list val := skipn (Z.to_nat (zlen l - n)) l.
(* b[:a] for a < 0: all but the last |a| *)
Definition py_but_last (n : Z) (l : list val) : list val := firstn (Z.to_nat (zlen l - n)) l.

Fixpoint tile (k : nat) (l : list val) : list val :=
  match k with O => [] | S k' => l ++ tile k' l end.

Definition as_members (b : val) : option (bool * list val) :=
  match b with
  | VS s => Some (true, chars s)
  | VL l => Some (false, l)
  | _ => None
  end.
Definition rejoin (j : bool) (l : list val) : res := if j then joined l else Ok (VL l).

(* eval_dyad_take *)
Definition m_take (a b : val) : res :=
  match a, as_members b with
  | VI n, Some (j, l) =>
      let aa := Z.abs n in
      let len := zlen l in
      let size := len in       (* len(b): the members are counted (rows of a matrix) since the fix: commit *)
      if size =? 0 then rejoin j l
      else if size <? aa then
          let t := tile (Z.to_nat (aa / len)) l in
          let r := aa - zlen t in
          let t2 := if 0 <? n then t ++ py_head r t
                    else (if r =? 0 then t else py_last r t) ++ t in
          rejoin j (if n <? 0 then py_last aa t2 else py_head aa t2)
      else rejoin j (if n <? 0 then py_last aa l else py_head aa l)
  | _, _ => Unmod
  end.

(* eval_dyad_drop: b[a:] if a >= 0 else b[:a] *)
Definition m_drop (a b : val) : res :=
  match a, b with
  | VI n, VL l => Ok (VL (if 0 <=? n then py_tail n l else py_but_last (- n) l))
  | VI n, VS s => Ok (VS (if 0 <=? n then skipn (Z.to_nat n) s else firstn (Z.to_nat (zlen s + n)) s))
  | _, _ => Unmod
  end.

(* np.roll(l, n) of a 1-D array *)
Definition roll (n : Z) (l : list val) : list val :=
  match l with
  | [] => []
  | _ => let k := Z.to_nat (n mod zlen l) in
         let m := (List.length l - k)%nat in
         skipn m l ++ firstn m l
  end.

(* eval_dyad_rotate (m_rotate below); np.roll without axis rolls the FLATTENED array and restores the shape
   (rotate_uses_axis0: the fix: commit passes axis=0) *)
Definition m_rotate_gen (uses_axis0 : bool) (a b : val) : res :=
  match a with
  | VI n =>
      if n =? 0 then Ok b else
      match b with
      | VS s => joined (roll n (chars s))
      | VL l =>
          if uses_axis0 then Ok (VL (roll n l)) else
          match rshape b with
          | Some sh => Ok (build sh (roll n (np_flat b)))
          | None => Ok (VL (roll n l))
          end
      | _ => Ok b
      end
  | _ => Unmod
  end.

Definition m_rotate := m_rotate_gen rotate_uses_axis0.

Fixpoint cut_sizes (sizes : list nat) (l : list val) : list (list val) :=
  match sizes with
  | [] => []
  | s :: r => firstn s l :: cut_sizes r (skipn s l)
  end.

(* np.array_split(l, k): k sections, the first (len mod k) one longer *)
Definition array_split_n (k : nat) (l : list val) : list (list val) :=
  let n := List.length l in
  let q := (n / k)%nat in
  let r := (n mod k)%nat in
  cut_sizes (repeat (S q) r ++ repeat q (k - r)) l.

(* np.array_split(l, indices) for non-negative indices: l[0:i0], l[i0:i1], ..., l[ik:] *)
Fixpoint split_at {A} (prev : nat) (idx : list nat) (l : list A) : list (list A) :=
  match idx with
  | [] => [skipn prev l]
  | i :: r => firstn (i - prev) (skipn prev l) :: split_at i r l
  end.

(* the cycling while-loop of eval_dyad_split *)
Fixpoint split_loop {A} (fuel : nat) (sizes cur : list Z) (l : list A) : result (list (list A)) :=
  match fuel with
  | O => NoFuel
  | S f' =>
      match l with
      | [] => Ok []
      | _ =>
          match cur with
          | [] => match sizes with [] => Err | _ => split_loop f' sizes sizes l end
          | s :: cur' =>
              if s <=? 0 then Unmod
              else bind (split_loop f' sizes cur' (skipn (Z.to_nat s) l))
                        (fun r => Ok (firstn (Z.to_nat s) l :: r))
          end
      end
  end.

Fixpoint ints_of (l : list val) : option (list Z) :=
  match l with
  | [] => Some []
  | VI z :: r => match ints_of r with Some zs => Some (z :: zs) | None => None end
  | _ => None
  end.

Definition segs (j : bool) (r : list (list val)) : res :=
  if j then okl (rmap joined r) else Ok (VL (map VL r)).

(* multiples a0, 2*a0, ... below len *)
Fixpoint multiples (fuel : nat) (a0 cur len : nat) : list nat :=
  match fuel with
  | O => []
  | S f' => if (cur <? len)%nat then cur :: multiples f' a0 (cur + a0)%nat len else []
  end.

(* eval_dyad_split *)
Definition m_split_gen (by_segment_size : bool) (a b : val) : res :=
  match as_members b with
  | Some (j, l) =>
      match l with
      | [] => Ok (VL [])
      | _ =>
          let al := match a with VL la => la | _ => [a] end in
          match ints_of al with
          | Some [a0] =>
              if zlen l <=? a0 then segs j [l]
              else if by_segment_size && (a0 =? 0) then Err            (* range() arg 3 must not be zero *)
              else if by_segment_size && (a0 <? 0) then segs j [l]     (* empty range: one segment *)
              else if by_segment_size
                then segs j (split_at 0 (multiples (List.length l) (Z.to_nat a0) (Z.to_nat a0) (List.length l)) l)
                else
                  (* a0 is a Python int when a is an atom (ZeroDivisionError), a NumPy int64 when a is an array (x // 0 = 0) *)
                  if (a0 =? 0) && negb (is_arr a) then Err else
                  let k := if a0 =? 0 then 0 else zlen l / a0 in
                  let k := if k * a0 <? zlen l then k + 1 else k in
                  if k <=? 0 then Err else segs j (array_split_n (Z.to_nat k) l)
          | Some [] => Err
          | Some sizes => bind (split_loop (S (2 * List.length l + List.length sizes)) sizes sizes l) (segs j)
          | None => Unmod
          end
      end
  | None => Unmod
  end.

Definition m_split := m_split_gen split_by_segment_size.

Fixpoint nats_of (l : list Z) : option (list nat) :=
  match l with
  | [] => Some []
  | z :: r => if z <? 0 then None else match nats_of r with Some ns => Some (Z.to_nat z :: ns) | None => None end
  end.

(* eval_dyad_cut *)
Definition m_cut (a b : val) : res :=
  match as_members b with
  | Some (j, l) =>
      let al := match a with VL la => la | _ => [a] end in
      match ints_of al with
      | Some zs =>
          match nats_of zs with
          | Some idx =>
              let r := split_at 0 idx l in
              let r := match l, idx with [], _ :: _ => tl r | _, _ => r end in
              segs j r
          | None => Unmod
          end
      | None => Unmod
      end
  | None => Unmod
  end.

(* eval_dyad_join; abstractly every array path is kg_asarray([*a, *b]) *)
Definition m_join (a b : val) : res :=
  match text_of a, text_of b, a, b with
  | Some s, Some t, _, _ =>
      (match a, b with VY _, _ | _, VY _ => Ok (norm (VL [a; b])) | _, _ => Ok (VS (s ++ t)) end)
  | _, _, _, _ =>
      let aa := match a with VL la => la | _ => [a] end in
      let bb := match b with VL lb => lb | _ => [b] end in
      (* member arrays that cannot be stacked are joined member by member since the fix: commit *)
      Ok (norm (VL (aa ++ bb)))
  end.

(* a[i] with Python's negative indices *)
Definition py_index (l : list val) (i : Z) : res :=
  let n := zlen l in
  if (0 <=? i) && (i <? n) then (match nth_error l (Z.to_nat i) with Some x => Ok x | None => Err end)
  else if (i <? 0) && (- n <=? i) then (match nth_error l (Z.to_nat (n + i)) with Some x => Ok x | None => Err end)
  else Err.

(* eval_dyad_at_index on lists and strings *)
Definition m_index (a b : val) : res :=
  match as_members a with
  | Some (j, l) =>
      match b with
      | VI i => py_index l i
      | VL [] => if j then Ok (VS []) else Ok (VL [])
      | VL lb =>
          match ints_of lb with
          | Some zs => bind (rmap (py_index l) zs) (fun r => if j then joined r else Ok (norm (VL r)))
          | None => Unmod
          end
      | VR _ => Ok a
      | _ => Unmod
      end
  | None => Unmod
  end.

(* str.find loop of finditer: every (overlapping) occurrence *)
Fixpoint prefix_eqb (p s : list Z) : bool :=
  match p, s with
  | [], _ => true
  | x :: p', y :: s' => (x =? y) && prefix_eqb p' s'
  | _, [] => false
  end.
Fixpoint find_sub (i : nat) (p s : list Z) : list val :=
  (if prefix_eqb p s then [VI (Z.of_nat i)] else []) ++
  match s with [] => [] | _ :: s' => find_sub (S i) p s' end.

Fixpoint positions (i : nat) (f : val -> result bool) (l : list val) : result (list val) :=
  match l with
  | [] => Ok []
  | x :: r => bind (f x) (fun hit => bind (positions (S i) f r) (fun t => Ok (if hit then VI (Z.of_nat i) :: t else t)))
  end.

(* exact structural equality with numbers compared by value (np.array_equal / Python ==) *)
Definition num_eqb (a b : val) : bool :=
  match a, b with
  | VI x, VI y => x =? y
  | VI x, VR y => SFeqb (rofZ x) y
  | VR x, VI y => SFeqb x (rofZ y)
  | VR x, VR y => SFeqb x y
  | _, _ => false
  end.

(* np.isclose(a, b): |a-b| <= 1e-8 + 1e-5*|b| in binary64 *)
Definition atol : real := real_of_bits 4487126258331716666.   (* 1e-08 *)
Definition rtol : real := real_of_bits 4532020583610935537.   (* 1e-05 *)
Definition isclose_gen (ints_exact : bool) (a b : val) : bool :=
  match a, b with
  | VI x, VI y => if ints_exact then x =? y else
      (let x' := rofZ x in let y' := rofZ y in SFeqb x' y' || SFleb (SFabs (rsub x' y')) (radd atol (rmul rtol (SFabs y'))))
  | _, _ =>
      match toR a, toR b with
      | Some x, Some y => SFeqb x y || SFleb (SFabs (rsub x y)) (radd atol (rmul rtol (SFabs y)))
      | _, _ => false
      end
  end.
(* kg_equal_ints_exact: the fix: commit compares two integers with == before np.isclose *)
Definition isclose := isclose_gen kg_equal_ints_exact.

(* ---- the in-memory representation of a list, as far as kg_equal consults it ----
   RN = non-object ndarray (only possible for a rectangular numeric value), RO = 1-D object ndarray of its members
   (each with its own representation: a slice of a mixed list keeps row arrays inside an object array), RA = not an array *)
Inductive rep := RA | RN | RO (members : list rep).

Definition row_rep (x : val) : rep := match x with VL _ => RN | _ => RA end.
Definition member_reps (v : val) (r : rep) : list rep :=
  match v, r with
  | VL l, RO rs => rs
  | VL l, _ => map row_rep l
  | _, _ => []
  end.
Definition rep_shape (v : val) (r : rep) : option (list nat) :=
  match v, r with
  | VL l, RN => rshape v
  | VL l, RO _ => Some [List.length l]
  | _, _ => None
  end.
Fixpoint valid_rep (v : val) (r : rep) {struct r} : bool :=
  match r with
  | RA => negb (is_arr v)
  | RN => is_rect v
  | RO rs =>
      match v with
      | VL l => (fix go (rs : list rep) (l : list val) {struct rs} : bool :=
                   match rs, l with
                   | [], [] => true
                   | r' :: rs', x :: l' => valid_rep x r' && go rs' l'
                   | _, _ => false
                   end) rs l
      | _ => false
      end
  end.
(* what kg_asarray builds for a literal *)
Fixpoint canon_rep (v : val) : rep :=
  match v with
  | VL l => if is_rect v then RN else RO (map canon_rep l)
  | _ => RA
  end.

(* all(self.kg_equal(x, y) for x, y in zip(a, b)) *)
Section EqLoop.
  Context (eqf : val -> rep -> val -> rep -> result bool).
  Fixpoint eq_loop (la : list val) (ras : list rep) (lb : list val) (rbs : list rep) : result bool :=
    match la, ras, lb, rbs with
    | x :: la', rx :: ras', y :: lb', ry :: rbs' =>
        bind (eqf x rx y ry) (fun e => if e then eq_loop la' ras' lb' rbs' else Ok false)
    | _, _, _, _ => Ok true
    end.
End EqLoop.

(* BackendProvider.kg_equal.  shape_exit: an early `a.shape != b.shape -> False` (absent in the pinned code; the
   translator pins its absence) *)
Fixpoint kg_equal_rep (shape_exit : bool) (fuel : nat) (a : val) (ra : rep) (b : val) (rb : rep) : result bool :=
  match fuel with
  | O => NoFuel
  | S f' =>
      match a, b with
      | VL la, VL lb =>
          if shape_exit && negb (shape_eqb (rep_shape a ra) (rep_shape b rb)) then Ok false else
          match ra, rb with
          | RN, RN =>
              (* np.array_equal: shapes and values, exact *)
              Ok (shape_eqb (rshape a) (rshape b) && list_eqb num_eqb (np_flat a) (np_flat b))
          | _, _ =>
              if negb (List.length la =? List.length lb)%nat then Ok false
              else eq_loop (kg_equal_rep shape_exit f') la (member_reps a ra) lb (member_reps b rb)
          end
      | VL _, _ | _, VL _ => Ok false
      | VU, VU => Ok true
      | VU, _ | _, VU => Ok false
      | _, _ =>
          if is_num a && is_num b then Ok (isclose a b)
          else match sc_equal a b with Ok (VI 1) => Ok true | Ok _ => Ok false | _ => Unmod end
      end
  end.

Definition kg_equal (fuel : nat) (a b : val) : result bool :=
  kg_equal_rep (negb kg_equal_no_shape_exit) fuel a (canon_rep a) b (canon_rep b).

Definition m_match (a b : val) : res :=
  bind (kg_equal (fuel2 a b) a b) (fun e => Ok (b2v e)).

(* eval_dyad_find on lists and strings *)
Definition m_find (a b : val) : res :=
  match a with
  | VS s =>
      match b with
      | VC c => Ok (VL (find_sub 0 [c] s))
      | VS t => Ok (VL (find_sub 0 t s))
      | _ => Unmod
      end
  | VL l =>
      match b with
      | VL _ => okl (positions 0 (fun x => kg_equal (fuel2 x b) x b) l)
      | _ =>
          (* a str needle, or a haystack that is an object array / matrix: members compared with kg_equal (fix: commits) *)
          if is_strlike b || is_obj a || (1 <? npdepth a)%nat
          then okl (positions 0 (fun x => kg_equal (fuel2 x b) x b) l)
          else okl (positions 0 (fun x => match x with
                                          | VL _ => Unmod
                                          | _ => match sc_equal x b with Ok (VI 1) => Ok true | Ok _ => Ok false | _ => Unmod end
                                          end) l)
      end
  | _ => Unmod
  end.

(* ------------------------------------------------------------------ Reshape *)
Fixpoint cycle_take (fuel : nat) (n : nat) (src cur : list val) : list val :=
  match n with
  | O => []
  | S n' =>
      match cur with
      | x :: cur' => x :: cycle_take fuel n' src cur'
      | [] => match src with
              | x :: src' => x :: cycle_take fuel n' src src'
              | [] => []
              end
      end
  end.
Definition cyc (n : nat) (src : list val) : list val := cycle_take O n src src.

Definition m_reshape (a b : val) : res :=
  (* j = isinstance(b, str): strings, characters and symbols (KGChar, KGSym are str) become character arrays;
     reshape_guards_symbols: the fix: commit excludes KGSym *)
  let j := match b with VS _ | VC _ => true | VY _ => negb reshape_guards_symbols | _ => false end in
  let b' := match b with
            | VS s => VL (chars s)
            | VC c => VL [VC c]
            | VY s => if reshape_guards_symbols then b else VL (chars s)
            | _ => b end in
  (* a one-element shape [n], n > 0, is the count n (fix: commit): the members of b are taken as they are *)
  let a := match a with VL [VI n] => if 0 <? n then VI n else a | _ => a end in
  match a with
  | VL la =>
      match ints_of la with
      | Some zs =>
          if negb (npdepth a =? 1)%nat then Unmod else
          match b' with
          | VL lb =>
              let bs := array_size b' in
              let zs := map (fun z => if z <? 0 then bs / 2 else z) zs in
              match nats_of zs with
              | Some shape =>
                  let fl := np_flat b' in
                  if bs =? 0 then Unmod
                  else
                    let r := build shape (cyc (prodn shape) fl) in
                    if j then
                      (match shape with
                       | [_] => (match r with VL l => joined l | _ => Err end)
                       | [_; _] => (match r with VL rows => okl (rmap (fun row => match row with VL l => joined l | _ => Err end) rows) | _ => Err end)
                       | _ => Unmod
                       end)
                    else Ok r
              | None => Unmod
              end
          | VY _ =>
              if reshape_guards_symbols
              then (match nats_of zs with Some shape => Ok (build shape (repeat b' (prodn shape))) | None => Err end)
              else Unmod
          | _ =>
              match nats_of zs with
              | Some shape => Ok (build shape (repeat b' (prodn shape)))
              | None => Err
              end
          end
      | None => Unmod
      end
  | VI n =>
      if n =? 0 then Ok b      (* identity, before any conversion (fix: commit) *)
      else if n <? 0 then Unmod
      else
        match b' with
        | VL lb =>
            match lb with
            | [] => Unmod
            | _ =>
                if n <? zlen lb
                then rejoin j (firstn (Z.to_nat n) lb)       (* b[:a] *)
                else rejoin j (cyc (Z.to_nat n) lb)
            end
        | VY _ => if reshape_guards_symbols then Ok (VL (repeat b' (Z.to_nat n))) else Unmod
        | _ => Ok (VL (repeat b' (Z.to_nat n)))
        end
  | _ => Unmod
  end.

(* ------------------------------------------------------------------ Shape, Transpose, Not, Grade, Group, Range *)
(* `_s(x)`: no dimensions for what is not iterable, [len] for a string, the array shape for a numeric array (also an
   empty one), otherwise the length followed by the common shape of the members, if they all have one *)
Fixpoint ashape (v : val) : list nat :=
  match v with
  | VL l =>
      match rshape v with
      | Some sh => sh
      | None =>
          let shapes := map ashape l in
          List.length l :: (if forallb (list_eqb Nat.eqb (hd [] shapes)) shapes then hd [] shapes else [])
      end
  | VS s => [List.length s]
  | _ => []
  end.

Definition m_shape (a : val) : res :=
  match a with
  | VS [] | VL [] => Ok (VI 0)
  | VS _ | VL _ => Ok (VL (map (fun d => VI (Z.of_nat d)) (ashape a)))
  | _ => Ok (VI 0)
  end.

(* np.transpose(np.asarray(a)) *)
Definition m_transpose (a : val) : res :=
  match a with
  | VL l =>
      match rshape a with
      | Some [r; c] => Ok (VL (map (fun j => VL (map (fun i => nth j (match nth i l VU with VL row => row | _ => [] end) VU) (seq 0 r))) (seq 0 c)))
      | Some [_] => Ok a
      | Some _ => Unmod
      | None => if canonical a then Ok a else Unmod
      end
  | VC c => Ok (VS [c])     (* np.asarray of a str subclass is a '<U' scalar *)
  | VY s => Ok (VS s)
  | _ => Ok a
  end.

Definition sc_not (x : val) : res :=
  match x with
  | VI z => Ok (b2v (z =? 0))
  | VR r => Ok (b2v (is_real_zero r))
  | VS [] => Ok (VI 1)
  | VC _ | VS _ | VY _ => Ok (VI 0)
  | _ => Unmod
  end.
Definition m_not (a : val) : res :=
  if is_empty a then Ok (VI 1)
  else vec1 (S (depth a)) (fun x => if is_empty x then Ok (VI 1) else leaf1 sc_not x) a.

(* stable insertion sort of (key, index) pairs *)
Section Sort.
  Context {K : Type} (leb : K -> K -> bool).
  Fixpoint insert_by (x : K * nat) (l : list (K * nat)) : list (K * nat) :=
    match l with
    | [] => [x]
    | y :: r => if leb (fst y) (fst x) && negb (leb (fst x) (fst y)) then y :: insert_by x r else x :: l
    end.
  Fixpoint sort_by (l : list (K * nat)) : list (K * nat) :=
    match l with [] => [] | x :: r => insert_by x (sort_by r) end.
End Sort.

Definition num_leb (a b : val) : bool :=
  match a, b with
  | VI x, VI y => x <=? y
  | VI x, VR y => SFleb (rofZ x) y
  | VR x, VI y => SFleb x (rofZ y)
  | VR x, VR y => SFleb x y
  | _, _ => false
  end.

Definition with_index {K} (l : list K) : list (K * nat) := combine l (seq 0 (List.length l)).

(* kg_argsort: ascending stable order of the indices; descending = the reversed ascending order *)
Definition m_grade (descending : bool) (a0 : val) : res :=
  let a := match a0 with VC c => VS [c] | VY s => VS s | _ => a0 end in   (* KGChar, KGSym are str *)
  let fin (idx : list nat) := Ok (VL (map (fun i => VI (Z.of_nat i)) (if descending then rev idx else idx))) in
  match a with
  | VS [] | VL [] => Ok (match a with VS _ => VL [] | _ => a end)
  | VS s => fin (map snd (sort_by Z.leb (with_index s)))
  | VL l =>
      match rshape a with
      | Some [_] => fin (map snd (sort_by num_leb (with_index l)))
      | _ => Unmod
      end
  | _ => Ok a
  end.

(* np.unique(arr, return_inverse=True): the groups come in sorted order of the values *)
Fixpoint positions_of {K} (eqb : K -> K -> bool) (k : K) (i : nat) (l : list K) : list val :=
  match l with
  | [] => []
  | x :: r => (if eqb x k then [VI (Z.of_nat i)] else []) ++ positions_of eqb k (S i) r
  end.
Fixpoint dedup_sorted {K} (eqb : K -> K -> bool) (l : list K) : list K :=
  match l with
  | x :: ((y :: _) as r) => if eqb x y then dedup_sorted eqb r else x :: dedup_sorted eqb r
  | other => other
  end.
Fixpoint dedup_by {K} (eqb : K -> K -> bool) (seen : list K) (l : list K) : list K :=
  match l with
  | [] => []
  | x :: r => if existsb (eqb x) seen then dedup_by eqb seen r else x :: dedup_by eqb (x :: seen) r
  end.

(* the scan of eval_monad_groupby: members compared with kg_equal, groups in order of first appearance *)
Fixpoint ginsert (eq : val -> val -> result bool) (x : val) (i : nat) (acc : list (val * list nat)) : result (list (val * list nat)) :=
  match acc with
  | [] => Ok [(x, [i])]
  | (k, g) :: r => bind (eq k x) (fun e => if e then Ok ((k, g ++ [i]) :: r)
                                          else bind (ginsert eq x i r) (fun r' => Ok ((k, g) :: r')))
  end.
Fixpoint gscan (eq : val -> val -> result bool) (i : nat) (l : list val) (acc : list (val * list nat)) : result (list (val * list nat)) :=
  match l with
  | [] => Ok acc
  | x :: r => bind (ginsert eq x i acc) (fun acc' => gscan eq (S i) r acc')
  end.
Definition groups_val (gs : list (val * list nat)) : val :=
  VL (map (fun kg => VL (map (fun i => VI (Z.of_nat i)) (snd kg))) gs).

(* the members that no earlier member equals, in order (np.unique + argsort of the first indices) *)
Definition firsts {K} (eqb : K -> K -> bool) (d : K) (l : list K) : list K :=
  flat_map (fun j => if existsb (fun i => eqb (nth j l d) (nth i l d)) (seq 0 j) then [] else [nth j l d]) (seq 0 (List.length l)).

(* np.unique with return_index on a sortable 1-D array (order of first appearance since the fix: commit), the scan otherwise *)
Definition m_group (a : val) : res :=
  match a with
  | VS [] | VL [] => Ok (VL [])
  | VS s => Ok (VL (map (fun k => VL (positions_of Z.eqb k 0 s)) (firsts Z.eqb 0 s)))
  | VL l =>
      match rshape a with
      | Some [_] => Ok (VL (map (fun k => VL (positions_of num_eqb k 0 l)) (firsts num_eqb VU l)))
      | _ => bind (gscan (fun k x => kg_equal (fuel2 k x) k x) 0 l []) (fun gs => Ok (groups_val gs))
      end
  | _ => Unmod
  end.

Fixpoint val_same (a b : val) {struct a} : bool :=
  match a, b with
  | VI x, VI y => x =? y
  | VR x, VR y => bits_of_real x =? bits_of_real y
  | VC x, VC y => x =? y
  | VS s, VS t => zs_eqb s t
  | VY s, VY t => zs_eqb s t
  | VU, VU => true
  | VL la, VL lb =>
      (fix go (la lb : list val) : bool :=
         match la, lb with
         | [], [] => true
         | x :: la', y :: lb' => val_same x y && go la' lb'
         | _, _ => false
         end) la lb
  | _, _ => false
  end.

(* eval_monad_range *)
Definition m_range (a0 : val) : res :=
  let a := match a0 with VC c => VS [c] | VY s => VS s | _ => a0 end in   (* KGChar, KGSym are str *)
  match a with
  | VS s => Ok (VS (dedup_by Z.eqb [] s))      (* ''.join(dict.fromkeys(a)) *)
  | VL l =>
      if negb (canonical a) then Unmod else
      match rshape a with
      | Some _ => Ok (norm (VL (dedup_by val_same [] l)))         (* numeric array: the printed forms differ iff the values do *)
      | None =>
          (* object array: a member is kept unless it matches (kg_equal) a member kept before (fix: commit) *)
          bind ((fix go (l kept : list val) : result (list val) :=
                   match l with
                   | [] => Ok (rev kept)
                   | x :: r => bind ((fix any (ks : list val) : result bool :=
                                        match ks with
                                        | [] => Ok false
                                        | y :: ks' => bind (kg_equal (fuel2 x y) x y) (fun e => if e then Ok true else any ks')
                                        end) (rev kept))
                                    (fun seen => if seen then go r kept else go r (x :: kept))
                   end) l [])
               (fun r => Ok (norm (VL r)))
      end
  | _ => Ok a
  end.

(* ------------------------------------------------------------------ Power, Index-in-Depth, Amend, Amend-in-Depth *)
(* _e_dyad_power on integers: np.power through binary64, converted back when whole; modelled for a non-negative
   exponent and a result below 2^53 (exact) *)
Definition sc_pow (a b : val) : res :=
  match a, b with
  | VI x, VI y => if (0 <=? y) && (y <? 64) && (Z.abs (x ^ y) <? 2 ^ 53) then Ok (VI (x ^ y)) else Unmod
  | _, _ => Unmod
  end.
Definition m_power (a b : val) : res := vec2 (fuel2 a b) (leaf2n sc_pow) a b.

(* np.asarray(a)[tuple(b)] : one index per array dimension; an object array has one dimension *)
Fixpoint index_path (fuel : nat) (a : val) (path : list Z) : res :=
  match fuel with
  | O => NoFuel
  | S f' =>
      match path with
      | [] => Ok a
      | i :: rest =>
          match a with
          | VL l => bind (py_index l i) (fun x => index_path f' x rest)      (* one index per level (fix: commit) *)
          | VS _ | VY _ | VC _ => Unmod      (* str subclasses index into their text *)
          | _ => Err
          end
      end
  end.
Definition m_index_in_depth (a b : val) : res :=
  match b with
  | VL [] | VS [] => Ok b
  | VI i => (match a with VL l => py_index l i | _ => Err end)
  | VL lb => (match ints_of lb, a with
              | Some zs, VL _ => index_path (S (List.length zs)) a zs
              | Some _, _ => Err
              | None, _ => Unmod end)
  | _ => Unmod
  end.

Fixpoint replace_at {A} (i : nat) (x : A) (l : list A) : list A :=
  match l, i with
  | [], _ => []
  | _ :: r, O => x :: r
  | y :: r, S i' => y :: replace_at i' x r
  end.
(* an index as numpy.put / Python item assignment takes it: negative counts from the end *)
Definition wrap_index (n : Z) (i : Z) : option nat :=
  if (0 <=? i) && (i <? n) then Some (Z.to_nat i) else if (i <? 0) && (- n <=? i) then Some (Z.to_nat (n + i)) else None.
Fixpoint put_all {A} (x : A) (idx : list Z) (l : list A) : option (list A) :=
  match idx with
  | [] => Some l
  | i :: r => match wrap_index (zlen l) i with Some k => put_all x r (replace_at k x l) | None => None end
  end.
(* the value as it is stored into an array of the given numeric dtype (numpy.put casts) *)
Definition cast_into (isreal : bool) (v : val) : option val :=
  match v with
  | VI z => Some (if isreal then VR (rofZ z) else v)
  | VR r => if isreal then Some v else match rfloor_exact (SFabs r) with
                                       | Some z => Some (VI (match r with S754_finite true _ _ => Z.opp z | _ => z end))   (* truncation *)
                                       | None => None end
  | _ => None
  end.
(* the string loop of eval_dyad_amend on cells (a cell holds the characters one array element contributes) *)
Fixpoint splice {A} (i : nat) (q : list A) (l : list A) : list A :=
  match q with [] => l | c :: q' => splice (S i) q' (replace_at i c l) end.
Fixpoint amend_str (v : list Z) (idx : list Z) (cells : list (list Z)) : result (list (list Z)) :=
  match idx with
  | [] => Ok cells
  | i :: r =>
      if i <? 0 then Unmod else
      let n := zlen cells in
      if i + zlen v <=? n then amend_str v r (splice (Z.to_nat i) (map (fun c => [c]) v) cells)
      else if zlen v =? 1 then amend_str v r cells              (* one element broadcasts into the empty slice: no error *)
      else if n <? i then amend_str v r cells                   (* RangeError(i) is constructed, not raised *)
      else if i =? n then amend_str v r (cells ++ [v])
      else amend_str v r (replace_at (Z.to_nat i) v cells)
  end.
Definition index_ints (l : list val) : option (list Z) :=
  (* numpy.asarray(b[1:], dtype=int) *)
  (fix go (l : list val) : option (list Z) :=
     match l with
     | [] => Some []
     | VI z :: r => option_map (cons z) (go r)
     | VR x :: r => match cast_into false (VR x), go r with Some (VI z), Some zs => Some (z :: zs) | _, _ => None end
     | _ => None
     end) l.
Definition m_amend (a b : val) : res :=
  match a, b with
  | (VL _ | VS _), VL lb =>
      match lb with
      | [] | [_] => Ok a
      | v :: idxs =>
          if negb (npdepth b =? 1)%nat then Unmod else
          match index_ints idxs with
          | None => Unmod
          | Some zs =>
              match a with
              | VS s =>
                  match text_of v, v with
                  | Some t, (VC _ | VS _) => bind (amend_str t zs (map (fun c => [c]) s)) (fun cells => Ok (VS (List.concat cells)))
                  | _, _ => Unmod
                  end
              | VL la =>
                  match v with
                  | VL _ => (match put_all v zs la with Some r => Ok (norm (VL r)) | None => Err end)   (* tolist, item assignment, kg_asarray *)
                  | _ =>
                      match rshape a with
                      | Some [_] =>
                          (* an integer goes into the array's dtype, a real into a real array; anything else makes the
                             array an object array first (fix: commit) and is stored as it is *)
                          let v' := match v with VI z => if has_real a then VR (rofZ z) else v | _ => v end in
                          (match put_all v' zs la with Some r => Ok (VL r) | None => Err end)
                      | Some _ => Unmod          (* numpy.put addresses the flattened matrix *)
                      | None => (match put_all v zs la with Some r => Ok (VL r) | None => Err end)
                      end
                  end
              | _ => Unmod
              end
          end
      end
  | (VL _ | VS _), _ => (match b with VS (_ :: _ :: _) => Unmod | VS _ | VC _ | VY _ => Unmod | _ => Err end)
  | (VC _ | VY _), _ => Unmod       (* KGChar and KGSym are str *)
  | _, _ => Err
  end.

(* _e_dyad_amend_in_depth on a rectangular array: one index per dimension *)
Fixpoint amend_path (fuel : nat) (a : val) (path : list Z) (v : val) : res :=
  match fuel with
  | O => NoFuel
  | S f' =>
      match path, a with
      | [i], VL l =>
          match wrap_index (zlen l) i with
          | Some k => if forallb is_num l then Ok (VL (replace_at k v l)) else Unmod
          | None => Err
          end
      | i :: rest, VL l =>
          match wrap_index (zlen l) i with
          | Some k => bind (amend_path f' (nth k l VU) rest v) (fun r => Ok (VL (replace_at k r l)))
          | None => Err
          end
      | _, _ => Unmod
      end
  end.
Definition m_amend_in_depth (a b : val) : res :=
  match a, b with
  | VL _, VL (v :: idxs) =>
      if negb (is_rect a) || negb (npdepth b =? 1)%nat then Unmod else
      match ints_of idxs with
      | Some zs =>
          if negb (List.length zs =? npdepth a)%nat then Unmod else
          match v with
          | VI z => amend_path (S (List.length zs)) a zs (if has_real a then VR (rofZ z) else v)
          | VR _ | VC _ | VS _ | VY _ => amend_path (S (List.length zs)) a zs v      (* stored as it is (fix: commit) *)
          | _ => Unmod
          end
      | None => Unmod
      end
  | _, _ => Unmod
  end.

(* ------------------------------------------------------------------ a verb applied repeatedly to a shared operand object
   nowrite = the translator found no store into a parameter in any eval_* function: the operand object is the same
   value at every use.  With nowrite = false nothing is known about the second and later uses. *)
Definition apply_shared (nowrite : bool) (verb : val -> val -> res) (s : option val) (b : val) : res * option val :=
  match s with
  | Some a => (verb a b, if nowrite then Some a else None)
  | None => (Unmod, None)
  end.
Fixpoint run_shared (nowrite : bool) (verb : val -> val -> res) (s : option val) (bs : list val) : list res * option val :=
  match bs with
  | [] => ([], s)
  | b :: r => let (x, s1) := apply_shared nowrite verb s b in
              let (xs, s2) := run_shared nowrite verb s1 r in (x :: xs, s2)
  end.

(* ------------------------------------------------------------------ dispatch by Python function name *)
Open Scope string_scope.

Definition m_monad (f : string) (a : val) : res :=
  if negb (canonical a) then Unmod else
  if f =? "eval_monad_atom" then m_atom a else
  if f =? "eval_monad_char" then m_char a else
  if f =? "eval_monad_enumerate" then m_enumerate a else
  if f =? "eval_monad_expand_where" then m_expand a else
  if f =? "eval_monad_first" then m_first a else
  if f =? "eval_monad_floor" then m_floor a else
  if f =? "eval_monad_list" then m_list a else
  if f =? "eval_monad_negate" then m_negate a else
  if f =? "eval_monad_reciprocal" then m_recip a else
  if f =? "eval_monad_reverse" then m_reverse a else
  if f =? "eval_monad_size" then m_size a else
  if f =? "eval_monad_shape" then m_shape a else
  if f =? "eval_monad_transpose" then m_transpose a else
  if f =? "eval_monad_not" then m_not a else
  if f =? "eval_monad_grade_up" then m_grade false a else
  if f =? "eval_monad_grade_down" then m_grade true a else
  if f =? "eval_monad_groupby" then m_group a else
  if f =? "eval_monad_range" then m_range a else
  Unmod.

Definition m_dyad (f : string) (a b : val) : res :=
  if negb (canonical a && canonical b) then Unmod else
  if f =? "eval_dyad_add" then m_add a b else
  if f =? "eval_dyad_subtract" then m_sub a b else
  if f =? "eval_dyad_multiply" then m_mul a b else
  if f =? "eval_dyad_divide" then m_div a b else
  if f =? "eval_dyad_minimum" then m_min a b else
  if f =? "eval_dyad_maximum" then m_max a b else
  if f =? "eval_dyad_remainder" then m_rem a b else
  if f =? "eval_dyad_integer_divide" then m_idiv a b else
  if f =? "eval_dyad_less" then m_less a b else
  if f =? "eval_dyad_more" then m_more a b else
  if f =? "eval_dyad_equal" then m_equal a b else
  if f =? "eval_dyad_take" then m_take a b else
  if f =? "eval_dyad_drop" then m_drop a b else
  if f =? "eval_dyad_rotate" then m_rotate a b else
  if f =? "eval_dyad_split" then m_split a b else
  if f =? "eval_dyad_cut" then m_cut a b else
  if f =? "eval_dyad_join" then m_join a b else
  if f =? "eval_dyad_at_index" then m_index a b else
  if f =? "eval_dyad_find" then m_find a b else
  if f =? "eval_dyad_match" then m_match a b else
  if f =? "eval_dyad_reshape" then m_reshape a b else
  if f =? "eval_dyad_power" then m_power a b else
  if f =? "eval_dyad_index_in_depth" then m_index_in_depth a b else
  if f =? "eval_dyad_amend" then m_amend a b else
  if f =? "eval_dyad_amend_in_depth" then m_amend_in_depth a b else
  Unmod.

Definition modelled_monads : list string :=
  ["eval_monad_atom"; "eval_monad_char"; "eval_monad_enumerate"; "eval_monad_expand_where"; "eval_monad_first";
   "eval_monad_floor"; "eval_monad_list"; "eval_monad_negate"; "eval_monad_reciprocal"; "eval_monad_reverse"; "eval_monad_size";
   "eval_monad_shape"; "eval_monad_transpose"; "eval_monad_not"; "eval_monad_grade_up"; "eval_monad_grade_down";
   "eval_monad_groupby"; "eval_monad_range"].
Definition modelled_dyads : list string :=
  ["eval_dyad_add"; "eval_dyad_subtract"; "eval_dyad_multiply"; "eval_dyad_divide"; "eval_dyad_minimum"; "eval_dyad_maximum";
   "eval_dyad_remainder"; "eval_dyad_integer_divide"; "eval_dyad_less"; "eval_dyad_more"; "eval_dyad_equal";
   "eval_dyad_take"; "eval_dyad_drop"; "eval_dyad_rotate"; "eval_dyad_split"; "eval_dyad_cut"; "eval_dyad_join";
   "eval_dyad_at_index"; "eval_dyad_find"; "eval_dyad_match"; "eval_dyad_reshape";
   "eval_dyad_power"; "eval_dyad_index_in_depth"; "eval_dyad_amend"; "eval_dyad_amend_in_depth"].
