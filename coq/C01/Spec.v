(* C01/Spec.v — what the Klong reference (docstrings of eval_monad_* / eval_dyad_*, docs/) prescribes.
   Written independently of the model's route: results are characterised through `nth`
   over index ranges, not through slicing / tiling / array_split.  Executable, so that the
   harness can use the extracted spec as the property oracle.  No proofs here. *)
From Coq Require Import ZArith List Bool String.
From Coq Require Import Floats.SpecFloat.
From C01 Require Import Generated Model.
Import ListNotations.
Open Scope Z_scope.

Section Zip2.
  Context (f : val -> val -> bool).
  Fixpoint any2 (la lb : list val) : bool :=
    match la, lb with x :: la', y :: lb' => f x y || any2 la' lb' | _, _ => false end.
  Fixpoint all2 (la lb : list val) : bool :=
    match la, lb with x :: la', y :: lb' => f x y && all2 la' lb' | _, _ => true end.
  Fixpoint same2 (la lb : list val) : bool :=
    match la, lb with [], [] => true | x :: la', y :: lb' => f x y && same2 la' lb' | _, _ => false end.
End Zip2.

(* ------------------------------------------------------------------ atomic verbs
   s2 f a b : the element-wise extension of the scalar function f through any nesting
   depth with atom-to-list extension; lists of different length do not conform (Err). *)
Fixpoint sright (f : val -> val -> res) (a b : val) {struct b} : res :=
  match b with
  | VL lb => okl (rmap (sright f a) lb)
  | _ => f a b
  end.

Fixpoint s2 (f : val -> val -> res) (a b : val) {struct a} : res :=
  match a with
  | VL la =>
      match b with
      | VL lb =>
          okl (rzip (s2 f) la lb)
      | _ => okl (rmap (fun x => s2 f x b) la)
      end
  | _ => sright f a b
  end.

Fixpoint s1 (f : val -> res) (a : val) : res :=
  match a with
  | VL la => okl (rmap (s1 f) la)
  | _ => f a
  end.

(* lists conform when they have the same length and their members conform; an atom conforms with anything *)
Fixpoint conformable (a b : val) {struct a} : bool :=
  match a, b with
  | VL la, VL lb =>
      same2 conformable la lb
  | _, _ => true
  end.

(* every pair of scalars the extension meets satisfies p *)
Fixpoint all_right (p : val -> val -> bool) (a b : val) {struct b} : bool :=
  match b with
  | VL [] => is_num a                 (* [] is the empty numeric vector *)
  | VL lb => forallb (all_right p a) lb
  | _ => p a b
  end.
Fixpoint all_pairs (p : val -> val -> bool) (a b : val) {struct a} : bool :=
  match a with
  | VL la =>
      match b with
      | VL lb =>
          all2 (all_pairs p) la lb
      | _ => match la with [] => is_num b | _ => forallb (fun x => all_pairs p x b) la end
      end
  | _ => all_right p a b
  end.
Fixpoint all_leaves (p : val -> bool) (a : val) : bool :=
  match a with
  | VL la => forallb (all_leaves p) la
  | _ => p a
  end.

Fixpoint has_empty_list (a : val) : bool :=
  match a with
  | VL [] => true
  | VL la => existsb has_empty_list la
  | _ => false
  end.

Definition both_num (a b : val) : bool := is_num a && is_num b.
Definition is_int (v : val) : bool := match v with VI _ => true | _ => false end.
Definition is_zero (v : val) : bool := match v with VI z => z =? 0 | VR r => is_real_zero r | _ => false end.
Definition both_int_nz (a b : val) : bool := is_int a && is_int b && negb (is_zero b).
Definition same_kind (a b : val) : bool :=
  match a, b with
  | VI _, VI _ | VI _, VR _ | VR _, VI _ | VR _, VR _ => true
  | VC _, VC _ | VS _, VS _ | VY _, VY _ => true
  | _, _ => false
  end.

(* known-finding class "broadcast": somewhere in the recursion two list operands meet whose NumPy
   shapes differ, so NumPy aligns trailing axes instead of pairing members (or raises). *)
Fixpoint kb_np (a b : val) {struct a} : bool :=
  match a with
  | VL la =>
      match b with
      | VL lb =>
          if shape_eqb (npshape a) (npshape b)
          then (if is_rect a && is_rect b then false
                else any2 (kb_np) la lb)
          else true
      | _ => if is_rect a then false else existsb (fun x => kb_np x b) la
      end
  | _ => false
  end.

(* the NumPy array of v has two or more dimensions (also for object arrays whose members are all lists of one length) *)
Definition ndim_gt1 (v : val) : bool :=
  match v with
  | VL l => (1 <? npdepth v)%nat || (negb (is_rect v) && all_lists_same_len l)
  | _ => false
  end.

(* the same for verbs routed through vec_fn2, which pairs members itself as soon as one operand is an object array *)
Fixpoint kb_vec (a b : val) {struct a} : bool :=
  match a with
  | VL la =>
      match b with
      | VL lb =>
          if is_rect a && is_rect b then negb (shape_eqb (rshape a) (rshape b))
          else any2 (kb_vec) la lb
      | _ => if is_rect a then false else existsb (fun x => kb_vec x b) la
      end
  | _ => false
  end.

(* ------------------------------------------------------------------ generic list specs (index formulas) *)
Section ListSpecs.
  Context {A : Type} (d : A).
  Definition ix (l : list A) (i : Z) : A := nth (Z.to_nat i) l d.
  Definition tab (n : Z) (f : Z -> A) : list A := map (fun i => f (Z.of_nat i)) (seq 0 (Z.to_nat n)).

  (* Take: |n| members; from the front cycling forward, from the end cycling backward *)
  Definition s_take (n : Z) (l : list A) : list A :=
    let L := zlen l in
    if L =? 0 then [] else
    tab (Z.abs n) (fun i => ix l ((i + Z.min n 0) mod L)).

  Definition s_drop (n : Z) (l : list A) : list A :=
    let L := zlen l in
    if 0 <=? n then tab (L - n) (fun i => ix l (i + n)) else tab (L + n) (fun i => ix l i).

  Definition s_rotate (n : Z) (l : list A) : list A :=
    let L := zlen l in
    if L =? 0 then [] else tab L (fun i => ix l ((i - n) mod L)).

  Definition s_reverse (l : list A) : list A :=
    let L := zlen l in tab L (fun i => ix l (L - 1 - i)).

  Definition seg (lo hi : Z) (l : list A) : list A := tab (hi - lo) (fun i => ix l (lo + i)).

  (* Split: segment k starts where segment k-1 ended, has the k-th size (cycling through the sizes),
     the last one is cut at the end of the list; no segment starts at or after the end *)
  Fixpoint s_split_from (fuel : nat) (k : nat) (off : Z) (sizes : list Z) (l : list A) : list (list A) :=
    match fuel with
    | O => []
    | S f' =>
        let L := zlen l in
        if off <? L then
          let sz := nth (k mod List.length sizes) sizes 1 in
          seg off (Z.min (off + sz) L) l :: s_split_from f' (S k) (off + sz) sizes l
        else []
    end.
  Definition s_split (sizes : list Z) (l : list A) : list (list A) :=
    s_split_from (List.length l) 0 0 sizes l.

  (* Cut: consecutive segments between the cut positions 0, i0, i1, ..., #l *)
  Fixpoint s_cut_from (prev : Z) (idx : list Z) (l : list A) : list (list A) :=
    match idx with
    | [] => [seg prev (zlen l) l]
    | i :: r => seg prev i l :: s_cut_from i r l
    end.
  Definition s_cut (idx : list Z) (l : list A) : list (list A) := s_cut_from 0 idx l.

  (* Reshape: row-major array of the given shape filled by cycling through the source members *)
  Definition s_fill (n : Z) (l : list A) : list A :=
    let L := zlen l in tab n (fun i => ix l (i mod L)).
End ListSpecs.

Fixpoint s_build (shape : list Z) (off : Z) (src : list val) : val :=
  match shape with
  | [] => ix VU src (off mod zlen src)
  | d :: rest =>
      let sz := fold_right Z.mul 1 rest in
      VL (tab d (fun i => s_build rest (off + i * sz) src))
  end.

Definition strs (segs : list (list Z)) : val := VL (map VS segs).
Definition lists (segs : list (list val)) : val := VL (map VL segs).

Fixpoint incr_within (prev hi : Z) (idx : list Z) : bool :=
  match idx with
  | [] => true
  | i :: r => (prev <=? i) && (i <=? hi) && incr_within i hi r
  end.

Definition members (b : val) : list val := match b with VL l => l | other => [other] end.

(* structural equality, numbers by value (Match; also what Find uses to compare members) *)
Fixpoint s_same (a b : val) {struct a} : bool :=
  match a, b with
  | VL la, VL lb =>
      same2 s_same la lb
  | VL _, _ | _, VL _ => false
  | VC x, VC y => x =? y
  | VS s, VS t => zs_eqb s t
  | VY s, VY t => zs_eqb s t
  | VU, VU => true
  | _, _ => num_eqb a b
  end.

(* two numbers that differ but are "close" to np.isclose: the tolerance class of Match *)
Fixpoint k_close (a b : val) {struct a} : bool :=
  match a, b with
  | VL la, VL lb =>
      any2 (k_close) la lb
  | VL _, _ | _, VL _ => false
  | _, _ => is_num a && is_num b && negb (num_eqb a b) && isclose_gen true a b     (* integers are never "close" *)
  end.

Fixpoint match_kinds_ok (a b : val) {struct a} : bool :=
  match a, b with
  | VL la, VL lb =>
      all2 (match_kinds_ok) la lb
  | VL _, VS _ | VS _, VL _ => false      (* a list of characters against a string: not settled by the reference *)
  | VL _, _ | _, VL _ => true
  | VC _, VS _ | VS _, VC _ => false     (* a character against a one-character string: klongpy calls them equal *)
  | _, _ => true
  end.

Fixpoint s_positions (i : Z) (p : val -> bool) (l : list val) : list val :=
  match l with
  | [] => []
  | x :: r => (if p x then [VI i] else []) ++ s_positions (i + 1) p r
  end.

(* positions i such that the pattern occurs at i (declaratively: every pattern member equals the member i+j) *)
Definition occurs_at (p s : list Z) (i : Z) : bool :=
  (i + zlen p <=? zlen s) &&
  forallb (fun j => ix 0 s (i + Z.of_nat j) =? ix 0 p (Z.of_nat j)) (seq 0 (List.length p)).
Definition s_find_sub (p s : list Z) : list val :=
  flat_map (fun i => if occurs_at p s (Z.of_nat i) then [VI (Z.of_nat i)] else []) (seq 0 (S (List.length s))).

(* ------------------------------------------------------------------ dispatch *)
Open Scope string_scope.
Open Scope Z_scope.
Definition fis (f g : string) : bool := String.eqb f g.

Definition sc_of (f : string) : option (val -> val -> res) :=
  if fis f "eval_dyad_add" then Some sc_add else
  if fis f "eval_dyad_subtract" then Some sc_sub else
  if fis f "eval_dyad_multiply" then Some sc_mul else
  if fis f "eval_dyad_divide" then Some sc_div else
  if fis f "eval_dyad_minimum" then Some sc_min else
  if fis f "eval_dyad_maximum" then Some sc_max else
  if fis f "eval_dyad_remainder" then Some sc_fmod else
  if fis f "eval_dyad_integer_divide" then Some sc_idiv else
  if fis f "eval_dyad_less" then Some sc_less else
  if fis f "eval_dyad_more" then Some sc_more else
  if fis f "eval_dyad_equal" then Some sc_equal else
  if fis f "eval_dyad_power" then Some sc_pow else None.

(* the domain of the scalar function, from the reference text of the verb *)
Definition scdom_of (f : string) : val -> val -> bool :=
  if (fis f "eval_dyad_remainder") || (fis f "eval_dyad_integer_divide") then both_int_nz else
  if (fis f "eval_dyad_less") || (fis f "eval_dyad_more") || (fis f "eval_dyad_equal") then same_kind else
  if fis f "eval_dyad_power" then
    (fun a b => match a, b with VI x, VI y => (0 <=? y) && (y <? 64) && (Z.abs (x ^ y) <? 2 ^ 53) | _, _ => false end) else
  both_num.

Definition via_vec2 (f : string) : bool :=
  (fis f "eval_dyad_integer_divide") || (fis f "eval_dyad_less") || (fis f "eval_dyad_more") || (fis f "eval_dyad_equal") ||
  (fis f "eval_dyad_minimum") || (fis f "eval_dyad_maximum") || (fis f "eval_dyad_remainder") || (fis f "eval_dyad_power").
Definition no_object_loop (f : string) : bool := false.

Definition is_list_or_str (b : val) : bool := match b with VL _ | VS _ => true | _ => false end.
Definition sizes_ok (a : val) : bool :=
  match a with
  | VI n => 0 <? n
  | VL (x :: r) => (npdepth a =? 1)%nat && forallb (fun v => match v with VI n => 0 <? n | _ => false end) (x :: r)
  | _ => false
  end.
Definition zints (a : val) : list Z :=
  match ints_of (members a) with Some zs => zs | None => [] end.

(* Index-in-Depth / Amend-in-Depth: one index per level *)
Fixpoint s_path (a : val) (path : list Z) : val :=
  match path with
  | [] => a
  | i :: r => s_path (ix VU (members a) i) r
  end.
Definition s_set {A} (l : list A) (i : Z) (x : A) : list A :=
  map (fun k => if Z.of_nat k =? i then x else nth k l x) (seq 0 (List.length l)).
Fixpoint s_set_path (a : val) (path : list Z) (v : val) : val :=
  match path with
  | [] => v
  | i :: r => VL (s_set (members a) i (s_set_path (ix VU (members a) i) r v))
  end.
Fixpoint path_ok (a : val) (path : list Z) : bool :=
  match path with
  | [] => negb (is_arr a)
  | i :: r => match a with VL l => (0 <=? i) && (i <? zlen l) && path_ok (ix VU l i) r | _ => false end
  end.
(* Amend: the members at the given positions replaced by v; for a string and a string v every substring starting there *)
Definition s_amend_list (l : list val) (v : val) (idx : list Z) : list val :=
  map (fun k => if existsb (Z.eqb (Z.of_nat k)) idx then v else nth k l VU) (seq 0 (List.length l)).
Fixpoint s_amend_str (s : list Z) (v : list Z) (idx : list Z) : list Z :=
  match idx with
  | [] => s
  | i :: r => s_amend_str (map (fun k => if (i <=? Z.of_nat k) && (Z.of_nat k <? i + zlen v) then ix 0 v (Z.of_nat k - i) else nth k s 0)
                               (seq 0 (List.length s))) v r
  end.

Definition s_dyad (f : string) (a b : val) : res :=
  match sc_of f with
  | Some sc =>
      if (fis f "eval_dyad_divide") && negb (is_arr a) && negb (is_arr b) && is_zero b then Ok VU else
      if (fis f "eval_dyad_integer_divide") && negb (is_arr a) && negb (is_arr b) && is_zero b then Ok VU else
      s2 sc a b
  | None =>
  if fis f "eval_dyad_take" then
    match a, b with
    | VI n, VL l => Ok (VL (s_take VU n l))
    | VI n, VS s => Ok (VS (s_take 0 n s))
    | _, _ => Err
    end else
  if fis f "eval_dyad_drop" then
    match a, b with
    | VI n, VL l => Ok (VL (s_drop VU n l))
    | VI n, VS s => Ok (VS (s_drop 0 n s))
    | _, _ => Err
    end else
  if fis f "eval_dyad_rotate" then
    match a, b with
    | VI n, VL l => Ok (VL (s_rotate VU n l))
    | VI n, VS s => Ok (VS (s_rotate 0 n s))
    | VI n, _ => Ok b
    | _, _ => Err
    end else
  if fis f "eval_dyad_split" then
    match b with
    | VL l => Ok (lists (s_split VU (zints a) l))
    | VS s => Ok (strs (s_split 0 (zints a) s))
    | _ => Err
    end else
  if fis f "eval_dyad_cut" then
    match b with
    | VL l => Ok (lists (s_cut VU (zints a) l))
    | VS s => Ok (strs (s_cut 0 (zints a) s))
    | _ => Err
    end else
  if fis f "eval_dyad_join" then
    match a, b with
    | VS s, VS t => Ok (VS (s ++ t))
    | VS s, VC c => Ok (VS (s ++ [c]))
    | VC c, VS t => Ok (VS (c :: t))
    | _, _ => Ok (VL (members a ++ members b))
    end else
  if fis f "eval_dyad_at_index" then
    match a, b with
    | VL l, VI i => Ok (ix VU l i)
    | VS s, VI i => Ok (VC (ix 0 s i))
    | VL l, VL lb => Ok (VL (map (ix VU l) (zints b)))
    | VS s, VL lb => Ok (VS (map (ix 0 s) (zints b)))
    | _, _ => Err
    end else
  if fis f "eval_dyad_find" then
    match a, b with
    | VS s, VC c => Ok (VL (s_find_sub [c] s))
    | VS s, VS t => Ok (VL (s_find_sub t s))
    | VL l, _ => Ok (VL (s_positions 0 (fun x => s_same x b) l))
    | _, _ => Err
    end else
  if fis f "eval_dyad_match" then Ok (b2v (s_same a b)) else
  if fis f "eval_dyad_index_in_depth" then
    (match b with VI i => Ok (ix VU (members a) i) | _ => Ok (s_path a (zints b)) end) else
  if fis f "eval_dyad_amend_in_depth" then
    (match b with VL (v :: idx) => Ok (s_set_path a (zints (VL idx)) v) | _ => Err end) else
  if fis f "eval_dyad_amend" then
    (match a, b with
     | VL l, VL (v :: idx) => Ok (VL (s_amend_list l v (zints (VL idx))))
     | VS s, VL (VC c :: idx) => Ok (VS (s_amend_str s [c] (zints (VL idx))))
     | VS s, VL (VS t :: idx) => Ok (VS (s_amend_str s t (zints (VL idx))))
     | _, _ => Err end) else
  if fis f "eval_dyad_reshape" then
    let shape := zints a in
    match b with
    | VS s =>
        (match a, shape with
         | VI n, _ => if n =? 0 then Ok b else Ok (VS (s_fill 0 n s))
         | _, [n] => Ok (VS (s_fill 0 (if n <? 0 then zlen s / 2 else n) s))
         | _, [n; m] =>
             let n' := if n <? 0 then zlen s / 2 else n in
             let m' := if m <? 0 then zlen s / 2 else m in
             Ok (VL (tab n' (fun i => VS (tab m' (fun k => ix 0 s ((i * m' + k) mod zlen s))))))
         | _, _ => Err
         end)
    | VC c =>
        (match a, shape with
         | VI n, _ => if n =? 0 then Ok b else Ok (VS (s_fill 0 n [c]))
         | _, [n] => Ok (VS (s_fill 0 n [c]))
         | _, [n; m] => Ok (VL (tab n (fun _ => VS (s_fill 0 m [c]))))
         | _, _ => Err
         end)
    | _ =>
        let src := members b in
        match a with
        | VI n => if n =? 0 then Ok b else Ok (s_build [n] 0 src)
        | _ => Ok (s_build (map (fun z => if z <? 0 then zlen src / 2 else z) shape) 0 src)
        end
    end else
  Err
  end.

Definition shape_ok (a : val) (srclen : Z) : bool :=
  match a with
  | VI n => 0 <=? n
  | VL (x :: r) =>
      (npdepth a =? 1)%nat &&
      forallb (fun v => match v with VI n => (0 <? n) || ((n =? -1) && (2 <=? srclen)) | _ => false end) (x :: r)
  | _ => false
  end.

Definition dom_dyad (f : string) (a b : val) : bool :=
  match sc_of f with
  | Some _ =>
      conformable a b &&
      ((all_pairs (scdom_of f) a b &&
        (negb (fis f "eval_dyad_divide") || all_leaves (fun y => is_num y && negb (is_zero y)) b)) ||
       ((fis f "eval_dyad_divide") && negb (is_arr a) && negb (is_arr b) && both_num a b) ||
       ((fis f "eval_dyad_integer_divide") && negb (is_arr a) && negb (is_arr b) && is_int a && is_int b))
  | None =>
  if fis f "eval_dyad_take" then
    match a, b with
    | VI n, VL l => negb (zlen l =? 0) || (n =? 0)
    | VI n, VS s => negb (zlen s =? 0) || (n =? 0)
    | _, _ => false
    end else
  if fis f "eval_dyad_drop" then is_int a && is_list_or_str b else
  if fis f "eval_dyad_rotate" then is_int a && is_list_or_str b else
  if fis f "eval_dyad_split" then sizes_ok a && is_list_or_str b else
  if fis f "eval_dyad_cut" then
    match a, b with
    | VI n, VL l => (0 <=? n) && (n <=? zlen l) && (0 <? zlen l)
    | VI n, VS s => (0 <=? n) && (n <=? zlen s) && (0 <? zlen s)
    | VL (x :: r), VL l => (npdepth a =? 1)%nat && forallb is_int (x :: r) && incr_within 0 (zlen l) (zints a) && (0 <? zlen l)
    | VL (x :: r), VS s => (npdepth a =? 1)%nat && forallb is_int (x :: r) && incr_within 0 (zlen s) (zints a) && (0 <? zlen s)
    | _, _ => false
    end else
  if fis f "eval_dyad_join" then (match a, b with VC _, VC _ => false | _, _ => true end) else
  if fis f "eval_dyad_at_index" then
    let n := match a with VL l => zlen l | VS s => zlen s | _ => 0 end in
    is_list_or_str a &&
    match b with
    | VI i => (0 <=? i) && (i <? n)
    | VL lb => (npdepth b =? 1)%nat && forallb (fun v => match v with VI i => (0 <=? i) && (i <? n) | _ => false end) lb
    | _ => false
    end else
  if fis f "eval_dyad_find" then
    match a, b with
    | VS _, VC _ | VS _, VS _ => true
    | VL l, _ => negb (match b with VU => true | _ => false end) &&
                 forallb (fun x => match_kinds_ok x b && negb (k_close x b)) l
    | _, _ => false
    end else
  if fis f "eval_dyad_match" then match_kinds_ok a b && negb (k_close a b) else
  if fis f "eval_dyad_index_in_depth" then
    (match a, b with
     | VL l, VI i => (npdepth a =? 1)%nat && (0 <=? i) && (i <? zlen l)
     | VL l, VL (x :: r) => (npdepth b =? 1)%nat && forallb is_int (x :: r) && path_ok a (zints b)
     | _, _ => false end) else
  if fis f "eval_dyad_amend_in_depth" then
    (match a, b with
     | VL l, VL (v :: x :: r) => is_rect a && (npdepth b =? 1)%nat && negb (is_arr v) && forallb is_int (x :: r) &&
                                 (List.length (x :: r) =? npdepth a)%nat && path_ok a (zints (VL (x :: r)))
     | _, _ => false end) else
  if fis f "eval_dyad_amend" then
    (match a, b with
     | VL l, VL (v :: x :: r) => (npdepth a <=? 1)%nat && negb (ndim_gt1 a) && (npdepth b =? 1)%nat &&
                                 forallb (fun y => match y with VI i => (0 <=? i) && (i <? zlen l) | _ => false end) (x :: r)
     | VS s, VL (VC _ :: x :: r) => (npdepth b =? 1)%nat &&
                                 forallb (fun y => match y with VI i => (0 <=? i) && (i <? zlen s) | _ => false end) (x :: r)
     | VS s, VL (VS t :: x :: r) => (npdepth b =? 1)%nat &&
                                 forallb (fun y => match y with VI i => (0 <=? i) && (i + zlen t <=? zlen s) | _ => false end) (x :: r)
     | _, _ => false end) else
  if fis f "eval_dyad_reshape" then
    match b with
    | VS s => shape_ok a (zlen s) && (negb (zlen s =? 0)) && (List.length (zints a) <=? 2)%nat
    | VL l => shape_ok a (zlen l) && (negb (zlen l =? 0)) &&
              (forallb (fun x => negb (is_arr x)) l || (List.length (zints a) =? 1)%nat)
    | VC _ => shape_ok a 1 && forallb (fun z => 0 <=? z) (zints a) && (List.length (zints a) <=? 2)%nat
    | _ => shape_ok a 1 && forallb (fun z => 0 <=? z) (zints a)
    end else
  false
  end.

(* known-finding classes: "" = none *)
(* structural equality of binary64 values *)
Definition real_eqb (x y : real) : bool :=
  match x, y with
  | S754_zero s, S754_zero t => Bool.eqb s t
  | S754_infinity s, S754_infinity t => Bool.eqb s t
  | S754_nan, S754_nan => true
  | S754_finite s m e, S754_finite t n f => Bool.eqb s t && Pos.eqb m n && (e =? f)
  | _, _ => false
  end.

Fixpoint val_eqb (a b : val) {struct a} : bool :=
  match a, b with
  | VI x, VI y => x =? y
  | VR x, VR y => real_eqb x y
  | VC x, VC y => x =? y
  | VS s, VS t => zs_eqb s t
  | VY s, VY t => zs_eqb s t
  | VU, VU => true
  | VL la, VL lb =>
      same2 val_eqb la lb
  | _, _ => false
  end.

Definition is_normal (v : val) : bool := val_eqb (norm v) v.
Definition res_normal (r : res) : bool := match r with Ok v => is_normal v | _ => true end.

Definition k_dyad (f : string) (a b : val) : string :=
  if negb (is_normal a && is_normal b) then "homogenise" else
  match sc_of f with
  | Some _ =>
      if no_object_loop f && (is_obj a || is_obj b) then "no-object-loop" else
      if via_vec2 f then (if kb_vec a b then "broadcast" else if negb (res_normal (s_dyad f a b)) then "homogenise" else "")
      else (if kb_np a b then "broadcast" else "")
  | None =>
  if fis f "eval_dyad_take" then
    "" else
  if fis f "eval_dyad_rotate" then
    (if ndim_gt1 b && negb rotate_uses_axis0 then "rotate-matrix" else "") else
  if fis f "eval_dyad_split" then
    (match a with
     | VI n => if negb split_by_segment_size && (n <? zlen (match b with VS s => chars s | _ => members b end)) then "split-even" else ""
     | VL [VI n] => if negb split_by_segment_size && (n <? zlen (match b with VS s => chars s | _ => members b end)) then "split-even" else ""
     | _ => "" end) else
  if fis f "eval_dyad_join" then
    (if negb (res_normal (s_dyad f a b)) then "homogenise" else "") else
  if fis f "eval_dyad_at_index" then (if negb (res_normal (s_dyad f a b)) then "homogenise" else "") else
  if fis f "eval_dyad_match" then "" else
  if (fis f "eval_dyad_amend") || (fis f "eval_dyad_amend_in_depth") then
    (* numpy.put / item assignment cast the new value to the dtype of a numeric array *)
    (* an integer stored into a real array becomes real *)
    (if negb (res_normal (s_dyad f a b)) || (is_rect a && has_real a && match b with VL (VI _ :: _) => true | _ => false end)
     then "homogenise" else "") else
  if fis f "eval_dyad_find" then
    (match a, b with
     | VL l, VL _ => ""
     | VL l, _ => ""
     | _, _ => "" end) else
  if fis f "eval_dyad_reshape" then
    (match b with
     | VY _ => if reshape_guards_symbols then "" else "reshape-symbol"
     | VC _ => ""
     | VL l => ""
     | _ => "" end) else
  ""
  end.

(* ------------------------------------------------------------------ monads *)
(* Shape: 0 for atoms (also [] and ""), ,#S for a string, and for a list #L followed by the common shape of its
   members when they are all lists / strings of one shape (row-major); otherwise the list is a vector *)
Fixpoint s_shape_of (v : val) : list Z :=
  match v with
  | VS s => [zlen s]
  | VL [] => [0]
  | VL (x :: r) =>
      let shapes := map s_shape_of (x :: r) in
      let sh := hd [] shapes in
      zlen (x :: r) :: (if forallb (fun t => list_eqb Z.eqb t sh) shapes then sh else [])
  | _ => []
  end.
Definition s_shape (a : val) : val :=
  match a with
  | VS [] | VL [] => VI 0
  | VS _ | VL _ => VL (map VI (s_shape_of a))
  | _ => VI 0
  end.

Fixpoint has_strlike_atom_member (v : val) : bool :=
  match v with
  | VL l => existsb (fun y => match y with VC _ | VY _ | VS [] | VL [] => true | _ => has_strlike_atom_member y end) l
  | _ => false
  end.

(* Grade: the indices ordered by (key, index): index i comes at the rank = number of indices before it in that order *)
Definition s_grade_ranks {K} (ltb : K -> K -> bool) (eqb : K -> K -> bool) (keys : list K) (d : K) : list val :=
  let n := List.length keys in
  let before (j i : nat) := ltb (nth j keys d) (nth i keys d) || (eqb (nth j keys d) (nth i keys d) && (j <? i)%nat) in
  let rank (i : nat) := List.length (filter (fun j => before j i) (seq 0 n)) in
  flat_map (fun r => flat_map (fun i => if (rank i =? r)%nat then [VI (Z.of_nat i)] else []) (seq 0 n)) (seq 0 n).

Definition num_ltb (a b : val) : bool := num_leb a b && negb (num_eqb a b).
Definition is_num_vector (a : val) : bool := match rshape a with Some [_] => true | _ => false end.

Fixpoint no_dups {K} (eqb : K -> K -> bool) (l : list K) : bool :=
  match l with [] => true | x :: r => negb (existsb (eqb x) r) && no_dups eqb r end.

(* Group: for every distinct member, in order of first appearance, the ascending list of its positions *)
(* one group per member that matches no earlier member, in that order; the group lists every position matching it *)
Definition s_group {K} (eqb : K -> K -> bool) (d : K) (l : list K) : val :=
  VL (map (fun k => VL (positions_of eqb k 0 l)) (firsts eqb d l)).
(* Match is an equivalence on the members (decidable check; it fails only for NaN-like values) *)
Definition eqv_on (e : val -> val -> bool) (l : list val) : bool :=
  forallb (fun x => e x x && forallb (fun y => (negb (e x y) || e y x) &&
                                      forallb (fun z => negb (e x y && e y z) || e x z) l) l) l.

(* Floor: an integer when the floored value lies strictly inside (-2^63, 2^63), otherwise the (already integral) real *)
Definition s_floor_fits : val -> bool := floor_fits_gen true.
Definition s_floor : val -> res := sc_floor_gen true.

Definition s_monad (f : string) (a : val) : res :=
  if fis f "eval_monad_atom" then Ok (b2v (match a with VL (_ :: _) | VS (_ :: _) => false | _ => true end)) else
  if fis f "eval_monad_char" then s1 sc_char a else
  if fis f "eval_monad_enumerate" then (match a with VI n => Ok (VL (tab n VI)) | _ => Err end) else
  if fis f "eval_monad_expand_where" then
    (match a with
     | VI n => Ok (VL (tab n (fun _ => VI 0)))
     | VL l => Ok (VL (flat_map (fun i => match nth i l VU with VI n => tab n (fun _ => VI (Z.of_nat i)) | _ => [] end) (seq 0 (List.length l))))
     | _ => Err end) else
  if fis f "eval_monad_first" then
    (match a with VL (x :: _) => Ok x | VS (c :: _) => Ok (VC c) | _ => Ok a end) else
  if fis f "eval_monad_floor" then s1 s_floor a else
  if fis f "eval_monad_list" then (match a with VC c => Ok (VS [c]) | _ => Ok (VL [a]) end) else
  if fis f "eval_monad_negate" then s1 sc_neg a else
  if fis f "eval_monad_reciprocal" then (if negb (is_arr a) && is_zero a then Ok VU else s1 sc_recip a) else
  if fis f "eval_monad_reverse" then
    (match a with VL l => Ok (VL (s_reverse VU l)) | VS s => Ok (VS (s_reverse 0 s)) | _ => Ok a end) else
  if fis f "eval_monad_size" then
    (match a with
     | VI x => Ok (VI (Z.abs x)) | VR x => Ok (VR (SFabs x)) | VC c => Ok (VI c)
     | VS s => Ok (VI (zlen s)) | VL l => Ok (VI (zlen l)) | _ => Err end) else
  if fis f "eval_monad_shape" then Ok (s_shape a) else
  if fis f "eval_monad_transpose" then
    (match a with
     | VL [] => Ok a
     | VL (VL row :: r) =>
         Ok (VL (tab (zlen row) (fun j => VL (tab (zlen (VL row :: r)) (fun i => ix VU (members (ix VU (VL row :: r) i)) j)))))
     | _ => Err end) else
  if fis f "eval_monad_not" then
    Ok (b2v (match a with VI z => z =? 0 | VR r => is_real_zero r | VL [] | VS [] => true | _ => false end)) else
  if fis f "eval_monad_grade_up" then
    (match a with
     | VS s => Ok (VL (s_grade_ranks Z.ltb Z.eqb s 0))
     | VL l => Ok (VL (s_grade_ranks num_ltb num_eqb l VU))
     | _ => Err end) else
  if fis f "eval_monad_grade_down" then
    (match a with
     | VS s => Ok (VL (s_grade_ranks Z.gtb Z.eqb s 0))
     | VL l => Ok (VL (s_grade_ranks (fun x y => num_ltb y x) num_eqb l VU))
     | _ => Err end) else
  if fis f "eval_monad_groupby" then
    (match a with
     | VS s => Ok (s_group Z.eqb 0 s)
     | VL l => Ok (s_group s_same VU l)
     | _ => Err end) else
  if fis f "eval_monad_range" then
    (match a with
     | VS s => Ok (VS (dedup_by Z.eqb [] s))
     | VL l => Ok (VL (dedup_by s_same [] l))
     | _ => Err end) else
  Err.


Definition dom_monad (f : string) (a : val) : bool :=
  if fis f "eval_monad_atom" then true else
  if fis f "eval_monad_char" then all_leaves (fun v => match v with VI x => (0 <=? x) && (x <? 1114112) | _ => false end) a else
  if fis f "eval_monad_enumerate" then (match a with VI n => 0 <=? n | _ => false end) else
  if fis f "eval_monad_expand_where" then
    (match a with VI n => 0 <=? n | VL l => forallb (fun v => match v with VI n => 0 <=? n | _ => false end) l | _ => false end) else
  if fis f "eval_monad_first" then true else
  if fis f "eval_monad_floor" then all_leaves (fun v => match v with VI _ => true | VR r => match rfloor_exact r with Some _ => true | None => false end | _ => false end) a else
  if fis f "eval_monad_list" then true else
  if fis f "eval_monad_negate" then all_leaves is_num a else
  if fis f "eval_monad_reciprocal" then (negb (is_arr a) && is_num a) || all_leaves (fun v => is_num v && negb (is_zero v)) a else
  if fis f "eval_monad_reverse" then true else
  if fis f "eval_monad_size" then (match a with VY _ | VU => false | _ => true end) else
  if fis f "eval_monad_shape" then (match a with VU => false | _ => true end) else
  if fis f "eval_monad_transpose" then (match a with VL [] => true | VL _ => (match rshape a with Some [_; S _] => true | _ => false end) | _ => false end) else
  if fis f "eval_monad_not" then (match a with VU => false | _ => negb (is_arr a) || is_empty a end) else
  if fis f "eval_monad_grade_up" then (match a with VS _ => true | VL _ => is_num_vector a | _ => false end) else
  if fis f "eval_monad_grade_down" then
    (match a with VS s => no_dups Z.eqb s | VL l => is_num_vector a && no_dups num_eqb l | _ => false end) else
  if fis f "eval_monad_groupby" then
    (match a with
     | VS _ => true
     | VL l => forallb (fun x => forallb (fun y => match_kinds_ok x y && negb (k_close x y)) l) l && eqv_on s_same l
     | _ => false end) else
  if fis f "eval_monad_range" then
    (match a with
     | VS _ => true
     | VL l => forallb (fun x => forallb (fun y => match_kinds_ok x y && negb (k_close x y)) l) l
     | _ => false end) else
  false.

Definition k_monad (f : string) (a : val) : string :=
  if negb (is_normal a) then "homogenise" else
  if fis f "eval_monad_floor" then (if negb (res_normal (s_monad f a)) then "homogenise" else "") else
  if fis f "eval_monad_reverse" then (if negb reverse_guards_atoms && negb (is_list_or_str a) then "reverse-atom" else "") else
  if fis f "eval_monad_list" then (if negb (res_normal (s_monad f a)) then "homogenise" else "") else
  if fis f "eval_monad_range" then
    (match a with
     | VL l => if negb (res_normal (s_monad f a)) then "homogenise" else ""
     | _ => "" end) else
  "".
