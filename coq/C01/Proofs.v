From Coq Require Import ZArith List Bool String.
From C01 Require Import Generated Model Spec.
