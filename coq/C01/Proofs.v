(* C01/Proofs.v — lemmas behind Properties.v *)
From Coq Require Import ZArith List Bool String Lia Arith.
From Coq Require Import Floats.SpecFloat.
From C01 Require Import Generated Model Spec.
Import ListNotations.
Open Scope list_scope.
Open Scope Z_scope.

(* ------------------------------------------------------------------ result monad *)
Lemma rmap_ext : forall {A B} (f g : A -> result B) l,
  (forall x, In x l -> f x = g x) -> rmap f l = rmap g l.
Proof.
  induction l as [|x r IH]; intros H; [reflexivity|].
  cbn [rmap]. rewrite (H x (or_introl eq_refl)). rewrite IH; [reflexivity|].
  intros y Hy. apply H. right. exact Hy.
Qed.

Lemma rzip_ext : forall {A B C} (f g : A -> B -> result C) la lb,
  (forall x y, In x la -> In y lb -> f x y = g x y) -> rzip f la lb = rzip g la lb.
Proof.
  induction la as [|x la IH]; intros lb H; destruct lb as [|y lb]; try reflexivity.
  cbn [rzip]. rewrite (H x y (or_introl eq_refl) (or_introl eq_refl)).
  rewrite (IH lb); [reflexivity|].
  intros x' y' Hx Hy. apply H; right; assumption.
Qed.

(* ------------------------------------------------------------------ shapes *)
Lemma nat_list_eqb_eq : forall a b, list_eqb Nat.eqb a b = true -> a = b.
Proof.
  induction a as [|x a IH]; destruct b as [|y b]; cbn; intros H; try reflexivity; try discriminate.
  apply andb_true_iff in H. destruct H as [H1 H2]. apply Nat.eqb_eq in H1. subst. f_equal. apply IH. exact H2.
Qed.

Lemma nat_list_eqb_refl : forall a, list_eqb Nat.eqb a a = true.
Proof. induction a as [|x a IH]; cbn; [reflexivity|]. rewrite Nat.eqb_refl. exact IH. Qed.

Lemma shape_eqb_some : forall o s, shape_eqb o (Some s) = true -> o = Some s.
Proof. intros [x|] s H; cbn in H; [|discriminate]. apply nat_list_eqb_eq in H. subst. reflexivity. Qed.

Lemma shape_eqb_true : forall a b, shape_eqb a b = true -> exists s, a = Some s /\ b = Some s.
Proof.
  intros [x|] [y|] H; cbn in H; try discriminate. apply nat_list_eqb_eq in H. subst. exists y. split; reflexivity.
Qed.

Lemma rshape_list : forall l sh, rshape (VL l) = Some sh ->
  exists s, sh = List.length l :: s /\ Forall (fun y => rshape y = Some s) l.
Proof.
  intros l sh H. destruct l as [|x r].
  - cbn in H. inversion H. exists []. split; [reflexivity|constructor].
  - cbn [rshape] in H. destruct (rshape x) as [s|] eqn:Hx; [|discriminate].
    destruct (forallb (fun y => shape_eqb (rshape y) (Some s)) r) eqn:Hall; [|discriminate].
    inversion H. exists s. split; [reflexivity|].
    constructor; [exact Hx|].
    apply Forall_forall. intros y Hy. rewrite forallb_forall in Hall. apply shape_eqb_some. apply Hall. exact Hy.
Qed.

Lemma rshape_nil_atom : forall v, rshape v = Some [] -> is_num v = true.
Proof.
  intros v H. destruct v as [z|r|c|s|s|l|]; try reflexivity; try (cbn in H; discriminate).
  destruct (rshape_list _ _ H) as [s [E _]]. discriminate.
Qed.

Lemma rshape_cons_list : forall v d s, rshape v = Some (d :: s) -> exists l, v = VL l.
Proof. intros v d s H. destruct v; cbn in H; try discriminate. eexists; reflexivity. Qed.

Lemma is_num_not_arr : forall v, is_num v = true -> is_arr v = false.
Proof. destruct v; cbn; intros; try discriminate; reflexivity. Qed.

(* ------------------------------------------------------------------ unfolding the spec *)
Lemma s2_lists : forall f la lb, s2 f (VL la) (VL lb) = okl (rzip (s2 f) la lb).
Proof.
  intros f la lb. reflexivity.
Qed.

Lemma s2_list_atom : forall f la b, is_arr b = false -> s2 f (VL la) b = okl (rmap (fun x => s2 f x b) la).
Proof. intros f la b H. destruct b; try reflexivity. discriminate. Qed.

Lemma s2_atom : forall f a b, is_arr a = false -> s2 f a b = sright f a b.
Proof. intros f a b H. destruct a; try reflexivity. discriminate. Qed.

Lemma sright_list : forall f a lb, sright f a (VL lb) = okl (rmap (sright f a) lb).
Proof. reflexivity. Qed.

Lemma sright_atom : forall f a b, is_arr b = false -> sright f a b = f a b.
Proof. intros f a b H. destruct b; try reflexivity. discriminate. Qed.

Lemma same2_combine : forall f la lb, same2 f la lb = true ->
  List.length la = List.length lb /\ (forall x y, In (x, y) (combine la lb) -> f x y = true).
Proof.
  intros f. induction la as [|x la IH]; intros lb H; destruct lb as [|y lb]; try discriminate.
  - split; [reflexivity|]. intros ? ? [].
  - cbn [same2] in H. apply andb_true_iff in H. destruct H as [H1 H2]. destruct (IH lb H2) as [L R].
    split; [cbn; f_equal; exact L|].
    intros x' y' [E|Hin]; [inversion E; subst; exact H1|apply R; exact Hin].
Qed.

Lemma all2_combine : forall f la lb, all2 f la lb = true ->
  forall x y, In (x, y) (combine la lb) -> f x y = true.
Proof.
  intros f. induction la as [|x la IH]; intros lb H x' y' Hin; destruct lb as [|y lb]; try (destruct Hin; fail).
  cbn [all2] in H. apply andb_true_iff in H. destruct H as [H1 H2].
  destruct Hin as [E|Hin]; [inversion E; subst; exact H1|eapply IH; eassumption].
Qed.

Lemma any2_combine : forall f la lb, any2 f la lb = false ->
  forall x y, In (x, y) (combine la lb) -> f x y = false.
Proof.
  intros f. induction la as [|x la IH]; intros lb H x' y' Hin; destruct lb as [|y lb]; try (destruct Hin; fail).
  cbn [any2] in H. apply orb_false_iff in H. destruct H as [H1 H2].
  destruct Hin as [E|Hin]; [inversion E; subst; exact H1|eapply IH; eassumption].
Qed.

Lemma conformable_lists : forall la lb, conformable (VL la) (VL lb) = true ->
  List.length la = List.length lb /\ (forall x y, In (x, y) (combine la lb) -> conformable x y = true).
Proof. intros la lb H. apply same2_combine. exact H. Qed.

Lemma rzip_ext_combine : forall {A B C} (f g : A -> B -> result C) la lb,
  (forall x y, In (x, y) (combine la lb) -> f x y = g x y) -> rzip f la lb = rzip g la lb.
Proof.
  induction la as [|x la IH]; intros lb H; destruct lb as [|y lb]; try reflexivity.
  cbn [rzip]. rewrite (H x y (or_introl eq_refl)). rewrite (IH lb); [reflexivity|].
  intros x' y' Hin. apply H. right. exact Hin.
Qed.

Lemma in_combine_both : forall {A B} (la : list A) (lb : list B) x y, In (x, y) (combine la lb) -> In x la /\ In y lb.
Proof. intros. split; [eapply in_combine_l|eapply in_combine_r]; eassumption. Qed.

(* ------------------------------------------------------------------ NumPy broadcasting = member-wise extension
   on operands of equal shape, and scalar extension *)
Section BC.
  Variables elem g : val -> val -> res.
  Hypothesis elem_num : forall x y, is_arr x = false -> is_arr y = false -> elem x y = g x y.

  Lemma bc_same : forall sh n a b,
    rshape a = Some sh -> rshape b = Some sh -> (2 * List.length sh < n)%nat ->
    bc n elem (List.length sh) (List.length sh) a b = s2 g a b.
  Proof.
    induction sh as [|d s IH]; intros n a b Ha Hb Hn.
    - destruct n as [|n']; [cbn in Hn; lia|]. cbn [bc List.length].
      pose proof (rshape_nil_atom _ Ha) as Na. pose proof (rshape_nil_atom _ Hb) as Nb.
      rewrite (elem_num _ _ (is_num_not_arr _ Na) (is_num_not_arr _ Nb)). rewrite s2_atom by (apply is_num_not_arr; exact Na).
      rewrite sright_atom by (apply is_num_not_arr; exact Nb). reflexivity.
    - destruct (rshape_cons_list _ _ _ Ha) as [la Ea]. destruct (rshape_cons_list _ _ _ Hb) as [lb Eb]. subst a b.
      destruct (rshape_list _ _ Ha) as [sa [E1 Fa]]. destruct (rshape_list _ _ Hb) as [sb [E2 Fb]].
      inversion E1. inversion E2. subst sa sb. clear E1 E2.
      destruct n as [|n']; [cbn in Hn; lia|].
      cbn [List.length] in *. cbn [bc]. rewrite Nat.ltb_irrefl.
      assert (EL : (List.length la =? List.length lb)%nat = true) by (apply Nat.eqb_eq; congruence).
      rewrite EL. rewrite s2_lists. f_equal.
      apply rzip_ext. intros x y Hx Hy.
      rewrite Forall_forall in Fa, Fb. apply IH; [apply Fa; exact Hx|apply Fb; exact Hy|lia].
  Qed.

  Lemma bc_left : forall sh n a b,
    is_arr a = false -> rshape b = Some sh -> (List.length sh < n)%nat ->
    bc n elem O (List.length sh) a b = sright g a b.
  Proof.
    induction sh as [|d s IH]; intros n a b Na Hb Hn.
    - destruct n as [|n']; [lia|]. cbn [bc List.length].
      pose proof (rshape_nil_atom _ Hb) as Nb.
      rewrite (elem_num _ _ Na (is_num_not_arr _ Nb)). rewrite sright_atom by (apply is_num_not_arr; exact Nb). reflexivity.
    - destruct (rshape_cons_list _ _ _ Hb) as [lb Eb]. subst b.
      destruct (rshape_list _ _ Hb) as [sb [E2 Fb]]. inversion E2. subst sb. clear E2.
      destruct n as [|n']; [lia|]. cbn [List.length] in *. cbn [bc]. rewrite sright_list. f_equal.
      apply rmap_ext. intros y Hy. rewrite Forall_forall in Fb. apply IH; [exact Na|apply Fb; exact Hy|lia].
  Qed.

  Lemma bc_right : forall sh n a b,
    is_arr b = false -> rshape a = Some sh -> (List.length sh < n)%nat ->
    bc n elem (List.length sh) O a b = s2 g a b.
  Proof.
    induction sh as [|d s IH]; intros n a b Nb Ha Hn.
    - destruct n as [|n']; [lia|]. cbn [bc List.length].
      pose proof (rshape_nil_atom _ Ha) as Na.
      rewrite (elem_num _ _ (is_num_not_arr _ Na) Nb). rewrite s2_atom by (apply is_num_not_arr; exact Na).
      rewrite sright_atom by exact Nb. reflexivity.
    - destruct (rshape_cons_list _ _ _ Ha) as [la Ea]. subst a.
      destruct (rshape_list _ _ Ha) as [sa [E2 Fa]]. inversion E2. subst sa. clear E2.
      destruct n as [|n']; [lia|]. cbn [List.length] in *. cbn [bc].
      rewrite s2_list_atom by exact Nb. f_equal.
      apply rmap_ext. intros x Hx. rewrite Forall_forall in Fa. apply IH; [exact Nb|apply Fa; exact Hx|lia].
  Qed.
End BC.

(* ------------------------------------------------------------------ facts about depth / leaves *)
Lemma depth_in : forall l x, In x l -> (depth x < depth (VL l))%nat.
Proof.
  intros l x H. cbn [depth]. induction l as [|y l IH]; [destruct H|].
  cbn [fold_right]. destruct H as [E|H]; [subst; lia|]. specialize (IH H). lia.
Qed.

Lemma all_leaves_in : forall p l x, all_leaves p (VL l) = true -> In x l -> all_leaves p x = true.
Proof. intros p l x H Hin. cbn [all_leaves] in H. rewrite forallb_forall in H. apply H. exact Hin. Qed.

Lemma all_leaves_atom : forall p v, is_arr v = false -> all_leaves p v = p v.
Proof. intros p v H. destruct v; try discriminate; reflexivity. Qed.

Lemma num_tree_cases : forall v, all_leaves is_num v = true -> is_num v = true \/ exists l, v = VL l.
Proof. intros v H. destruct v; cbn in H; try discriminate; auto. right. eexists; reflexivity. Qed.

Lemma num_tree_not_str : forall v, all_leaves is_num v = true -> is_strlike v = false.
Proof. intros v H. destruct v; cbn in H; try discriminate; reflexivity. Qed.

Lemma conformable_atom_l : forall a b, is_arr a = false -> conformable a b = true.
Proof. intros a b H. destruct a; try discriminate; reflexivity. Qed.
Lemma conformable_atom_r : forall a b, is_arr b = false -> conformable a b = true.
Proof. intros a b H. destruct a; destruct b; try discriminate; reflexivity. Qed.

Lemma kb_np_atom_l : forall a b, is_arr a = false -> kb_np a b = false.
Proof. intros a b H. destruct a; try discriminate; reflexivity. Qed.

Lemma is_obj_list : forall l, is_obj (VL l) = true -> rshape (VL l) = None /\ l <> [].
Proof.
  intros l H. unfold is_obj, is_rect in H. cbn [is_arr andb] in H.
  destruct (rshape (VL l)) eqn:E; [discriminate|]. split; [reflexivity|]. intros ->. cbn in E. discriminate.
Qed.

Lemma not_obj_list : forall l, is_obj (VL l) = false -> exists sh, rshape (VL l) = Some sh.
Proof.
  intros l H. unfold is_obj, is_rect in H. cbn [is_arr andb] in H.
  destruct (rshape (VL l)) eqn:E; [eexists; reflexivity|discriminate].
Qed.

Lemma is_obj_num : forall v, is_num v = true -> is_obj v = false.
Proof. destruct v; cbn; intros; try discriminate; reflexivity. Qed.

Lemma npdepth_rect : forall l sh, rshape (VL l) = Some sh -> npdepth (VL l) = List.length sh.
Proof. intros l sh H. unfold npdepth. rewrite H. reflexivity. Qed.
Lemma npdepth_obj : forall l, rshape (VL l) = None -> npdepth (VL l) = 1%nat.
Proof. intros l H. unfold npdepth. rewrite H. reflexivity. Qed.
Lemma npdepth_num : forall v, is_num v = true -> npdepth v = O.
Proof. destruct v; cbn; intros; try discriminate; reflexivity. Qed.

Lemma npshape_rect : forall l sh, rshape (VL l) = Some sh -> npshape (VL l) = Some sh.
Proof. intros l sh H. unfold npshape. rewrite H. reflexivity. Qed.
Lemma npshape_obj : forall l, rshape (VL l) = None -> npshape (VL l) = Some [List.length l].
Proof. intros l H. unfold npshape. rewrite H. reflexivity. Qed.

Lemma all_pairs_atom_l : forall p a b, is_arr a = false -> all_pairs p a b = all_right p a b.
Proof. intros p a b H. destruct a; try discriminate; reflexivity. Qed.
Lemma all_right_list : forall p a lb, lb <> [] -> all_right p a (VL lb) = forallb (all_right p a) lb.
Proof. intros p a lb H. destruct lb; [congruence|reflexivity]. Qed.
Lemma all_right_atom : forall p a b, is_arr b = false -> all_right p a b = p a b.
Proof. intros p a b H. destruct b; try discriminate; reflexivity. Qed.
Lemma all_pairs_list_atom : forall p la b, is_arr b = false -> la <> [] ->
  all_pairs p (VL la) b = forallb (fun x => all_pairs p x b) la.
Proof. intros p la b H Hn. destruct b; try discriminate; destruct la; try congruence; reflexivity. Qed.
Lemma all_pairs_atoms : forall p a b, is_arr a = false -> is_arr b = false -> all_pairs p a b = p a b.
Proof. intros. rewrite all_pairs_atom_l by assumption. apply all_right_atom. assumption. Qed.

Lemma is_rect_list : forall l, is_rect (VL l) = true -> exists sh, rshape (VL l) = Some sh.
Proof. intros l H. unfold is_rect in H. destruct (rshape (VL l)); [eexists; reflexivity|discriminate]. Qed.
Lemma is_rect_of_shape : forall l sh, rshape (VL l) = Some sh -> is_rect (VL l) = true.
Proof. intros l sh H. unfold is_rect. rewrite H. reflexivity. Qed.
Lemma is_obj_of_none : forall l, rshape (VL l) = None -> is_obj (VL l) = true.
Proof. intros l H. unfold is_obj, is_rect. rewrite H. reflexivity. Qed.
Lemma is_obj_of_shape : forall l sh, rshape (VL l) = Some sh -> is_obj (VL l) = false.
Proof. intros l sh H. unfold is_obj, is_rect. rewrite H. reflexivity. Qed.

Lemma num_not_arr_cases : forall y, all_leaves is_num y = true -> is_arr y = false -> is_num y = true.
Proof. intros y H Ha. destruct (num_tree_cases y H) as [|[l ->]]; [assumption|discriminate]. Qed.

Lemma kb_np_list_atom_eq : forall la b, is_arr b = false ->
  kb_np (VL la) b = if is_rect (VL la) then false else existsb (fun x => kb_np x b) la.
Proof. intros la b H. destruct b; try discriminate; reflexivity. Qed.

Lemma kb_np_list_atom : forall la b, is_arr b = false -> rshape (VL la) = None -> kb_np (VL la) b = false ->
  forall x, In x la -> kb_np x b = false.
Proof.
  intros la b Hb Ra Hk x Hx. rewrite kb_np_list_atom_eq in Hk by exact Hb.
  unfold is_rect in Hk. rewrite Ra in Hk.
  destruct (kb_np x b) eqn:Ek; [|reflexivity].
  assert (Hex : existsb (fun x0 => kb_np x0 b) la = true) by (apply existsb_exists; exists x; split; assumption).
  rewrite Hex in Hk. discriminate.
Qed.

(* ------------------------------------------------------------------ T1.atomic for verbs that call a NumPy ufunc directly *)
Section NP2.
  Variables sf sfpy : val -> val -> res.
  Variable okb : val -> bool.
  Hypothesis Hpy : forall x y, okb y = true -> sfpy x y = sf x y.

  Definition E (fuel' : nat) (a b : val) : val -> val -> res := fun x y =>
     if is_arr x || is_arr y then np2 fuel' ObjRec sf sfpy x y
     else if is_obj a || is_obj b then sfpy x y else sf x y.

  Lemma np2_unfold : forall fuel' a b, is_strlike a = false -> is_strlike b = false ->
    np2 (S fuel') ObjRec sf sfpy a b = bcast (E fuel' a b) (npdepth a) (npdepth b) a b.
  Proof. intros fuel' a b Ha Hb. cbn [np2]. rewrite andb_false_r. rewrite Ha, Hb. reflexivity. Qed.

  Lemma E_nums : forall fuel' a b, is_obj a = false -> is_obj b = false ->
    forall x y, is_arr x = false -> is_arr y = false -> E fuel' a b x y = sf x y.
  Proof.
    intros fuel' a b Oa Ob x y Nx Ny. unfold E. rewrite Nx, Ny, Oa, Ob. reflexivity.
  Qed.

  Theorem np2_rec_spec : forall fuel a b,
    (depth a + depth b < fuel)%nat ->
    all_leaves is_num a = true -> all_leaves is_num b = true ->
    conformable a b = true -> kb_np a b = false -> all_leaves okb b = true ->
    np2 fuel ObjRec sf sfpy a b = s2 sf a b.
  Proof.
    induction fuel as [|fuel' IH]; intros a b Hd Na Nb Hc Hk Hp; [lia|].
    rewrite np2_unfold by (apply num_tree_not_str; assumption).
    unfold bcast.
    destruct (num_tree_cases a Na) as [An|[la ->]]; destruct (num_tree_cases b Nb) as [Bn|[lb ->]].
    - (* atom, atom *)
      rewrite (npdepth_num a An), (npdepth_num b Bn). cbn [bc Nat.add].
      rewrite (E_nums fuel' a b (is_obj_num a An) (is_obj_num b Bn) a b (is_num_not_arr a An) (is_num_not_arr b Bn)).
      rewrite s2_atom by (apply is_num_not_arr; exact An).
      rewrite sright_atom by (apply is_num_not_arr; exact Bn). reflexivity.
    - (* atom, list *)
      pose proof (is_num_not_arr a An) as Aa.
      rewrite (npdepth_num a An). rewrite s2_atom by exact Aa.
      destruct (rshape (VL lb)) as [sh|] eqn:Rb.
      + rewrite (npdepth_rect _ _ Rb).
        apply (bc_left (E fuel' a (VL lb)) sf (E_nums fuel' a (VL lb) (is_obj_num a An) (is_obj_of_shape _ _ Rb)) sh).
        * exact Aa.
        * exact Rb.
        * cbn. lia.
      + pose proof (is_obj_of_none _ Rb) as Ob. destruct (is_obj_list _ Ob) as [_ Nel].
        rewrite (npdepth_obj _ Rb). cbn [bc Nat.add]. rewrite sright_list. f_equal.
        apply rmap_ext. intros y Hy. pose proof (all_leaves_in _ _ _ Hp Hy) as Hpy'.
        pose proof (all_leaves_in _ _ _ Nb Hy) as Ny. pose proof (depth_in _ _ Hy) as Dy.
        unfold E. rewrite Aa, (is_obj_num a An), Ob. cbn [orb].
        destruct (is_arr y) eqn:Ay.
        * rewrite IH.
          -- apply s2_atom. exact Aa.
          -- lia.
          -- exact Na.
          -- exact Ny.
          -- apply conformable_atom_l. exact Aa.
          -- apply kb_np_atom_l. exact Aa.
          -- exact Hpy'.
        * rewrite sright_atom by exact Ay. apply Hpy.
          rewrite <- (all_leaves_atom okb y Ay). exact Hpy'.
    - (* list, atom *)
      pose proof (is_num_not_arr b Bn) as Ab.
      rewrite (npdepth_num b Bn).
      destruct (rshape (VL la)) as [sh|] eqn:Ra.
      + rewrite (npdepth_rect _ _ Ra). rewrite Nat.add_0_r.
        apply (bc_right (E fuel' (VL la) b) sf (E_nums fuel' (VL la) b (is_obj_of_shape _ _ Ra) (is_obj_num b Bn)) sh).
        * exact Ab.
        * exact Ra.
        * lia.
      + pose proof (is_obj_of_none _ Ra) as Oa. destruct (is_obj_list _ Oa) as [_ Nel].
        rewrite (npdepth_obj _ Ra). cbn [bc Nat.add]. rewrite s2_list_atom by exact Ab. f_equal.
        assert (Hk' : forall x, In x la -> kb_np x b = false) by (apply kb_np_list_atom; assumption).
        apply rmap_ext. intros x Hx.
        pose proof (all_leaves_in _ _ _ Na Hx) as Nx. pose proof (depth_in _ _ Hx) as Dx.
        unfold E. rewrite Ab, Oa. rewrite orb_false_r. cbn [orb].
        destruct (is_arr x) eqn:Ax.
        * rewrite IH; [reflexivity|lia|exact Nx|exact Nb|apply conformable_atom_r; exact Ab|apply Hk'; exact Hx|exact Hp].
        * rewrite s2_atom by exact Ax. rewrite sright_atom by exact Ab. apply Hpy.
          rewrite <- (all_leaves_atom okb b Ab). exact Hp.
    - (* list, list *)
      cbn [kb_np] in Hk.
      destruct (shape_eqb (npshape (VL la)) (npshape (VL lb))) eqn:Hs; [|discriminate].
      apply shape_eqb_true in Hs. destruct Hs as [sh [Sa Sb]].
      destruct (conformable_lists _ _ Hc) as [Hlen Hconf].
      destruct (is_rect (VL la) && is_rect (VL lb)) eqn:Hr.
      + apply andb_true_iff in Hr. destruct Hr as [R1 R2].
        destruct (is_rect_list _ R1) as [s1 Ra]. destruct (is_rect_list _ R2) as [s2' Rb].
        rewrite (npshape_rect _ _ Ra) in Sa. rewrite (npshape_rect _ _ Rb) in Sb.
        inversion Sa. inversion Sb. subst s1 s2'.
        rewrite (npdepth_rect _ _ Ra), (npdepth_rect _ _ Rb).
        apply (bc_same (E fuel' (VL la) (VL lb)) sf (E_nums fuel' (VL la) (VL lb) (is_obj_of_shape _ _ Ra) (is_obj_of_shape _ _ Rb)) sh);
          [exact Ra|exact Rb|lia].
      + assert (Hfacts : npdepth (VL la) = 1%nat /\ npdepth (VL lb) = 1%nat /\ (is_obj (VL la) || is_obj (VL lb)) = true).
        { destruct (rshape (VL la)) as [s1|] eqn:Ra; destruct (rshape (VL lb)) as [s2'|] eqn:Rb.
          - rewrite (is_rect_of_shape _ _ Ra), (is_rect_of_shape _ _ Rb) in Hr. discriminate.
          - rewrite (npshape_rect _ _ Ra) in Sa. rewrite (npshape_obj _ Rb) in Sb. inversion Sa. inversion Sb. subst.
            rewrite (npdepth_rect _ _ Ra), (npdepth_obj _ Rb), (is_obj_of_none _ Rb). rewrite orb_true_r. auto.
          - rewrite (npshape_obj _ Ra) in Sa. rewrite (npshape_rect _ _ Rb) in Sb. inversion Sa. inversion Sb. subst.
            rewrite (npdepth_obj _ Ra), (npdepth_rect _ _ Rb), (is_obj_of_none _ Ra). auto.
          - rewrite (npdepth_obj _ Ra), (npdepth_obj _ Rb), (is_obj_of_none _ Ra). auto. }
        destruct Hfacts as [Da [Db Hobj]]. rewrite Da, Db. cbn [bc Nat.add Nat.ltb Nat.leb].
        apply Nat.eqb_eq in Hlen. rewrite Hlen. rewrite s2_lists. f_equal.
        apply rzip_ext_combine. intros x y Hin.
        destruct (in_combine_both _ _ _ _ Hin) as [Hx Hy].
        pose proof (all_leaves_in _ _ _ Na Hx) as Nx. pose proof (all_leaves_in _ _ _ Nb Hy) as Ny.
        pose proof (depth_in _ _ Hx) as Dx. pose proof (depth_in _ _ Hy) as Dy.
        pose proof (all_leaves_in _ _ _ Hp Hy) as Hpxy.
        unfold E. rewrite Hobj.
        destruct (is_arr x || is_arr y) eqn:Axy.
        * apply IH; [lia|exact Nx|exact Ny|apply Hconf; exact Hin|eapply any2_combine; eassumption|exact Hpxy].
        * apply orb_false_iff in Axy. destruct Axy as [Ax Ay].
          rewrite s2_atom by exact Ax. rewrite sright_atom by exact Ay. apply Hpy.
          rewrite <- (all_leaves_atom okb y Ay). exact Hpxy.
  Qed.
End NP2.

(* any ufunc (also those without an object loop) on operands that are numbers or rectangular numeric arrays *)
Section NP2Rect.
  Variables (mode : objmode) (sf sfpy : val -> val -> res).

  Definition EM (fuel' : nat) (a b : val) : val -> val -> res := fun x y =>
     if is_arr x || is_arr y then
       match mode with
       | ObjRec => np2 fuel' mode sf sfpy x y
       | ObjCmp => if (array_size x =? 1) && (array_size y =? 1) then Unmod else Err
       | ObjNone => Err
       end
     else if is_obj a || is_obj b then sfpy x y else sf x y.

  Lemma EM_nums : forall fuel' a b, is_obj a = false -> is_obj b = false ->
    forall x y, is_arr x = false -> is_arr y = false -> EM fuel' a b x y = sf x y.
  Proof.
    intros fuel' a b Oa Ob x y Nx Ny. unfold EM. rewrite Nx, Ny, Oa, Ob. reflexivity.
  Qed.

  Theorem np2_rect_spec : forall fuel' a b,
    is_obj a = false -> is_obj b = false ->
    all_leaves is_num a = true -> all_leaves is_num b = true ->
    kb_np a b = false ->
    np2 (S fuel') mode sf sfpy a b = s2 sf a b.
  Proof.
    intros fuel' a b Oa Ob Na Nb Hk.
    assert (U : np2 (S fuel') mode sf sfpy a b = bcast (EM fuel' a b) (npdepth a) (npdepth b) a b).
    { cbn [np2].
      assert (T : ((is_obj a || is_obj b) && match mode with ObjNone => true | _ => false end) = false)
        by (rewrite Oa, Ob; reflexivity).
      rewrite T. rewrite (num_tree_not_str a Na), (num_tree_not_str b Nb). reflexivity. }
    rewrite U. unfold bcast.
    destruct (num_tree_cases a Na) as [An|[la ->]]; destruct (num_tree_cases b Nb) as [Bn|[lb ->]].
    - rewrite (npdepth_num a An), (npdepth_num b Bn). cbn [bc Nat.add].
      rewrite (EM_nums fuel' a b Oa Ob a b (is_num_not_arr a An) (is_num_not_arr b Bn)).
      rewrite s2_atom by (apply is_num_not_arr; exact An).
      rewrite sright_atom by (apply is_num_not_arr; exact Bn). reflexivity.
    - destruct (not_obj_list _ Ob) as [sh Rb].
      rewrite (npdepth_num a An), (npdepth_rect _ _ Rb). rewrite s2_atom by (apply is_num_not_arr; exact An).
      apply (bc_left (EM fuel' a (VL lb)) sf (EM_nums fuel' a (VL lb) Oa Ob) sh); [apply is_num_not_arr; exact An|exact Rb|cbn; lia].
    - destruct (not_obj_list _ Oa) as [sh Ra].
      rewrite (npdepth_num b Bn), (npdepth_rect _ _ Ra). rewrite Nat.add_0_r.
      apply (bc_right (EM fuel' (VL la) b) sf (EM_nums fuel' (VL la) b Oa Ob) sh); [apply is_num_not_arr; exact Bn|exact Ra|lia].
    - destruct (not_obj_list _ Oa) as [s1 Ra]. destruct (not_obj_list _ Ob) as [s2' Rb].
      cbn [kb_np] in Hk. rewrite (npshape_rect _ _ Ra), (npshape_rect _ _ Rb) in Hk.
      destruct (shape_eqb (Some s1) (Some s2')) eqn:Hs; [|discriminate].
      apply shape_eqb_true in Hs. destruct Hs as [sh [Sa Sb]]. inversion Sa. inversion Sb. subst s1 s2'.
      rewrite (npdepth_rect _ _ Ra), (npdepth_rect _ _ Rb).
      apply (bc_same (EM fuel' (VL la) (VL lb)) sf (EM_nums fuel' (VL la) (VL lb) Oa Ob) sh); [exact Ra|exact Rb|lia].
  Qed.
End NP2Rect.

(* ------------------------------------------------------------------ norm *)
Lemma map_fix : forall {A} (f : A -> A) l, map f l = l -> Forall (fun x => f x = x) l.
Proof. induction l as [|x l IH]; cbn; intros H; [constructor|]. injection H as H1 H2. constructor; [exact H1|]. apply IH. exact H2. Qed.

Lemma norm_rect_elem : forall y s, rshape y = Some s -> (has_real y = false \/ to_real y = y) -> norm y = y.
Proof.
  intros y s Hs H. destruct y as [z|r|c|t|t|l|]; try reflexivity.
  cbn [norm]. rewrite (is_rect_of_shape _ _ Hs). destruct (has_real (VL l)) eqn:Hr; [|reflexivity].
  destruct H as [H|H]; [discriminate|exact H].
Qed.

Lemma norm_fix_elems : forall l, norm (VL l) = VL l -> Forall (fun x => norm x = x) l.
Proof.
  intros l H. cbn [norm] in H. destruct (is_rect (VL l)) eqn:Hr.
  - destruct (is_rect_list _ Hr) as [sh Rs]. destruct (rshape_list _ _ Rs) as [s [_ Fs]].
    rewrite Forall_forall in Fs. apply Forall_forall. intros y Hy.
    apply (norm_rect_elem y s (Fs y Hy)).
    destruct (has_real (VL l)) eqn:Hreal.
    + right. cbn [to_real] in H. injection H as H'.
      pose proof (map_fix _ _ H') as F. rewrite Forall_forall in F. apply F. exact Hy.
    + left. cbn [has_real] in Hreal. destruct (has_real y) eqn:E; [|reflexivity].
      assert (X : existsb has_real l = true) by (apply existsb_exists; exists y; split; assumption).
      rewrite X in Hreal. discriminate.
  - injection H as H'. apply map_fix. exact H'.
Qed.

Lemma okl_inv : forall r v, okl r = Ok v -> exists vs, r = Ok vs /\ v = VL vs.
Proof. intros [vs| | |] v H; cbn in H; try discriminate. inversion H. eexists; split; reflexivity. Qed.

Lemma rzip_transfer : forall (P : val -> Prop) (f g : val -> val -> res) la lb vs,
  (forall x y v, In (x, y) (combine la lb) -> f x y = Ok v -> P v -> g x y = Ok v) ->
  rzip f la lb = Ok vs -> Forall P vs -> rzip g la lb = Ok vs.
Proof.
  intros P f g. induction la as [|x la IH]; intros lb vs H Hz HP; destruct lb as [|y lb]; cbn [rzip] in *; try discriminate.
  - exact Hz.
  - destruct (f x y) as [v| | |] eqn:Ef; cbn [bind] in Hz; try discriminate.
    destruct (rzip f la lb) as [vs'| | |] eqn:Er; cbn [bind] in Hz; try discriminate.
    inversion Hz. subst vs. inversion HP as [|? ? Pv Pvs]. subst.
    rewrite (H x y v (or_introl eq_refl) Ef Pv). cbn [bind].
    rewrite (IH lb vs'); [reflexivity| |exact Er|exact Pvs].
    intros x' y' v' Hin. apply H. right. exact Hin.
Qed.

Lemma rmap_transfer : forall (P : val -> Prop) (f g : val -> res) l vs,
  (forall x v, In x l -> f x = Ok v -> P v -> g x = Ok v) ->
  rmap f l = Ok vs -> Forall P vs -> rmap g l = Ok vs.
Proof.
  intros P f g. induction l as [|x l IH]; intros vs H Hz HP; cbn [rmap] in *.
  - exact Hz.
  - destruct (f x) as [v| | |] eqn:Ef; cbn [bind] in Hz; try discriminate.
    destruct (rmap f l) as [vs'| | |] eqn:Er; cbn [bind] in Hz; try discriminate.
    inversion Hz. subst vs. inversion HP as [|? ? Pv Pvs]. subst.
    rewrite (H x v (or_introl eq_refl) Ef Pv). cbn [bind].
    rewrite (IH vs'); [reflexivity| |reflexivity|exact Pvs].
    intros x' v' Hin. apply H. right. exact Hin.
Qed.

(* ------------------------------------------------------------------ T1.atomic for verbs routed through vec_fn2 *)
Lemma is_arr_true : forall v, is_arr v = true -> exists l, v = VL l.
Proof. destruct v; cbn; intros; try discriminate. eexists; reflexivity. Qed.

Lemma is_obj_negb : forall l, is_obj (VL l) = negb (is_rect (VL l)).
Proof. reflexivity. Qed.

Lemma rdepth_rect : forall l sh, rshape (VL l) = Some sh -> rdepth (VL l) = List.length sh.
Proof. intros l sh H. unfold rdepth. rewrite H. reflexivity. Qed.
Lemma rdepth_atom : forall v, is_arr v = false -> rdepth v = O.
Proof. destruct v; cbn; intros; try discriminate; reflexivity. Qed.

Section VEC2.
  Variable sf : val -> val -> res.
  Let leaf := leaf2 sf.

  Lemma vec2_LL : forall f' la lb, vec2 (S f') leaf (VL la) (VL lb) =
    if is_obj (VL la) || is_obj (VL lb)
    then bind (rzip (vec2 f' leaf) la lb) (fun l => Ok (norm (VL l))) else leaf (VL la) (VL lb).
  Proof. reflexivity. Qed.
  Lemma vec2_LA : forall f' la b, is_arr b = false -> vec2 (S f') leaf (VL la) b =
    if is_obj (VL la) then bind (rmap (fun x => vec2 f' leaf x b) la) (fun l => Ok (norm (VL l))) else leaf (VL la) b.
  Proof. intros f' la b H. destruct b; try discriminate; reflexivity. Qed.
  Lemma vec2_AL : forall f' a lb, is_arr a = false -> vec2 (S f') leaf a (VL lb) =
    if is_obj (VL lb) then bind (rmap (fun y => vec2 f' leaf a y) lb) (fun l => Ok (norm (VL l))) else leaf a (VL lb).
  Proof. intros f' a lb H. destruct a; try discriminate; reflexivity. Qed.
  Lemma vec2_AA : forall f' a b, is_arr a = false -> is_arr b = false -> vec2 (S f') leaf a b = leaf a b.
  Proof. intros f' a b Ha Hb. destruct a; try discriminate; destruct b; try discriminate; reflexivity. Qed.

  Lemma sf_atoms : forall x y : val, is_arr x = false -> is_arr y = false -> sf x y = sf x y.
  Proof. reflexivity. Qed.

  Lemma kb_vec_atom_l : forall a b, is_arr a = false -> kb_vec a b = false.
  Proof. intros a b H. destruct a; try discriminate; reflexivity. Qed.
  Lemma kb_vec_list_atom_eq : forall la b, is_arr b = false ->
    kb_vec (VL la) b = if is_rect (VL la) then false else existsb (fun x => kb_vec x b) la.
  Proof. intros la b H. destruct b; try discriminate; reflexivity. Qed.

  Theorem vec2_spec : forall fuel a b v,
    (depth a + depth b < fuel)%nat ->
    conformable a b = true -> kb_vec a b = false ->
    s2 sf a b = Ok v -> norm v = v ->
    vec2 fuel leaf a b = Ok v.
  Proof.
    induction fuel as [|f' IH]; intros a b v Hd Hc Hk Hs Hn; [lia|].
    destruct (is_arr a) eqn:Aa; destruct (is_arr b) eqn:Ab.
    - destruct (is_arr_true _ Aa) as [la ->]. destruct (is_arr_true _ Ab) as [lb ->].
      rewrite vec2_LL. cbn [kb_vec] in Hk.
      destruct (conformable_lists _ _ Hc) as [Hlen Hconf].
      destruct (is_obj (VL la) || is_obj (VL lb)) eqn:Ho.
      + assert (Hr : is_rect (VL la) && is_rect (VL lb) = false).
        { rewrite !is_obj_negb in Ho. destruct (is_rect (VL la)); destruct (is_rect (VL lb)); cbn in *; congruence. }
        rewrite Hr in Hk. rewrite s2_lists in Hs. destruct (okl_inv _ _ Hs) as [vs [Hz ->]].
        pose proof (norm_fix_elems _ Hn) as Fn.
        rewrite (rzip_transfer (fun x => norm x = x) (s2 sf) (vec2 f' leaf) la lb vs); [cbn [bind]; rewrite Hn; reflexivity| |exact Hz|exact Fn].
        intros x y v' Hin Hv Pv. destruct (in_combine_both _ _ _ _ Hin) as [Hx Hy].
        pose proof (depth_in _ _ Hx). pose proof (depth_in _ _ Hy).
        apply IH; [lia|apply Hconf; exact Hin|eapply any2_combine; eassumption|exact Hv|exact Pv].
      + apply orb_false_iff in Ho. destruct Ho as [Oa Ob].
        destruct (not_obj_list _ Oa) as [s1 Ra]. destruct (not_obj_list _ Ob) as [s2' Rb].
        rewrite (is_rect_of_shape _ _ Ra), (is_rect_of_shape _ _ Rb) in Hk. cbn [andb] in Hk.
        apply negb_false_iff in Hk. rewrite Ra, Rb in Hk. apply shape_eqb_true in Hk.
        destruct Hk as [sh [Sa Sb]]. inversion Sa. inversion Sb. subst s1 s2'.
        unfold leaf, leaf2, bcast. rewrite (rdepth_rect _ _ Ra), (rdepth_rect _ _ Rb).
        rewrite (bc_same sf sf sf_atoms sh); [exact Hs|exact Ra|exact Rb|lia].
    - destruct (is_arr_true _ Aa) as [la ->]. rewrite vec2_LA by exact Ab.
      rewrite kb_vec_list_atom_eq in Hk by exact Ab.
      destruct (is_obj (VL la)) eqn:Oa.
      + rewrite is_obj_negb in Oa. apply negb_true_iff in Oa. rewrite Oa in Hk.
        rewrite s2_list_atom in Hs by exact Ab. destruct (okl_inv _ _ Hs) as [vs [Hz ->]].
        pose proof (norm_fix_elems _ Hn) as Fn.
        rewrite (rmap_transfer (fun x => norm x = x) (fun x => s2 sf x b) (fun x => vec2 f' leaf x b) la vs);
          [cbn [bind]; rewrite Hn; reflexivity| |exact Hz|exact Fn].
        intros x v' Hx Hv Pv. pose proof (depth_in _ _ Hx).
        apply IH; [lia|apply conformable_atom_r; exact Ab| |exact Hv|exact Pv].
        destruct (kb_vec x b) eqn:Ek; [|reflexivity].
        assert (X : existsb (fun x0 => kb_vec x0 b) la = true) by (apply existsb_exists; exists x; split; assumption).
        rewrite X in Hk. discriminate.
      + destruct (not_obj_list _ Oa) as [sh Ra].
        unfold leaf, leaf2, bcast. rewrite (rdepth_rect _ _ Ra), (rdepth_atom _ Ab). rewrite Nat.add_0_r.
        rewrite (bc_right sf sf sf_atoms sh); [exact Hs|exact Ab|exact Ra|lia].
    - destruct (is_arr_true _ Ab) as [lb ->]. rewrite vec2_AL by exact Aa.
      rewrite s2_atom in Hs by exact Aa.
      destruct (is_obj (VL lb)) eqn:Ob.
      + rewrite sright_list in Hs. destruct (okl_inv _ _ Hs) as [vs [Hz ->]].
        pose proof (norm_fix_elems _ Hn) as Fn.
        rewrite (rmap_transfer (fun x => norm x = x) (sright sf a) (fun y => vec2 f' leaf a y) lb vs);
          [cbn [bind]; rewrite Hn; reflexivity| |exact Hz|exact Fn].
        intros y v' Hy Hv Pv. pose proof (depth_in _ _ Hy).
        apply IH; [lia|apply conformable_atom_l; exact Aa|apply kb_vec_atom_l; exact Aa| |exact Pv].
        rewrite s2_atom by exact Aa. exact Hv.
      + destruct (not_obj_list _ Ob) as [sh Rb].
        unfold leaf, leaf2, bcast. rewrite (rdepth_rect _ _ Rb), (rdepth_atom _ Aa). cbn [Nat.add].
        rewrite (bc_left sf sf sf_atoms sh); [exact Hs|exact Aa|exact Rb|lia].
    - rewrite vec2_AA by assumption. unfold leaf, leaf2, bcast.
      rewrite (rdepth_atom _ Aa), (rdepth_atom _ Ab). cbn [bc Nat.add].
      rewrite s2_atom in Hs by exact Aa. rewrite sright_atom in Hs by exact Ab. exact Hs.
  Qed.
End VEC2.

(* ------------------------------------------------------------------ list specs by index *)
Section ListLemmas.
  Context {A : Type} (d : A).

  Lemma tab_length : forall n (f : Z -> A), List.length (tab n f) = Z.to_nat n.
  Proof. intros. unfold tab. rewrite map_length, seq_length. reflexivity. Qed.

  Lemma tab_nth : forall n (f : Z -> A) i, (i < Z.to_nat n)%nat -> nth i (tab n f) d = f (Z.of_nat i).
  Proof.
    intros n f i H. unfold tab.
    rewrite (nth_indep _ d (f (Z.of_nat 0))) by (rewrite map_length, seq_length; exact H).
    rewrite (map_nth (fun i => f (Z.of_nat i)) (seq 0 (Z.to_nat n)) 0%nat i).
    rewrite seq_nth by exact H. reflexivity.
  Qed.

  Lemma eq_tab : forall (l : list A) n (f : Z -> A),
    List.length l = Z.to_nat n -> (forall i, (i < List.length l)%nat -> nth i l d = f (Z.of_nat i)) -> l = tab n f.
  Proof.
    intros l n f HL H. apply (nth_ext l (tab n f) d d).
    - rewrite tab_length. exact HL.
    - intros i Hi. rewrite tab_nth by lia. apply H. exact Hi.
  Qed.

  Lemma nth_skipn' : forall k (l : list A) i, nth i (skipn k l) d = nth (k + i) l d.
  Proof.
    induction k as [|k IH]; intros l i; [reflexivity|].
    destruct l as [|x l]; [destruct i; reflexivity|]. cbn [skipn Nat.add nth]. apply IH.
  Qed.

  Lemma nth_firstn' : forall k (l : list A) i, (i < k)%nat -> nth i (firstn k l) d = nth i l d.
  Proof.
    induction k as [|k IH]; intros l i H; [lia|].
    destruct l as [|x l]; [reflexivity|]. destruct i as [|i]; [reflexivity|]. cbn [firstn nth]. apply IH. lia.
  Qed.

  (* Drop *)
  Lemma drop_front : forall n (l : list A), 0 <= n ->
    skipn (Z.to_nat n) l = tab (zlen l - n) (fun i => ix d l (i + n)).
  Proof.
    intros n l Hn. apply eq_tab.
    - rewrite skipn_length. unfold zlen. lia.
    - intros i Hi. rewrite nth_skipn'. unfold ix. f_equal. lia.
  Qed.

  Lemma drop_back : forall n (l : list A), n < 0 ->
    firstn (Z.to_nat (zlen l + n)) l = tab (zlen l + n) (fun i => ix d l i).
  Proof.
    intros n l Hn. apply eq_tab.
    - rewrite firstn_length. unfold zlen. lia.
    - intros i Hi. rewrite firstn_length in Hi. rewrite nth_firstn' by lia. unfold ix. f_equal. lia.
  Qed.

  (* Reverse *)
  Lemma reverse_spec : forall (l : list A), rev l = s_reverse d l.
  Proof.
    intros l. unfold s_reverse. apply eq_tab.
    - rewrite rev_length. unfold zlen. lia.
    - intros i Hi. rewrite rev_length in Hi. rewrite rev_nth by exact Hi. unfold ix, zlen. f_equal. lia.
  Qed.

  (* Rotate: np.roll of a 1-D array *)
  Lemma roll_spec : forall n (l : list A), l <> [] ->
    let k := Z.to_nat (n mod zlen l) in
    let m := (List.length l - k)%nat in
    skipn m l ++ firstn m l = s_rotate d n l.
  Proof.
    intros n l Hne k m. unfold s_rotate.
    assert (HL : 0 < zlen l) by (unfold zlen; destruct l; [congruence|cbn; lia]).
    replace (zlen l =? 0) with false by (symmetry; apply Z.eqb_neq; lia).
    pose proof (Z.mod_pos_bound n (zlen l) HL) as Hb.
    assert (Hk : (k < List.length l)%nat) by (unfold k, zlen in *; lia).
    apply eq_tab.
    - rewrite app_length, skipn_length, firstn_length. unfold zlen, m. lia.
    - intros i Hi. rewrite app_length, skipn_length, firstn_length in Hi.
      unfold ix.
      destruct (Nat.ltb i k) eqn:Hik.
      + apply Nat.ltb_lt in Hik. rewrite app_nth1 by (rewrite skipn_length; unfold m; lia).
        rewrite nth_skipn'. f_equal.
        assert (E : (Z.of_nat i - n) mod zlen l = Z.of_nat i - n mod zlen l + zlen l).
        { symmetry. apply (Z.mod_unique_pos _ _ (- (n / zlen l) - 1)); [unfold k in Hik; lia|].
          pose proof (Z.div_mod n (zlen l)). lia. }
        rewrite E. unfold m, k, zlen in *. lia.
      + apply Nat.ltb_ge in Hik. rewrite app_nth2 by (rewrite skipn_length; unfold m; lia).
        rewrite skipn_length. rewrite nth_firstn' by (unfold m; lia). f_equal.
        assert (E : (Z.of_nat i - n) mod zlen l = Z.of_nat i - n mod zlen l).
        { symmetry. apply (Z.mod_unique_pos _ _ (- (n / zlen l))); [unfold k, m, zlen in *; lia|].
          pose proof (Z.div_mod n (zlen l)). lia. }
        rewrite E. unfold m, k, zlen in *. lia.
  Qed.
End ListLemmas.

(* ------------------------------------------------------------------ cyclic reading: Q s c  <->  c reads l cyclically from offset s *)
Section Cyclic.
  Context {A : Type} (d : A) (l : list A).
  Hypothesis Lpos : 0 < zlen l.

  Definition Q (s : Z) (c : list A) : Prop :=
    forall j, (j < List.length c)%nat -> nth j c d = ix d l ((Z.of_nat j + s) mod zlen l).

  Lemma Q_base : Q 0 l.
  Proof.
    intros j Hj. unfold ix. rewrite Z.add_0_r. rewrite Z.mod_small by (unfold zlen; lia).
    rewrite Nat2Z.id. reflexivity.
  Qed.

  Lemma Q_shift : forall s k c, Q s c -> Q (s + k * zlen l) c.
  Proof.
    intros s k c H j Hj. rewrite (H j Hj). f_equal.
    rewrite Z.add_assoc. rewrite Z_mod_plus_full. reflexivity.
  Qed.

  Lemma Q_cong : forall s s' k c, s' = s + k * zlen l -> Q s c -> Q s' c.
  Proof. intros s s' k c -> H. apply Q_shift. exact H. Qed.

  Lemma Q_app : forall s c1 c2, Q s c1 -> Q (s + zlen c1) c2 -> Q s (c1 ++ c2).
  Proof.
    intros s c1 c2 H1 H2 j Hj. rewrite app_length in Hj.
    destruct (Nat.ltb j (List.length c1)) eqn:E.
    - apply Nat.ltb_lt in E. rewrite app_nth1 by exact E. apply H1. exact E.
    - apply Nat.ltb_ge in E. rewrite app_nth2 by exact E. rewrite H2 by lia. f_equal. f_equal. unfold zlen. lia.
  Qed.

  Lemma Q_skipn : forall s m c, Q s c -> Q (s + Z.of_nat m) (skipn m c).
  Proof.
    intros s m c H j Hj. rewrite skipn_length in Hj. rewrite nth_skipn'. rewrite H by lia. f_equal. f_equal. lia.
  Qed.

  Lemma Q_firstn : forall s m c, Q s c -> Q s (firstn m c).
  Proof.
    intros s m c H j Hj. rewrite firstn_length in Hj. rewrite nth_firstn' by lia. apply H. lia.
  Qed.

  Lemma tile_length : forall k (c : list val), List.length (tile k c) = (k * List.length c)%nat.
  Proof. induction k as [|k IH]; intros c; cbn [tile]; [reflexivity|]. rewrite app_length, IH. lia. Qed.

  Lemma Q_final : forall s c k, Q s c -> List.length c = Z.to_nat k ->
    c = tab k (fun i => ix d l ((i + s) mod zlen l)).
  Proof. intros s c k H HL. apply (eq_tab d); [exact HL|]. intros i Hi. apply H. exact Hi. Qed.
End Cyclic.

Lemma Q_tile : forall (l : list val), 0 < zlen l -> forall k, Q VU l 0 (tile k l).
Proof.
  intros l Lpos. induction k as [|k IH]; cbn [tile].
  - intros j Hj. cbn in Hj. lia.
  - apply Q_app; [apply Q_base; exact Lpos|].
    replace (0 + zlen l) with (0 + 1 * zlen l) by lia. apply Q_shift. exact IH.
Qed.

(* Take on a list whose NumPy array is 1-D (vector, ragged / mixed list) *)
Lemma array_size_1d : forall l, (npdepth (VL l) <= 1)%nat -> array_size (VL l) = zlen l.
Proof.
  intros l H. unfold array_size, npdepth in *. destruct (rshape (VL l)) as [sh|] eqn:R; [|reflexivity].
  destruct (rshape_list _ _ R) as [s [E _]]. subst sh. cbn [List.length] in H.
  destruct s; [|cbn in H; lia]. cbn [prodn]. unfold zlen. lia.
Qed.

Lemma take_list_spec : forall n l,
  m_take (VI n) (VL l) = Ok (VL (s_take VU n l)).
Proof.
  intros n l. unfold m_take. cbn [as_members rejoin]. cbv zeta.
  unfold s_take.
  destruct (zlen l =? 0) eqn:E0.
  - apply Z.eqb_eq in E0. unfold zlen in E0. destruct l; [reflexivity|cbn in E0; lia].
  - apply Z.eqb_neq in E0. assert (Lpos : 0 < zlen l) by (unfold zlen in *; lia).
    destruct (zlen l <? Z.abs n) eqn:Ebig.
    + apply Z.ltb_lt in Ebig.
      set (q := Z.abs n / zlen l).
      pose proof (Z.div_mod (Z.abs n) (zlen l) ltac:(lia)) as Hdm.
      pose proof (Z.mod_pos_bound (Z.abs n) (zlen l) Lpos) as Hmb.
      assert (Hq : 1 <= q) by (unfold q; apply Z.div_le_lower_bound; lia).
      set (t := tile (Z.to_nat q) l).
      assert (Ht : zlen t = q * zlen l) by (unfold zlen, t; rewrite tile_length; unfold zlen; lia).
      assert (Hr : Z.abs n - zlen t = Z.abs n mod zlen l) by (fold q in Hdm; lia).
      assert (HLt : zlen l <= zlen t) by (rewrite Ht; nia).
      pose proof (Q_tile l Lpos (Z.to_nat q)) as Qt. fold t in Qt.
      f_equal. f_equal.
      destruct (0 <? n) eqn:Epos.
      * apply Z.ltb_lt in Epos. replace (n <? 0) with false by (symmetry; apply Z.ltb_ge; lia).
        unfold py_head. replace (Z.min n 0) with 0 by lia.
        apply (Q_final VU l); [|].
        -- apply Q_firstn. apply Q_app; [exact Qt|]. apply Q_firstn.
           rewrite Ht. replace (0 + q * zlen l) with (0 + q * zlen l) by reflexivity. apply Q_shift. exact Qt.
        -- rewrite firstn_length, app_length, firstn_length. unfold zlen in *. lia.
      * apply Z.ltb_ge in Epos. assert (n < 0) by lia. replace (n <? 0) with true by (symmetry; apply Z.ltb_lt; lia).
        replace (Z.min n 0) with n by lia.
        destruct (Z.abs n - zlen t =? 0) eqn:Er0.
        -- apply Z.eqb_eq in Er0. unfold py_last.
           apply (Q_final VU l).
           ++ apply (Q_cong VU l (zlen t) n (-2 * q)); [lia|].
              replace (zlen t) with (0 + Z.of_nat (Z.to_nat (zlen (t ++ t) - Z.abs n))).
              ** apply Q_skipn. apply Q_app; [exact Qt|]. rewrite Ht. apply Q_shift. exact Qt.
              ** unfold zlen. rewrite app_length. unfold zlen in *. lia.
           ++ unfold zlen in *. rewrite skipn_length, !app_length. lia.
        -- apply Z.eqb_neq in Er0. unfold py_last.
           set (r := Z.abs n - zlen t) in *.
           assert (Hlen2 : zlen (skipn (Z.to_nat (zlen t - r)) t ++ t) = Z.abs n).
           { unfold zlen. rewrite app_length, skipn_length. unfold zlen in *. lia. }
           rewrite Hlen2. replace (Z.to_nat (Z.abs n - Z.abs n)) with O by lia. cbn [skipn].
           apply (Q_final VU l).
           ++ apply (Q_cong VU l (0 + Z.of_nat (Z.to_nat (zlen t - r))) n (-2 * q)); [lia|]. apply Q_app.
              ** apply Q_skipn. exact Qt.
              ** replace (0 + Z.of_nat (Z.to_nat (zlen t - r)) + zlen (skipn (Z.to_nat (zlen t - r)) t)) with (0 + q * zlen l).
                 --- apply Q_shift. exact Qt.
                 --- unfold zlen. rewrite skipn_length. unfold zlen in *. lia.
           ++ unfold zlen in *. lia.
    + apply Z.ltb_ge in Ebig. f_equal. f_equal.
      destruct (n <? 0) eqn:Eneg.
      * apply Z.ltb_lt in Eneg. unfold py_last. replace (Z.min n 0) with n by lia.
        apply (Q_final VU l).
        -- apply (Q_cong VU l (0 + Z.of_nat (Z.to_nat (zlen l - Z.abs n))) n (-1)); [lia|].
           apply Q_skipn. apply Q_base.
        -- rewrite skipn_length. unfold zlen in *. lia.
      * apply Z.ltb_ge in Eneg. unfold py_head. replace (Z.min n 0) with 0 by lia.
        apply (Q_final VU l).
        -- apply Q_firstn. apply Q_base.
        -- rewrite firstn_length. unfold zlen in *. lia.
Qed.

(* ------------------------------------------------------------------ strings: the code works on the character array and joins *)
Lemma joined_chars : forall t, joined (chars t) = Ok (VS t).
Proof.
  intros t. unfold joined. assert (H : join_strs (chars t) = Ok t).
  { induction t as [|c t IH]; [reflexivity|]. cbn [chars map join_strs]. unfold chars in IH. rewrite IH. reflexivity. }
  rewrite H. reflexivity.
Qed.

Lemma ix_chars : forall s j, 0 <= j < zlen s -> ix VU (chars s) j = VC (ix 0 s j).
Proof.
  intros s j H. unfold ix, chars.
  rewrite (nth_indep _ VU (VC 0)) by (rewrite map_length; unfold zlen in H; lia).
  apply map_nth.
Qed.

Lemma tab_chars : forall s k g, (forall i, 0 <= i < k -> 0 <= g i < zlen s) ->
  tab k (fun i => ix VU (chars s) (g i)) = chars (tab k (fun i => ix 0 s (g i))).
Proof.
  intros s k g H. unfold tab, chars. rewrite map_map. apply map_ext_in.
  intros i Hi. apply in_seq in Hi. apply ix_chars. apply H. lia.
Qed.

Lemma zlen_chars : forall s, zlen (chars s) = zlen s.
Proof. intros s. unfold zlen, chars. rewrite map_length. reflexivity. Qed.

Lemma npdepth_chars : forall s, (npdepth (VL (chars s)) <= 1)%nat.
Proof. intros [|c s]; cbn; lia. Qed.

Lemma take_string_via_list : forall n s,
  m_take (VI n) (VS s) = match m_take (VI n) (VL (chars s)) with Ok (VL r) => joined r | _ => Err end.
Proof.
  intros n s. unfold m_take. cbn [as_members rejoin]. cbv zeta.
  destruct (zlen (chars s) =? 0); [reflexivity|].
  destruct (zlen (chars s) <? Z.abs n); reflexivity.
Qed.

Lemma take_string_spec : forall n s, m_take (VI n) (VS s) = Ok (VS (s_take 0 n s)).
Proof.
  intros n s. rewrite take_string_via_list. rewrite take_list_spec.
  unfold s_take. rewrite zlen_chars. destruct (zlen s =? 0) eqn:E0; [reflexivity|].
  apply Z.eqb_neq in E0. assert (0 < zlen s) by (unfold zlen in *; lia).
  rewrite tab_chars; [apply joined_chars|].
  intros i Hi. apply Z.mod_pos_bound. assumption.
Qed.

Lemma rotate_list_1d : forall flag n l, flag = true \/ rshape (VL l) = None \/ (exists k, rshape (VL l) = Some [k]) ->
  m_rotate_gen flag (VI n) (VL l) = Ok (VL (s_rotate VU n l)).
Proof.
  intros flag n l H. unfold m_rotate_gen.
  assert (Hroll : roll n l = s_rotate VU n l).
  { unfold roll. destruct l as [|x l']; [reflexivity|]. apply (roll_spec VU n (x :: l')). discriminate. }
  destruct (n =? 0) eqn:E0.
  - apply Z.eqb_eq in E0. subst n. rewrite <- Hroll. f_equal. f_equal.
    unfold roll. destruct l as [|x l']; [reflexivity|]. rewrite Z.mod_0_l by (unfold zlen; cbn; lia).
    cbn [Z.to_nat]. rewrite Nat.sub_0_r. rewrite skipn_all, firstn_all. reflexivity.
  - destruct H as [H|[H|[k H]]].
    + rewrite H. rewrite Hroll. reflexivity.
    + destruct flag; rewrite ?H, Hroll; reflexivity.
    + destruct flag; [rewrite Hroll; reflexivity|]. rewrite H.
      destruct (rshape_list _ _ H) as [s [E Fs]]. inversion E. subst s k.
      unfold np_flat, npdepth. rewrite H. cbn [List.length flat build prodn].
      assert (Hf : flat_map (fun v : val => [v]) l = l) by (clear; induction l as [|y l' IHl]; [reflexivity|cbn; f_equal; apply IHl]).
      rewrite Hf. rewrite Hroll. f_equal. f_equal.
      (* build [len] of a list of that length is the list itself *)
      assert (HL : List.length (s_rotate VU n l) = List.length l).
      { unfold s_rotate. destruct (zlen l =? 0) eqn:Z0; [apply Z.eqb_eq in Z0; unfold zlen in Z0; destruct l; cbn in *; [reflexivity|lia]|].
        rewrite tab_length. unfold zlen. lia. }
      rewrite <- HL. generalize (s_rotate VU n l). intros r.
      apply (nth_ext _ _ VU VU).
      * rewrite map_length, seq_length. reflexivity.
      * intros i Hi. rewrite map_length, seq_length in Hi.
        rewrite (nth_indep _ VU (hd VU (firstn 1 (skipn (0 * 1) r)))) by (rewrite map_length, seq_length; exact Hi).
        rewrite (map_nth (fun i0 => hd VU (firstn 1 (skipn (i0 * 1) r))) (seq 0 (List.length r)) O i).
        rewrite seq_nth by exact Hi. cbn [Nat.add]. rewrite Nat.mul_1_r.
        replace (nth i r VU) with (nth (i + 0) r VU) by (f_equal; lia). rewrite <- (nth_skipn' VU i r 0).
        destruct (skipn i r) as [|y ys] eqn:Es; [|reflexivity].
        exfalso. assert (X : List.length (skipn i r) = O) by (rewrite Es; reflexivity). rewrite skipn_length in X. lia.
Qed.

Lemma rotate_string_spec : forall flag n s, m_rotate_gen flag (VI n) (VS s) = Ok (VS (s_rotate 0 n s)).
Proof.
  intros flag n s. unfold m_rotate_gen.
  assert (Hroll : roll n (chars s) = s_rotate VU n (chars s)).
  { unfold roll. destruct (chars s) as [|x l'] eqn:Ec; [reflexivity|]. apply (roll_spec VU n (x :: l')). discriminate. }
  assert (Hj : joined (s_rotate VU n (chars s)) = Ok (VS (s_rotate 0 n s))).
  { unfold s_rotate. rewrite zlen_chars. destruct (zlen s =? 0) eqn:E0; [reflexivity|].
    apply Z.eqb_neq in E0. assert (0 < zlen s) by (unfold zlen in *; lia).
    rewrite tab_chars; [apply joined_chars|]. intros i Hi. apply Z.mod_pos_bound. assumption. }
  destruct (n =? 0) eqn:E0.
  - apply Z.eqb_eq in E0. subst n. f_equal. f_equal. unfold s_rotate.
    destruct (zlen s =? 0) eqn:Z0; [apply Z.eqb_eq in Z0; unfold zlen in Z0; destruct s; cbn in *; [reflexivity|lia]|].
    apply Z.eqb_neq in Z0. apply (eq_tab 0); [unfold zlen; lia|].
    intros i Hi. unfold ix. rewrite Z.sub_0_r. rewrite Z.mod_small by (unfold zlen; lia). rewrite Nat2Z.id. reflexivity.
  - rewrite Hroll. exact Hj.
Qed.


(* ------------------------------------------------------------------ instances for the verbs *)
Lemma fuel2_enough : forall a b, (depth a + depth b < fuel2 a b)%nat.
Proof. intros. unfold fuel2. lia. Qed.

Definition num_tree (v : val) : bool := all_leaves is_num v.
Definition nonzero_tree (v : val) : bool := all_leaves (fun y => is_num y && negb (is_zero y)) v.
Definition no_obj (a b : val) : bool := negb (is_obj a) && negb (is_obj b).

Section Instances.
  Variables a b : val.
  Hypothesis Na : num_tree a = true.
  Hypothesis Nb : num_tree b = true.
  Hypothesis Hc : conformable a b = true.
  Hypothesis Hk : kb_np a b = false.

  Lemma same_py : forall (sf : val -> val -> res) (x y : val), is_num y = true -> sf x y = sf x y.
  Proof. reflexivity. Qed.

  Lemma add_spec : m_add a b = s2 sc_add a b.
  Proof. apply (np2_rec_spec sc_add sc_add is_num (same_py sc_add)); try assumption. apply fuel2_enough. Qed.
  Lemma sub_spec : m_sub a b = s2 sc_sub a b.
  Proof. apply (np2_rec_spec sc_sub sc_sub is_num (same_py sc_sub)); try assumption. apply fuel2_enough. Qed.
  Lemma mul_spec : m_mul a b = s2 sc_mul a b.
  Proof. apply (np2_rec_spec sc_mul sc_mul is_num (same_py sc_mul)); try assumption. apply fuel2_enough. Qed.

  Lemma div_py : forall x y, is_num y && negb (is_zero y) = true -> sc_div_py x y = sc_div x y.
  Proof.
    intros x y H. apply andb_true_iff in H. destruct H as [H1 H2]. apply negb_true_iff in H2.
    destruct y as [z|r| | | | |]; try discriminate; cbn [sc_div_py].
    - destruct z; try reflexivity. cbn in H2. discriminate.
    - cbn [is_zero] in H2. rewrite H2. reflexivity.
  Qed.

  Lemma div_spec : nonzero_tree b = true -> m_div a b = s2 sc_div a b.
  Proof.
    intros Hz. unfold m_div.
    assert (P : both_atoms_zero_divisor a b = false).
    { unfold both_atoms_zero_divisor. destruct (is_arr a); [reflexivity|]. destruct (is_arr b) eqn:Ab; [reflexivity|].
      cbn [negb andb]. unfold nonzero_tree in Hz. rewrite (all_leaves_atom _ b Ab) in Hz.
      apply andb_true_iff in Hz. destruct Hz as [_ Hz]. apply negb_true_iff in Hz.
      destruct b; try reflexivity; exact Hz. }
    rewrite P.
    apply (np2_rec_spec sc_div sc_div_py (fun y => is_num y && negb (is_zero y)) div_py); try assumption. apply fuel2_enough.
  Qed.

End Instances.

(* vec_fn2 with two leaf functions that agree on numeric operands *)
Lemma vec2_gen_LL : forall leaf f' la lb, vec2 (S f') leaf (VL la) (VL lb) =
  if is_obj (VL la) || is_obj (VL lb)
  then bind (rzip (vec2 f' leaf) la lb) (fun l => Ok (norm (VL l))) else leaf (VL la) (VL lb).
Proof. reflexivity. Qed.
Lemma vec2_gen_LA : forall leaf f' la b, is_arr b = false -> vec2 (S f') leaf (VL la) b =
  if is_obj (VL la) then bind (rmap (fun x => vec2 f' leaf x b) la) (fun l => Ok (norm (VL l))) else leaf (VL la) b.
Proof. intros leaf f' la b H. destruct b; try discriminate; reflexivity. Qed.
Lemma vec2_gen_AL : forall leaf f' a lb, is_arr a = false -> vec2 (S f') leaf a (VL lb) =
  if is_obj (VL lb) then bind (rmap (fun y => vec2 f' leaf a y) lb) (fun l => Ok (norm (VL l))) else leaf a (VL lb).
Proof. intros leaf f' a lb H. destruct a; try discriminate; reflexivity. Qed.
Lemma vec2_gen_AA : forall leaf f' a b, is_arr a = false -> is_arr b = false -> vec2 (S f') leaf a b = leaf a b.
Proof. intros leaf f' a b Ha Hb. destruct a; try discriminate; destruct b; try discriminate; reflexivity. Qed.

Lemma vec2_ext_num : forall leaf leaf' : val -> val -> res,
  (forall a b, num_tree a = true -> num_tree b = true -> leaf a b = leaf' a b) ->
  forall fuel a b, num_tree a = true -> num_tree b = true -> vec2 fuel leaf a b = vec2 fuel leaf' a b.
Proof.
  intros leaf leaf' Hl. unfold num_tree in *. induction fuel as [|f' IH]; intros a b Na Nb; [reflexivity|].
  destruct (is_arr a) eqn:Aa; destruct (is_arr b) eqn:Ab.
  - destruct (is_arr_true _ Aa) as [la ->]. destruct (is_arr_true _ Ab) as [lb ->].
    rewrite !vec2_gen_LL. destruct (is_obj (VL la) || is_obj (VL lb)); [|apply Hl; assumption].
    f_equal. apply rzip_ext. intros x y Hx Hy. apply IH; [exact (all_leaves_in _ _ _ Na Hx)|exact (all_leaves_in _ _ _ Nb Hy)].
  - destruct (is_arr_true _ Aa) as [la ->]. rewrite !vec2_gen_LA by exact Ab.
    destruct (is_obj (VL la)); [|apply Hl; assumption].
    f_equal. apply rmap_ext. intros x Hx. apply IH; [exact (all_leaves_in _ _ _ Na Hx)|exact Nb].
  - destruct (is_arr_true _ Ab) as [lb ->]. rewrite !vec2_gen_AL by exact Aa.
    destruct (is_obj (VL lb)); [|apply Hl; assumption].
    f_equal. apply rmap_ext. intros y Hy. apply IH; [exact Na|exact (all_leaves_in _ _ _ Nb Hy)].
  - rewrite !vec2_gen_AA by assumption. apply Hl; assumption.
Qed.

Lemma leaf2n_num : forall sf a b, num_tree a = true -> num_tree b = true -> leaf2n sf a b = leaf2 sf a b.
Proof.
  intros sf a b Na Nb. unfold leaf2n. unfold num_tree in *.
  rewrite (num_tree_not_str a Na), (num_tree_not_str b Nb). rewrite andb_false_r. reflexivity.
Qed.

Section VecInstances.
  Variables (a b v : val).
  Hypothesis Hc : conformable a b = true.
  Hypothesis Hk : kb_vec a b = false.
  Hypothesis Hn : norm v = v.

  Lemma equal_spec : s2 sc_equal a b = Ok v -> m_equal a b = Ok v.
  Proof. intros Hs. unfold m_equal. apply vec2_spec; try assumption. apply fuel2_enough. Qed.

  Hypothesis Na : num_tree a = true.
  Hypothesis Nb : num_tree b = true.

  Lemma less_spec : s2 sc_less a b = Ok v -> m_less a b = Ok v.
  Proof.
    intros Hs. unfold m_less. rewrite (vec2_ext_num (leaf2n sc_less) (leaf2 sc_less) (leaf2n_num sc_less)) by assumption.
    apply vec2_spec; try assumption. apply fuel2_enough.
  Qed.
  Lemma more_spec : s2 sc_more a b = Ok v -> m_more a b = Ok v.
  Proof.
    intros Hs. unfold m_more. rewrite (vec2_ext_num (leaf2n sc_more) (leaf2 sc_more) (leaf2n_num sc_more)) by assumption.
    apply vec2_spec; try assumption. apply fuel2_enough.
  Qed.
  Lemma min_spec : s2 sc_min a b = Ok v -> m_min a b = Ok v.
  Proof.
    intros Hs. unfold m_min. rewrite (vec2_ext_num (leaf2n sc_min) (leaf2 sc_min) (leaf2n_num sc_min)) by assumption.
    apply vec2_spec; try assumption. apply fuel2_enough.
  Qed.
  Lemma max_spec : s2 sc_max a b = Ok v -> m_max a b = Ok v.
  Proof.
    intros Hs. unfold m_max. rewrite (vec2_ext_num (leaf2n sc_max) (leaf2 sc_max) (leaf2n_num sc_max)) by assumption.
    apply vec2_spec; try assumption. apply fuel2_enough.
  Qed.
  Lemma rem_spec : s2 sc_fmod a b = Ok v -> m_rem a b = Ok v.
  Proof.
    intros Hs. unfold m_rem. rewrite (vec2_ext_num (leaf2n sc_fmod) (leaf2 sc_fmod) (leaf2n_num sc_fmod)) by assumption.
    apply vec2_spec; try assumption. apply fuel2_enough.
  Qed.
  Lemma idiv_spec : nonzero_tree b = true -> s2 sc_idiv a b = Ok v -> m_idiv a b = Ok v.
  Proof.
    intros Hz Hs. unfold m_idiv.
    assert (P : both_atoms_zero_divisor a b = false).
    { unfold both_atoms_zero_divisor. destruct (is_arr a); [reflexivity|]. destruct (is_arr b) eqn:Ab; [reflexivity|].
      cbn [negb andb]. unfold nonzero_tree in Hz. rewrite (all_leaves_atom _ b Ab) in Hz.
      apply andb_true_iff in Hz. destruct Hz as [_ Hz]. apply negb_true_iff in Hz.
      destruct b; try reflexivity; exact Hz. }
    rewrite P. rewrite (vec2_ext_num (leaf2n sc_idiv) (leaf2 sc_idiv) (leaf2n_num sc_idiv)) by assumption.
    apply vec2_spec; try assumption. apply fuel2_enough.
  Qed.
End VecInstances.

(* comparison of two atoms of any kind (strings, characters, symbols are compared as wholes) *)
Lemma less_atoms : forall a b, is_arr a = false -> is_arr b = false -> m_less a b = sc_less a b.
Proof.
  intros a b Ha Hb. unfold m_less, fuel2. rewrite vec2_gen_AA by assumption.
  unfold leaf2n. rewrite Ha, Hb. rewrite !andb_false_r. cbn [orb]. unfold leaf2, bcast.
  rewrite (rdepth_atom _ Ha), (rdepth_atom _ Hb). reflexivity.
Qed.
Lemma equal_atoms : forall a b, is_arr a = false -> is_arr b = false -> m_equal a b = sc_equal a b.
Proof.
  intros a b Ha Hb. unfold m_equal, fuel2. rewrite vec2_gen_AA by assumption. unfold leaf2, bcast.
  rewrite (rdepth_atom _ Ha), (rdepth_atom _ Hb). reflexivity.
Qed.

(* kinds of scalar results *)
Lemma kind_int_closed : forall x y,
  (exists z, sc_add (VI x) (VI y) = Ok (VI z)) /\ (exists z, sc_sub (VI x) (VI y) = Ok (VI z)) /\
  (exists z, sc_mul (VI x) (VI y) = Ok (VI z)) /\ (exists z, sc_min (VI x) (VI y) = Ok (VI z)) /\
  (exists z, sc_max (VI x) (VI y) = Ok (VI z)) /\ (exists z, sc_fmod (VI x) (VI y) = Ok (VI z)) /\
  (y <> 0 -> sc_idiv (VI x) (VI y) = Ok (VI (Z.quot x y))).
Proof.
  intros x y. repeat split; try (eexists; reflexivity).
  intros H. cbn [sc_idiv]. destruct (y =? 0) eqn:E; [apply Z.eqb_eq in E; contradiction|reflexivity].
Qed.

Lemma kind_divide_real : forall a b r, sc_div a b = Ok r -> exists x, r = VR x.
Proof. intros a b r H. unfold sc_div in H. destruct (toR a); destruct (toR b); try discriminate. inversion H. eexists; reflexivity. Qed.

Lemma kind_compare_bit : forall a b r, sc_less a b = Ok r \/ sc_equal a b = Ok r -> r = VI 0 \/ r = VI 1.
Proof.
  intros a b r [H|H].
  - unfold sc_less in H. destruct a; destruct b; cbn in H; try discriminate;
      try (inversion H; match goal with |- context [if ?c then _ else _] => destruct c end; auto; fail).
    all: try (destruct (text_of _); try discriminate).
    all: try (inversion H; unfold b2v; match goal with |- context [if ?c then _ else _] => destruct c end; auto).
  - unfold sc_equal in H. destruct a; destruct b; cbn in H; try discriminate;
      try (inversion H; unfold b2v; match goal with |- context [if ?c then _ else _] => destruct c end; auto; fail);
      try (inversion H; auto; fail).
Qed.

Lemma kind_floor_int : forall a r, s_floor_fits a = true -> s_floor a = Ok r -> exists z, r = VI z.
Proof.
  intros a r Hf H. unfold s_floor_fits, s_floor in *. destruct a as [z|x| | | | |]; try discriminate Hf.
  - inversion H. eexists; reflexivity.
  - cbn [sc_floor_gen floor_fits_gen] in *. destruct (rfloor_exact x) as [z|]; [|discriminate Hf]. rewrite Hf in H. inversion H. eexists; reflexivity.
Qed.

(* ------------------------------------------------------------------ the dispatch tables the model was written against *)
Local Open Scope string_scope.
Definition expected_monad_table : list (list Z * string) :=
  [([64]%Z, "eval_monad_atom");
   ([38]%Z, "eval_monad_expand_where");
   ([42]%Z, "eval_monad_first");
   ([43]%Z, "eval_monad_transpose");
   ([729]%Z, "eval_monad_track");
   ([124]%Z, "eval_monad_reverse");
   ([44]%Z, "eval_monad_list");
   ([58; 35]%Z, "eval_monad_char");
   ([33]%Z, "eval_monad_enumerate");
   ([95]%Z, "eval_monad_floor");
   ([36]%Z, "eval_monad_format");
   ([60]%Z, "eval_monad_grade_up");
   ([62]%Z, "eval_monad_grade_down");
   ([61]%Z, "eval_monad_groupby");
   ([45]%Z, "eval_monad_negate");
   ([126]%Z, "eval_monad_not");
   ([63]%Z, "eval_monad_range");
   ([37]%Z, "eval_monad_reciprocal");
   ([35]%Z, "eval_monad_size");
   ([58; 95]%Z, "eval_monad_undefined");
   ([94]%Z, "eval_monad_shape");
   ([8711]%Z, "eval_monad_grad")].
Definition expected_dyad_table : list (list Z * string) :=
  [([58; 45]%Z, "eval_dyad_amend_in_depth");
   ([95]%Z, "eval_dyad_drop");
   ([58; 64]%Z, "eval_dyad_index_in_depth");
   ([43]%Z, "eval_dyad_add");
   ([124]%Z, "eval_dyad_maximum");
   ([38]%Z, "eval_dyad_minimum");
   ([33]%Z, "eval_dyad_remainder");
   ([37]%Z, "eval_dyad_divide");
   ([42]%Z, "eval_dyad_multiply");
   ([45]%Z, "eval_dyad_subtract");
   ([58; 61]%Z, "eval_dyad_amend");
   ([58; 95]%Z, "eval_dyad_cut");
   ([61]%Z, "eval_dyad_equal");
   ([63]%Z, "eval_dyad_find");
   ([58; 36]%Z, "eval_dyad_form");
   ([36]%Z, "eval_dyad_format2");
   ([58; 37]%Z, "eval_dyad_integer_divide");
   ([44]%Z, "eval_dyad_join");
   ([60]%Z, "eval_dyad_less");
   ([126]%Z, "eval_dyad_match");
   ([62]%Z, "eval_dyad_more");
   ([94]%Z, "eval_dyad_power");
   ([58; 94]%Z, "eval_dyad_reshape");
   ([58; 43]%Z, "eval_dyad_rotate");
   ([58; 35]%Z, "eval_dyad_split");
   ([35]%Z, "eval_dyad_take");
   ([64]%Z, "eval_dyad_at_index");
   ([58; 58]%Z, "eval_dyad_define");
   ([8711]%Z, "eval_dyad_grad");
   ([8706]%Z, "eval_dyad_jacobian");
   ([58; 62]%Z, "eval_dyad_autograd")].
Local Close Scope string_scope.

Definition entry_eqb (x y : list Z * string) : bool := zs_eqb (fst x) (fst y) && String.eqb (snd x) (snd y).
Definition table_eqb := list_eqb entry_eqb.
Definition all_present (names : list string) (t : list (list Z * string)) : bool :=
  forallb (fun f => existsb (fun e => String.eqb f (snd e)) t) names.
Definition check_tables : bool :=
  tables_shape_ok && table_eqb monad_table expected_monad_table && table_eqb dyad_table expected_dyad_table &&
  all_present modelled_monads monad_table && all_present modelled_dyads dyad_table.

Lemma tables_checked : check_tables = true.
Proof. vm_compute. reflexivity. Qed.

(* ------------------------------------------------------------------ structural verbs at the level of the dispatcher *)
Local Open Scope string_scope.
Local Open Scope Z_scope.

Lemma m_dyad_take : forall a b, canonical a && canonical b = true -> m_dyad "eval_dyad_take" a b = m_take a b.
Proof. intros a b H. unfold m_dyad. rewrite H. reflexivity. Qed.
Lemma m_dyad_drop : forall a b, canonical a && canonical b = true -> m_dyad "eval_dyad_drop" a b = m_drop a b.
Proof. intros a b H. unfold m_dyad. rewrite H. reflexivity. Qed.
Lemma m_dyad_rotate : forall a b, canonical a && canonical b = true -> m_dyad "eval_dyad_rotate" a b = m_rotate a b.
Proof. intros a b H. unfold m_dyad. rewrite H. reflexivity. Qed.
Lemma m_monad_reverse : forall a, canonical a = true -> m_monad "eval_monad_reverse" a = m_reverse a.
Proof. intros a H. unfold m_monad. rewrite H. reflexivity. Qed.

Lemma take_holds : forall n b, canonical b = true ->
  dom_dyad "eval_dyad_take" (VI n) b = true ->
  m_dyad "eval_dyad_take" (VI n) b = s_dyad "eval_dyad_take" (VI n) b.
Proof.
  intros n b Hc Hd. rewrite m_dyad_take by exact Hc.
  destruct b as [z|r|c|s|s|l|]; try (cbn in Hd; discriminate).
  - rewrite take_string_spec. reflexivity.
  - rewrite take_list_spec. reflexivity.
Qed.

Lemma drop_holds : forall a b, canonical a && canonical b = true ->
  dom_dyad "eval_dyad_drop" a b = true ->
  m_dyad "eval_dyad_drop" a b = s_dyad "eval_dyad_drop" a b.
Proof.
  intros a b Hc Hd. rewrite m_dyad_drop by exact Hc.
  destruct a as [n| | | | | |]; try (cbn in Hd; discriminate).
  destruct b as [z|r|c|s|s|l|]; try (cbn in Hd; discriminate).
  - change (s_dyad "eval_dyad_drop" (VI n) (VS s)) with (Ok (VS (s_drop 0 n s))).
    unfold m_drop, s_drop. f_equal. f_equal. destruct (0 <=? n) eqn:E.
    + apply Z.leb_le in E. apply drop_front. exact E.
    + apply Z.leb_gt in E. apply drop_back. exact E.
  - change (s_dyad "eval_dyad_drop" (VI n) (VL l)) with (Ok (VL (s_drop VU n l))).
    unfold m_drop, s_drop, py_tail, py_but_last. f_equal. f_equal. destruct (0 <=? n) eqn:E.
    + apply Z.leb_le in E. apply drop_front. exact E.
    + apply Z.leb_gt in E. replace (zlen l - - n) with (zlen l + n) by lia. apply drop_back. exact E.
Qed.

Lemma rotate_holds : rotate_uses_axis0 = true -> forall a b, canonical a && canonical b = true ->
  dom_dyad "eval_dyad_rotate" a b = true ->
  m_dyad "eval_dyad_rotate" a b = s_dyad "eval_dyad_rotate" a b.
Proof.
  intros Hf a b Hc Hd. rewrite m_dyad_rotate by exact Hc.
  destruct a as [n| | | | | |]; try (cbn in Hd; discriminate Hd).
  destruct b as [z|r|c|s|s|l|]; try (cbn in Hd; discriminate Hd).
  - unfold m_rotate. rewrite rotate_string_spec. reflexivity.
  - unfold m_rotate. rewrite rotate_list_1d by (left; exact Hf). reflexivity.
Qed.

Lemma reverse_holds : reverse_guards_atoms = true -> forall a, canonical a = true ->
  m_monad "eval_monad_reverse" a = s_monad "eval_monad_reverse" a.
Proof.
  intros Hf a Hc. rewrite m_monad_reverse by exact Hc. unfold m_reverse. rewrite Hf. unfold m_reverse_gen.
  destruct a as [z|r|c|s|s|l|]; try reflexivity.
  - change (s_monad "eval_monad_reverse" (VS s)) with (Ok (VS (s_reverse 0 s))). rewrite (reverse_spec 0). reflexivity.
  - change (s_monad "eval_monad_reverse" (VL l)) with (Ok (VL (s_reverse VU l))). rewrite (reverse_spec VU). reflexivity.
Qed.

(* ------------------------------------------------------------------ known-finding classes: witnesses *)
Definition res_eqb (x y : res) : bool :=
  match x, y with
  | Ok v, Ok w => val_eqb v w
  | Err, Err | Unmod, Unmod | NoFuel, NoFuel => true
  | _, _ => false
  end.

Definition refutes_d (cls f : string) (a b : val) : bool :=
  dom_dyad f a b && String.eqb (k_dyad f a b) cls && negb (res_eqb (m_dyad f (norm a) (norm b)) (s_dyad f a b)).
Definition refutes_m (cls f : string) (a : val) : bool :=
  dom_monad f a && String.eqb (k_monad f a) cls && negb (res_eqb (m_monad f (norm a)) (s_monad f a)).

Definition r25 : val := VR (real_of_bits 4612811918334230528).   (* 2.5 *)
Definition m22 : val := VL [VL [VI 1; VI 2]; VL [VI 3; VI 4]].
Definition a223 : val := VL [VL [VL [VI 1; VI 2; VI 3]; VL [VI 4; VI 5; VI 6]]; VL [VL [VI 7; VI 8; VI 9]; VL [VI 10; VI 11; VI 12]]].

Lemma refuted_homogenise : refutes_m "homogenise" "eval_monad_first" (VL [VI 1; r25]) = true.
Proof. vm_compute. reflexivity. Qed.
Lemma refuted_broadcast : refutes_d "broadcast" "eval_dyad_add" (VL [VI 1; VI 2]) m22 = true.
Proof. vm_compute. reflexivity. Qed.
Lemma match_ints_without_fix : isclose_gen false (VI 100000) (VI 100001) = true /\ s_same (VI 100000) (VI 100001) = false.
Proof. vm_compute. split; reflexivity. Qed.

(* the behaviour before the fix: commits, as the model computes it when the regenerated flag is false *)
Lemma rotate_without_axis0 :
  res_eqb (m_rotate_gen false (VI 1) (VL [VL [VI 1; VI 2]; VL [VI 4; VI 5]; VL [VI 5; VI 6]]))
          (s_dyad "eval_dyad_rotate" (VI 1) (VL [VL [VI 1; VI 2]; VL [VI 4; VI 5]; VL [VI 5; VI 6]])) = false.
Proof. vm_compute. reflexivity. Qed.
Lemma reverse_without_guard : m_reverse_gen false (VI 1) = Err /\ s_monad "eval_monad_reverse" (VI 1) = Ok (VI 1).
Proof. split; reflexivity. Qed.

(* ------------------------------------------------------------------ Cut *)
Section CutLemmas.
  Context {A : Type} (d : A).

  Lemma seg_slice : forall lo hi (l : list A), 0 <= lo -> lo <= hi -> hi <= zlen l ->
    firstn (Z.to_nat hi - Z.to_nat lo) (skipn (Z.to_nat lo) l) = seg d lo hi l.
  Proof.
    intros lo hi l H0 H1 H2. unfold seg. apply (eq_tab d).
    - rewrite firstn_length, skipn_length. unfold zlen in *. lia.
    - intros i Hi. rewrite firstn_length, skipn_length in Hi. rewrite nth_firstn' by lia. rewrite nth_skipn'.
      unfold ix. f_equal. lia.
  Qed.

  Lemma seg_tail : forall lo (l : list A), 0 <= lo -> lo <= zlen l ->
    skipn (Z.to_nat lo) l = seg d lo (zlen l) l.
  Proof.
    intros lo l H0 H1. unfold seg. apply (eq_tab d).
    - rewrite skipn_length. unfold zlen in *. lia.
    - intros i Hi. rewrite nth_skipn'. unfold ix. f_equal. lia.
  Qed.

  Lemma cut_spec : forall idx prev (l : list A), 0 <= prev -> incr_within prev (zlen l) idx = true -> prev <= zlen l ->
    forall nidx, nats_of idx = Some nidx ->
    split_at (Z.to_nat prev) nidx l = s_cut_from d prev idx l.
  Proof.
    induction idx as [|i idx IH]; intros prev l H0 Hinc Hp nidx Hn.
    - cbn in Hn. inversion Hn. subst nidx. cbn [split_at s_cut_from]. f_equal. apply seg_tail; assumption.
    - cbn [incr_within] in Hinc. apply andb_true_iff in Hinc. destruct Hinc as [Hinc Hrest].
      apply andb_true_iff in Hinc. destruct Hinc as [Hlo Hhi]. apply Z.leb_le in Hlo. apply Z.leb_le in Hhi.
      cbn [nats_of] in Hn. destruct (i <? 0) eqn:Ei; [discriminate|]. apply Z.ltb_ge in Ei.
      destruct (nats_of idx) as [ns|] eqn:En; [|discriminate]. inversion Hn. subst nidx.
      cbn [split_at s_cut_from]. f_equal.
      + apply seg_slice; lia.
      + apply IH; try assumption; try reflexivity; lia.
  Qed.
End CutLemmas.

Lemma incr_nonneg : forall idx prev hi, 0 <= prev -> incr_within prev hi idx = true -> exists ns, nats_of idx = Some ns.
Proof.
  induction idx as [|i idx IH]; intros prev hi H0 H; [exists []; reflexivity|].
  cbn [incr_within] in H. apply andb_true_iff in H. destruct H as [H Hr]. apply andb_true_iff in H. destruct H as [H1 H2].
  apply Z.leb_le in H1. destruct (IH i hi ltac:(lia) Hr) as [ns Hn].
  cbn [nats_of]. replace (i <? 0) with false by (symmetry; apply Z.ltb_ge; lia). rewrite Hn. eexists; reflexivity.
Qed.

Lemma split_at_map : forall {A B} (f : A -> B) idx prev (l : list A),
  split_at prev idx (map f l) = map (map f) (split_at prev idx l).
Proof.
  induction idx as [|i idx IH]; intros prev l; cbn [split_at map].
  - rewrite skipn_map. reflexivity.
  - rewrite skipn_map, firstn_map, IH. reflexivity.
Qed.

Lemma rmap_joined_chars : forall (ss : list (list Z)), rmap joined (map chars ss) = Ok (map VS ss).
Proof.
  induction ss as [|s ss IH]; [reflexivity|]. cbn [map rmap]. rewrite joined_chars. cbn [bind]. rewrite IH. reflexivity.
Qed.

Local Open Scope string_scope.
Local Open Scope Z_scope.
Lemma m_dyad_cut : forall a b, canonical a && canonical b = true -> m_dyad "eval_dyad_cut" a b = m_cut a b.
Proof. intros a b H. unfold m_dyad. rewrite H. reflexivity. Qed.

Lemma ints_of_all_int : forall l, forallb is_int l = true -> exists zs, ints_of l = Some zs.
Proof.
  induction l as [|y l IH]; intros H; [exists []; reflexivity|].
  cbn [forallb] in H. apply andb_true_iff in H. destruct H as [Hy Hl]. destruct (IH Hl) as [zs Hz].
  destruct y; try discriminate Hy. cbn [ints_of]. rewrite Hz. eexists; reflexivity.
Qed.

Definition operand_ints (a : val) : list val := match a with VL la => la | _ => [a] end.

Lemma cut_dom_inv : forall a b, dom_dyad "eval_dyad_cut" a b = true ->
  exists zs, ints_of (operand_ints a) = Some zs /\ zints a = zs /\
    ((exists l, b = VL l /\ incr_within 0 (zlen l) zs = true /\ 0 < zlen l) \/
     (exists t, b = VS t /\ incr_within 0 (zlen t) zs = true /\ 0 < zlen t)).
Proof.
  intros a b Hd.
  destruct a as [n| | | | |la|]; try (destruct b; cbn in Hd; discriminate Hd).
  - exists [n]. split; [reflexivity|]. split; [reflexivity|].
    destruct b as [z|r|c|t|t|l|]; try (cbn in Hd; discriminate Hd).
    + right. exists t. split; [reflexivity|]. cbn in Hd. apply andb_true_iff in Hd. destruct Hd as [Hd Hp].
      apply Z.ltb_lt in Hp. split; [|exact Hp]. cbn [incr_within]. rewrite Hd. reflexivity.
    + left. exists l. split; [reflexivity|]. cbn in Hd. apply andb_true_iff in Hd. destruct Hd as [Hd Hp].
      apply Z.ltb_lt in Hp. split; [|exact Hp]. cbn [incr_within]. rewrite Hd. reflexivity.
  - destruct la as [|x r']; [destruct b; cbn in Hd; discriminate Hd|].
    destruct b as [z|r|c|t|t|l|]; try (cbn in Hd; discriminate Hd).
    + change (dom_dyad "eval_dyad_cut" (VL (x :: r')) (VS t)) with
        ((npdepth (VL (x :: r')) =? 1)%nat && forallb is_int (x :: r') && incr_within 0 (zlen t) (zints (VL (x :: r'))) && (0 <? zlen t)) in Hd.
      apply andb_true_iff in Hd. destruct Hd as [Hd Hp]. apply andb_true_iff in Hd. destruct Hd as [Hd Hinc].
      apply andb_true_iff in Hd. destruct Hd as [_ Hall]. apply Z.ltb_lt in Hp.
      destruct (ints_of_all_int _ Hall) as [zs Hz]. exists zs. split; [exact Hz|].
      assert (Ez : zints (VL (x :: r')) = zs) by (unfold zints, members; rewrite Hz; reflexivity).
      split; [exact Ez|]. right. exists t. rewrite Ez in Hinc. auto.
    + change (dom_dyad "eval_dyad_cut" (VL (x :: r')) (VL l)) with
        ((npdepth (VL (x :: r')) =? 1)%nat && forallb is_int (x :: r') && incr_within 0 (zlen l) (zints (VL (x :: r'))) && (0 <? zlen l)) in Hd.
      apply andb_true_iff in Hd. destruct Hd as [Hd Hp]. apply andb_true_iff in Hd. destruct Hd as [Hd Hinc].
      apply andb_true_iff in Hd. destruct Hd as [_ Hall]. apply Z.ltb_lt in Hp.
      destruct (ints_of_all_int _ Hall) as [zs Hz]. exists zs. split; [exact Hz|].
      assert (Ez : zints (VL (x :: r')) = zs) by (unfold zints, members; rewrite Hz; reflexivity).
      split; [exact Ez|]. left. exists l. rewrite Ez in Hinc. auto.
Qed.

Lemma m_cut_unfold : forall a b zs ns j x l', ints_of (operand_ints a) = Some zs -> nats_of zs = Some ns ->
  as_members b = Some (j, x :: l') -> m_cut a b = segs j (split_at 0 ns (x :: l')).
Proof.
  intros a b zs ns j x l' Hz Hn Hb. unfold m_cut. rewrite Hb. fold (operand_ints a). rewrite Hz, Hn.
  destruct ns; reflexivity.
Qed.

(* positions as one integer or a 1-D list of integers, non-decreasing within 0..#b, b non-empty list or string *)
Lemma cut_holds : forall a b, canonical a && canonical b = true ->
  dom_dyad "eval_dyad_cut" a b = true ->
  m_dyad "eval_dyad_cut" a b = s_dyad "eval_dyad_cut" a b.
Proof.
  intros a b Hc Hd. rewrite m_dyad_cut by exact Hc.
  destruct (cut_dom_inv a b Hd) as [zs [Hz [Ezi [[l [-> [Hinc Hp]]]|[t [-> [Hinc Hp]]]]]]].
  - destruct l as [|x l']; [cbn in Hp; lia|].
    destruct (incr_nonneg zs 0 _ ltac:(lia) Hinc) as [ns Hn].
    rewrite (m_cut_unfold a (VL (x :: l')) zs ns false x l' Hz Hn eq_refl).
    change (s_dyad "eval_dyad_cut" a (VL (x :: l'))) with (Ok (lists (s_cut VU (zints a) (x :: l')))).
    rewrite Ezi. unfold segs, lists. f_equal. f_equal. f_equal. unfold s_cut.
    apply (cut_spec VU zs 0 (x :: l')); try assumption; lia.
  - destruct t as [|c t']; [cbn in Hp; lia|].
    destruct (incr_nonneg zs 0 _ ltac:(lia) Hinc) as [ns Hn].
    rewrite (m_cut_unfold a (VS (c :: t')) zs ns true (VC c) (chars t') Hz Hn eq_refl).
    change (s_dyad "eval_dyad_cut" a (VS (c :: t'))) with (Ok (strs (s_cut 0 (zints a) (c :: t')))).
    rewrite Ezi. change (VC c :: chars t') with (chars (c :: t')). unfold chars at 1. rewrite split_at_map.
    unfold segs, okl. fold chars. rewrite rmap_joined_chars. cbn [bind]. unfold strs. f_equal. f_equal. f_equal.
    unfold s_cut. apply (cut_spec 0 zs 0 (c :: t')); try assumption; lia.
Qed.

(* ------------------------------------------------------------------ Split *)
Lemma skipn_skipn' : forall {A} a b (l : list A), skipn a (skipn b l) = skipn (b + a) l.
Proof.
  intros A a b. revert a. induction b as [|b IH]; intros a l; [reflexivity|].
  destruct l as [|x l]; [rewrite !skipn_nil; reflexivity|]. cbn [skipn Nat.add]. apply IH.
Qed.

Lemma skipn_nonempty : forall {A} k (l : list A), (k < List.length l)%nat -> skipn k l <> [].
Proof.
  intros A k l H E. assert (X : List.length (skipn k l) = O) by (rewrite E; reflexivity). rewrite skipn_length in X. lia.
Qed.

Section SplitLemmas.
  Context {A : Type} (d : A).

  Lemma seg_clip : forall off s (l : list A), 0 <= off -> off <= zlen l -> 0 <= s ->
    firstn (Z.to_nat s) (skipn (Z.to_nat off) l) = seg d off (Z.min (off + s) (zlen l)) l.
  Proof.
    intros off s l H0 H1 H2. unfold seg. apply (eq_tab d).
    - rewrite firstn_length, skipn_length. unfold zlen in *. lia.
    - intros i Hi. rewrite firstn_length, skipn_length in Hi. rewrite nth_firstn' by lia. rewrite nth_skipn'.
      unfold ix. f_equal. lia.
  Qed.

  (* one size, segments cut at its multiples *)
  Lemma split_multiples : forall a0 (l : list A), (0 < a0)%nat ->
    forall fm fs k prev, (prev < List.length l)%nat ->
      (List.length l <= fm + (prev + a0))%nat -> (List.length l - prev <= fs)%nat ->
      split_at prev (multiples fm a0 (prev + a0) (List.length l)) l
      = s_split_from d fs k (Z.of_nat prev) [Z.of_nat a0] l.
  Proof.
    intros a0 l Ha. induction fm as [|fm IH]; intros fs k prev Hp Hfm Hfs.
    - (* no fuel: prev + a0 >= L *)
      cbn [multiples split_at]. destruct fs as [|fs]; [lia|]. cbn [s_split_from].
      replace (Z.of_nat prev <? zlen l) with true by (symmetry; apply Z.ltb_lt; unfold zlen; lia).
      replace (nth (k mod List.length [Z.of_nat a0]) [Z.of_nat a0] 1) with (Z.of_nat a0)
        by (cbn [List.length]; rewrite Nat.mod_1_r; reflexivity).
      f_equal.
      + rewrite <- (Nat2Z.id prev) at 1. rewrite (seg_tail d) by (unfold zlen; lia). f_equal. unfold zlen. lia.
      + destruct fs; [reflexivity|]. cbn [s_split_from].
        replace (Z.of_nat prev + Z.of_nat a0 <? zlen l) with false by (symmetry; apply Z.ltb_ge; unfold zlen; lia). reflexivity.
    - cbn [multiples]. destruct fs as [|fs]; [lia|]. cbn [s_split_from].
      replace (Z.of_nat prev <? zlen l) with true by (symmetry; apply Z.ltb_lt; unfold zlen; lia).
      replace (nth (k mod List.length [Z.of_nat a0]) [Z.of_nat a0] 1) with (Z.of_nat a0)
        by (cbn [List.length]; rewrite Nat.mod_1_r; reflexivity).
      destruct (Nat.ltb (prev + a0) (List.length l)) eqn:E.
      + apply Nat.ltb_lt in E. cbn [split_at]. f_equal.
        * replace (prev + a0 - prev)%nat with (Z.to_nat (Z.of_nat a0)) by lia.
          rewrite <- (Nat2Z.id prev) at 1. rewrite seg_clip by (unfold zlen; lia). reflexivity.
        * replace (Z.of_nat prev + Z.of_nat a0) with (Z.of_nat (prev + a0)) by lia. apply IH; lia.
      + apply Nat.ltb_ge in E. cbn [split_at]. f_equal.
        * rewrite <- (Nat2Z.id prev) at 1. rewrite (seg_tail d) by (unfold zlen; lia). f_equal. unfold zlen. lia.
        * destruct fs; [reflexivity|]. cbn [s_split_from].
          replace (Z.of_nat prev + Z.of_nat a0 <? zlen l) with false by (symmetry; apply Z.ltb_ge; unfold zlen; lia). reflexivity.
  Qed.

  (* several sizes: the cycling loop *)
  Lemma split_loop_spec : forall (sizes : list Z) (l : list A), sizes <> [] -> Forall (fun s => 0 < s) sizes ->
    forall fm fs k off cur, (off <= List.length l)%nat ->
      ((cur = skipn (k mod List.length sizes) sizes) \/ (cur = [] /\ (k mod List.length sizes = 0)%nat)) ->
      (2 * (List.length l - off) + 2 <= fm)%nat -> (List.length l - off <= fs)%nat ->
      split_loop fm sizes cur (skipn off l) = Ok (s_split_from d fs k (Z.of_nat off) sizes l).
  Proof.
    intros sizes l Hne Hpos.
    assert (Hn : (0 < List.length sizes)%nat) by (destruct sizes; [congruence|cbn; lia]).
    induction fm as [fm IH] using lt_wf_ind. intros fs k off cur Hoff Hcur Hfm Hfs.
    destruct fm as [|fm]; [lia|]. cbn [split_loop].
    destruct (skipn off l) as [|x rest] eqn:Erest.
    - (* end of the list *)
      assert (off = List.length l).
      { destruct (Nat.eq_dec off (List.length l)) as [|Hneq]; [assumption|]. exfalso.
        apply (skipn_nonempty off l); [lia|exact Erest]. }
      subst off. destruct fs; [reflexivity|]. cbn [s_split_from].
      replace (Z.of_nat (List.length l) <? zlen l) with false by (symmetry; apply Z.ltb_ge; unfold zlen; lia). reflexivity.
    - assert (Hlt : (off < List.length l)%nat).
      { destruct (Nat.lt_ge_cases off (List.length l)) as [|Hge]; [assumption|]. rewrite skipn_all2 in Erest by lia. discriminate. }
      rewrite <- Erest.
      assert (Hmod : (k mod List.length sizes < List.length sizes)%nat) by (apply Nat.mod_upper_bound; lia).
      assert (Hstep : forall cur0, cur0 = skipn (k mod List.length sizes) sizes -> forall fm0, (2 * (List.length l - off) + 1 <= S fm0)%nat ->
                (forall m, (m < S fm0)%nat -> forall fs k off cur, (off <= List.length l)%nat ->
                   cur = skipn (k mod List.length sizes) sizes \/ cur = [] /\ (k mod List.length sizes)%nat = 0%nat ->
                   (2 * (List.length l - off) + 2 <= m)%nat -> (List.length l - off <= fs)%nat ->
                   split_loop m sizes cur (skipn off l) = Ok (s_split_from d fs k (Z.of_nat off) sizes l)) ->
                match cur0 with
                | [] => match sizes with [] => Err | _ => split_loop fm0 sizes sizes (skipn off l) end
                | s :: cur' => if s <=? 0 then Unmod else
                      bind (split_loop fm0 sizes cur' (skipn (Z.to_nat s) (skipn off l))) (fun r => Ok (firstn (Z.to_nat s) (skipn off l) :: r))
                end = Ok (s_split_from d fs k (Z.of_nat off) sizes l)).
      { intros cur0 Ecur fm0 Hfm0 IH0.
        pose proof (skipn_nonempty _ _ Hmod) as Hcne.
        destruct cur0 as [|s cur']; [rewrite <- Ecur in Hcne; congruence|].
        assert (Es : nth (k mod List.length sizes) sizes 1 = s).
        { rewrite <- (Nat.add_0_r (k mod List.length sizes)). rewrite <- (nth_skipn' 1 (k mod List.length sizes) sizes 0).
          rewrite <- Ecur. reflexivity. }
        assert (Hs : 0 < s).
        { rewrite Forall_forall in Hpos. apply Hpos. rewrite <- Es. apply nth_In. exact Hmod. }
        replace (s <=? 0) with false by (symmetry; apply Z.leb_gt; exact Hs).
        destruct fs as [|fs]; [lia|]. cbn [s_split_from].
        replace (Z.of_nat off <? zlen l) with true by (symmetry; apply Z.ltb_lt; unfold zlen; lia).
        rewrite Es. rewrite skipn_skipn'.
        set (off' := (off + Z.to_nat s)%nat).
        destruct (Nat.le_gt_cases off' (List.length l)) as [Hle|Hgt].
        - rewrite (IH0 fm0 ltac:(lia) fs (S k) off' cur'); [| exact Hle | | unfold off'; lia | unfold off'; lia].
          + cbn [bind]. f_equal. f_equal.
            * rewrite <- (Nat2Z.id off) at 1. rewrite seg_clip by (unfold zlen; lia). reflexivity.
            * f_equal. unfold off'. lia.
          + (* the remaining sizes *)
            assert (Ecur' : cur' = skipn (S (k mod List.length sizes)) sizes).
            { replace (S (k mod List.length sizes)) with (k mod List.length sizes + 1)%nat by lia.
              rewrite <- skipn_skipn'. rewrite <- Ecur. reflexivity. }
            destruct (Nat.eq_dec (S (k mod List.length sizes)) (List.length sizes)) as [Eend|Eend].
            * right. split.
              -- rewrite Ecur', Eend. apply skipn_all.
              -- replace (S k) with (k + 1)%nat by lia. rewrite Nat.add_mod by lia.
                 destruct (Nat.eq_dec (List.length sizes) 1) as [E1|E1].
                 ++ rewrite E1. rewrite !Nat.mod_1_r. reflexivity.
                 ++ rewrite (Nat.mod_small 1) by lia. replace (k mod List.length sizes + 1)%nat with (List.length sizes) by lia.
                    apply Nat.mod_same. lia.
            * left. rewrite Ecur'. f_equal.
              replace (S k) with (k + 1)%nat by lia. rewrite Nat.add_mod by lia.
              destruct (Nat.eq_dec (List.length sizes) 1) as [E1|E1]; [rewrite E1 in *; rewrite Nat.mod_1_r in Eend; lia|].
              rewrite (Nat.mod_small 1) by lia. rewrite (Nat.mod_small (k mod List.length sizes + 1)) by lia. lia.
        - (* the segment reaches the end *)
          rewrite skipn_all2 by (unfold off' in *; lia).
          assert (Eloop : split_loop fm0 sizes cur' (@nil A) = Ok []) by (destruct fm0; [lia|reflexivity]).
          rewrite Eloop. cbn [bind]. f_equal. f_equal.
          + rewrite <- (Nat2Z.id off) at 1. rewrite seg_clip by (unfold zlen; lia). reflexivity.
          + destruct fs; [reflexivity|]. cbn [s_split_from].
            replace (Z.of_nat off + s <? zlen l) with false by (symmetry; apply Z.ltb_ge; unfold zlen, off' in *; lia). reflexivity. }
      destruct Hcur as [Hcur|[Hcur Hk0]].
      + apply (Hstep cur Hcur fm); [lia|]. intros m Hm. apply IH. lia.
      + subst cur. destruct sizes as [|s0 sizes']; [congruence|].
        destruct fm as [|fm']; [lia|]. cbn [split_loop]. rewrite Erest. rewrite <- Erest.
        apply (Hstep (s0 :: sizes')); [rewrite Hk0; reflexivity|lia|]. intros m Hm. apply IH. lia.
  Qed.
End SplitLemmas.

Lemma seg_chars : forall s lo hi, 0 <= lo -> hi <= zlen s -> seg VU lo hi (chars s) = chars (seg 0 lo hi s).
Proof.
  intros s lo hi H0 H1. unfold seg. apply (tab_chars s (hi - lo) (fun i => lo + i)). intros i Hi. lia.
Qed.

Lemma split_from_chars : forall sizes s, Forall (fun z => 0 < z) sizes ->
  forall fs k off, 0 <= off ->
  s_split_from VU fs k off sizes (chars s) = map chars (s_split_from 0 fs k off sizes s).
Proof.
  intros sizes s Hpos. induction fs as [|fs IH]; intros k off H0; [reflexivity|].
  cbn [s_split_from]. rewrite zlen_chars. destruct (off <? zlen s) eqn:E; [|reflexivity].
  assert (Hsz : 0 < nth (k mod List.length sizes) sizes 1).
  { destruct (Nat.lt_ge_cases (k mod List.length sizes) (List.length sizes)) as [Hlt|Hge].
    - rewrite Forall_forall in Hpos. apply Hpos. apply nth_In. exact Hlt.
    - rewrite nth_overflow by exact Hge. lia. }
  cbn [map]. f_equal.
  - apply seg_chars; lia.
  - apply IH. lia.
Qed.

Lemma seg_all : forall {A} (d : A) (l : list A), seg d 0 (zlen l) l = l.
Proof.
  intros A d l. symmetry. unfold seg. apply (eq_tab d); [unfold zlen; lia|].
  intros i Hi. unfold ix. f_equal. lia.
Qed.

Lemma ok_inj : forall {A} (x y : A), Ok x = Ok y -> x = y.
Proof. intros A x y H. injection H as H'. exact H'. Qed.

Lemma m_dyad_split : forall a b, canonical a && canonical b = true -> m_dyad "eval_dyad_split" a b = m_split a b.
Proof. intros a b H. unfold m_dyad. rewrite H. reflexivity. Qed.

Lemma sizes_ok_inv : forall a, sizes_ok a = true ->
  exists zs, ints_of (members a) = Some zs /\ zints a = zs /\ zs <> [] /\ Forall (fun z => 0 < z) zs.
Proof.
  intros a H. destruct a as [n| | | | |la|]; try discriminate H.
  - exists [n]. cbn in H. apply Z.ltb_lt in H. repeat split; try reflexivity; [discriminate|constructor; [exact H|constructor]].
  - destruct la as [|x r]; [discriminate H|]. cbn [sizes_ok] in H. apply andb_true_iff in H. destruct H as [_ Hall].
    assert (G : forall l, forallb (fun v => match v with VI n => 0 <? n | _ => false end) l = true ->
              exists zs, ints_of l = Some zs /\ List.length zs = List.length l /\ Forall (fun z => 0 < z) zs).
    { induction l as [|y l IH]; intros Hl; [exists []; repeat split; constructor|].
      cbn [forallb] in Hl. apply andb_true_iff in Hl. destruct Hl as [Hy Hl]. destruct (IH Hl) as [zs [Hz [Hlen Hp]]].
      destruct y; try discriminate Hy. apply Z.ltb_lt in Hy. exists (z :: zs). cbn [ints_of]. rewrite Hz.
      repeat split; [cbn; lia|constructor; assumption]. }
    destruct (G _ Hall) as [zs [Hz [Hlen Hp]]]. exists zs. cbn [members].
    repeat split; [exact Hz|unfold zints; cbn [members]; rewrite Hz; reflexivity| |exact Hp].
    intros ->. cbn in Hlen. lia.
Qed.

(* the list computation of m_split_gen true, for a non-empty member list *)
Lemma split_core : forall {A} (d : A) (zs : list Z) (l : list A), zs <> [] -> Forall (fun z => 0 < z) zs -> l <> [] ->
  match zs with
  | [a0] =>
      if zlen l <=? a0 then Ok [l]
      else Ok (split_at 0 (multiples (List.length l) (Z.to_nat a0) (Z.to_nat a0) (List.length l)) l)
  | _ => split_loop (S (2 * List.length l + List.length zs)) zs zs l
  end = Ok (s_split d zs l).
Proof.
  intros A d zs l Hne Hpos Hl. unfold s_split.
  assert (HL : (0 < List.length l)%nat) by (destruct l; [congruence|cbn; lia]).
  destruct zs as [|a0 [|a1 rest]]; [congruence| |].
  - inversion Hpos as [|? ? Ha0 _]. subst.
    destruct (zlen l <=? a0) eqn:E.
    + apply Z.leb_le in E. f_equal. destruct (List.length l) as [|fs] eqn:EL; [lia|]. cbn [s_split_from].
      replace (0 <? zlen l) with true by (symmetry; apply Z.ltb_lt; unfold zlen; lia).
      cbn [List.length]. rewrite Nat.mod_1_r. cbn [nth]. replace (Z.min (0 + a0) (zlen l)) with (zlen l) by lia.
      rewrite seg_all. f_equal. destruct fs; [reflexivity|]. cbn [s_split_from].
      replace (0 + a0 <? zlen l) with false by (symmetry; apply Z.ltb_ge; lia). reflexivity.
    + apply Z.leb_gt in E. f_equal.
      rewrite <- (Z2Nat.id a0) at 3 by lia.
      apply (split_multiples d (Z.to_nat a0) l ltac:(lia) (List.length l) (List.length l) 0%nat 0%nat); lia.
  - apply (split_loop_spec d (a0 :: a1 :: rest) l Hne Hpos (S (2 * List.length l + List.length (a0 :: a1 :: rest))) (List.length l) 0%nat 0%nat);
      [lia|left; rewrite Nat.mod_0_l by (cbn; lia); reflexivity|cbn [List.length]; lia|lia].
Qed.

Lemma split_holds : forall a b, canonical a && canonical b = true ->
  dom_dyad "eval_dyad_split" a b = true ->
  m_split_gen true a b = s_dyad "eval_dyad_split" a b.
Proof.
  intros a b Hc Hd.
  change (dom_dyad "eval_dyad_split" a b) with (sizes_ok a && is_list_or_str b) in Hd.
  apply andb_true_iff in Hd. destruct Hd as [Hs Hb].
  destruct (sizes_ok_inv a Hs) as [zs [Hz [Ezi [Hne Hpos]]]].
  destruct b as [z|r|c|s|s|l|]; try discriminate Hb.
  - (* string *)
    change (s_dyad "eval_dyad_split" a (VS s)) with (Ok (strs (s_split 0 (zints a) s))). rewrite Ezi.
    unfold m_split_gen. cbn [as_members]. destruct s as [|c s']; [reflexivity|].
    remember (chars (c :: s')) as l0 eqn:El0. destruct l0 as [|y l0']; [discriminate El0|].
    cbv beta iota. fold (members a). rewrite Hz.
    pose proof (split_core VU zs (y :: l0') Hne Hpos ltac:(discriminate)) as Core.
    assert (Fin : segs true (s_split VU zs (y :: l0')) = Ok (strs (s_split 0 zs (c :: s')))).
    { rewrite El0. unfold s_split. rewrite split_from_chars by (assumption || lia).
      replace (List.length (chars (c :: s'))) with (List.length (c :: s')) by (unfold chars; rewrite map_length; reflexivity).
      unfold segs, okl. rewrite rmap_joined_chars. reflexivity. }
    destruct zs as [|a0 [|a1 rest]]; [congruence| |].
    + inversion Hpos as [|? ? Ha0 _]. subst.
      destruct (zlen (y :: l0') <=? a0) eqn:E.
      * try rewrite E in Core. rewrite <- Fin. f_equal. apply ok_inj. exact Core.
      * try rewrite E in Core. apply Z.leb_gt in E.
        replace (true && (a0 =? 0)) with false by (symmetry; apply andb_false_iff; right; apply Z.eqb_neq; lia).
        replace (true && (a0 <? 0)) with false by (symmetry; apply andb_false_iff; right; apply Z.ltb_ge; lia).
        rewrite <- Fin. f_equal. apply ok_inj. exact Core.
    + rewrite Core. cbn [bind]. exact Fin.
  - (* list *)
    change (s_dyad "eval_dyad_split" a (VL l)) with (Ok (lists (s_split VU (zints a) l))). rewrite Ezi.
    unfold m_split_gen. cbn [as_members]. destruct l as [|x l']; [reflexivity|].
    cbv beta iota. fold (members a). rewrite Hz.
    pose proof (split_core VU zs (x :: l') Hne Hpos ltac:(discriminate)) as Core.
    assert (Fin : segs false (s_split VU zs (x :: l')) = Ok (lists (s_split VU zs (x :: l')))) by reflexivity.
    destruct zs as [|a0 [|a1 rest]]; [congruence| |].
    + inversion Hpos as [|? ? Ha0 _]. subst.
      destruct (zlen (x :: l') <=? a0) eqn:E.
      * try rewrite E in Core. rewrite <- Fin. f_equal. apply ok_inj. exact Core.
      * try rewrite E in Core. apply Z.leb_gt in E.
        replace (true && (a0 =? 0)) with false by (symmetry; apply andb_false_iff; right; apply Z.eqb_neq; lia).
        replace (true && (a0 <? 0)) with false by (symmetry; apply andb_false_iff; right; apply Z.ltb_ge; lia).
        rewrite <- Fin. f_equal. apply ok_inj. exact Core.
    + rewrite Core. cbn [bind]. exact Fin.
Qed.

Lemma split_dispatch_holds : split_by_segment_size = true -> forall a b, canonical a && canonical b = true ->
  dom_dyad "eval_dyad_split" a b = true ->
  m_dyad "eval_dyad_split" a b = s_dyad "eval_dyad_split" a b.
Proof.
  intros Hf a b Hc Hd. rewrite m_dyad_split by exact Hc. unfold m_split. rewrite Hf. apply split_holds; assumption.
Qed.

(* the behaviour before the fix: commit *)
Lemma split_without_fix :
  res_eqb (m_split_gen false (VI 3) (VL [VI 1; VI 2; VI 3; VI 4])) (s_dyad "eval_dyad_split" (VI 3) (VL [VI 1; VI 2; VI 3; VI 4])) = false.
Proof. vm_compute. reflexivity. Qed.

(* ------------------------------------------------------------------ atomic monads (vec_fn) *)
Section ValInd.
  Variable P : val -> Prop.
  Hypothesis HI : forall z, P (VI z).
  Hypothesis HR : forall r, P (VR r).
  Hypothesis HC : forall c, P (VC c).
  Hypothesis HS : forall s, P (VS s).
  Hypothesis HY : forall s, P (VY s).
  Hypothesis HU : P VU.
  Hypothesis HL : forall l, Forall P l -> P (VL l).
  Fixpoint val_ind' (v : val) : P v :=
    match v with
    | VI z => HI z | VR r => HR r | VC c => HC c | VS s => HS s | VY s => HY s | VU => HU
    | VL l => HL l ((fix go (l : list val) : Forall P l :=
                       match l with [] => Forall_nil P | x :: r => Forall_cons x (val_ind' x) (go r) end) l)
    end.
End ValInd.

Lemma map_leaves_rect : forall sf sh n a, rshape a = Some sh -> n = List.length sh -> map_leaves n sf a = s1 sf a.
Proof.
  intros sf. induction sh as [|d s IH]; intros n a Ha ->.
  - pose proof (rshape_nil_atom _ Ha) as Na. cbn [List.length map_leaves]. destruct a; try discriminate Na; reflexivity.
  - destruct (rshape_cons_list _ _ _ Ha) as [la ->]. destruct (rshape_list _ _ Ha) as [sa [E Fa]]. inversion E. subst sa.
    cbn [List.length map_leaves s1]. f_equal. apply rmap_ext. intros x Hx. rewrite Forall_forall in Fa.
    apply IH; [apply Fa; exact Hx|reflexivity].
Qed.

Lemma leaf1_nonobj : forall sf a, is_obj a = false -> leaf1 sf a = s1 sf a.
Proof.
  intros sf a H. unfold leaf1. destruct (is_arr a) eqn:Aa.
  - destruct (is_arr_true _ Aa) as [l ->]. destruct (not_obj_list _ H) as [sh R].
    apply (map_leaves_rect sf sh); [exact R|apply rdepth_rect; exact R].
  - rewrite (rdepth_atom _ Aa). destruct a; try discriminate Aa; reflexivity.
Qed.

Theorem vec1_spec : forall sf fuel a, (depth a < fuel)%nat -> vec1 fuel (leaf1 sf) a = s1 sf a.
Proof.
  intros sf. induction fuel as [|f' IH]; intros a Hd; [lia|].
  destruct (is_arr a) eqn:Aa.
  - destruct (is_arr_true _ Aa) as [la ->]. cbn [vec1].
    destruct (is_obj (VL la)) eqn:Oa; [|apply leaf1_nonobj; exact Oa].
    cbn [s1]. f_equal. apply rmap_ext. intros x Hx. pose proof (depth_in _ _ Hx) as Dx.
    destruct x as [z|r|c|s|s|[|y l']|]; try (apply leaf1_nonobj; reflexivity).
    apply IH. lia.
  - destruct a; try discriminate Aa; cbn [vec1]; apply leaf1_nonobj; reflexivity.
Qed.

Lemma s1_ext : forall (p : val -> bool) (f g : val -> res),
  (forall x, is_arr x = false -> p x = true -> f x = g x) ->
  forall a, all_leaves p a = true -> s1 f a = s1 g a.
Proof.
  intros p f g H. induction a using val_ind'; intros Ha; try (apply H; [reflexivity|exact Ha]).
  cbn [s1]. f_equal. apply rmap_ext. intros x Hx. rewrite Forall_forall in H0. apply H0; [exact Hx|].
  eapply all_leaves_in; eassumption.
Qed.

Local Open Scope string_scope.
Local Open Scope Z_scope.

Lemma negate_holds : forall a, canonical a = true -> m_monad "eval_monad_negate" a = s_monad "eval_monad_negate" a.
Proof.
  intros a Hc. unfold m_monad. rewrite Hc. change (s_monad "eval_monad_negate" a) with (s1 sc_neg a).
  cbn [negb]. unfold m_negate. apply vec1_spec. lia.
Qed.

Lemma forall_leaves_all : forall p a, forall_leaves p a = all_leaves p a.
Proof.
  intros p. induction a using val_ind'; reflexivity.
Qed.

Lemma vec1_ext : forall (f g : val -> res) (p : val -> bool),
  (forall x, p x = true -> f x = g x) -> (forall l x, p (VL l) = true -> In x l -> p x = true) ->
  forall fuel a, p a = true -> vec1 fuel f a = vec1 fuel g a.
Proof.
  intros f g p Hfg Hp. induction fuel as [|f' IH]; intros a Ha; [reflexivity|].
  destruct a as [z|r|c|s|s|l|]; try (cbn [vec1]; apply Hfg; exact Ha).
  cbn [vec1]. destruct (is_obj (VL l)); [|apply Hfg; exact Ha].
  f_equal. apply rmap_ext. intros x Hx. pose proof (Hp l x Ha Hx) as Px.
  destruct x as [z|r|c|s|s|[|y l']|]; try (apply Hfg; exact Px). apply IH. exact Px.
Qed.

(* Floor when every leaf fits the integer range (otherwise NumPy keeps the whole array real: class homogenise) *)
Lemma clip64_in_range : forall z, Z.abs z <? two63 = true -> clip64 z = z.
Proof.
  intros z H. apply Z.ltb_lt in H. unfold clip64.
  assert (H1 : (z <? - two63) = false) by (apply Z.ltb_ge; unfold two63 in *; lia).
  assert (H2 : (two63 <=? z) = false) by (apply Z.leb_gt; unfold two63 in *; lia).
  rewrite H1, H2. reflexivity.
Qed.

Lemma floor_holds : floor_guard_strictly_below_2_63 = true ->
  forall a, canonical a = true -> all_leaves s_floor_fits a = true ->
  m_monad "eval_monad_floor" a = s_monad "eval_monad_floor" a.
Proof.
  intros Hg a Hc Hf. unfold m_monad. rewrite Hc. change (s_monad "eval_monad_floor" a) with (s1 s_floor a).
  cbn [negb]. unfold m_floor.
  rewrite (vec1_ext floor_leaf (leaf1 s_floor) (all_leaves s_floor_fits)).
  - apply vec1_spec. lia.
  - intros x Hx. unfold floor_leaf, floor_fits, sc_floor. rewrite Hg. fold s_floor_fits. fold s_floor.
    rewrite forall_leaves_all, Hx. reflexivity.
  - intros l x Hl Hx. eapply all_leaves_in; eassumption.
  - exact Hf.
Qed.

(* an integer result of Floor is the mathematical floor: inside the guard nothing wraps *)
Lemma floor_no_wrap : forall r z, rfloor_exact r = Some z -> in_guard true z = true -> s_floor (VR r) = Ok (VI z).
Proof. intros r z H G. unfold s_floor. cbn [sc_floor_gen]. rewrite H, G. rewrite clip64_in_range by exact G. reflexivity. Qed.

(* with `<=` in the guard the real 2^63 passes and wraps to the int64 minimum *)
Lemma floor_guard_refuted :
  let r := real_of_bits 4890909195324358656 in     (* 2.0^63 *)
  rfloor_exact r = Some two63 /\ sc_floor_gen false (VR r) = Ok (VI int64_min) /\ s_floor (VR r) = Ok (VR r).
Proof. vm_compute. repeat split; reflexivity. Qed.

(* ------------------------------------------------------------------ verbs are functions of the operand values *)
Lemma shared_operand : forall w, w = true -> forall (verb : val -> val -> res) a bs,
  run_shared w verb (Some a) bs = (map (verb a) bs, Some a).
Proof.
  intros w -> verb a. induction bs as [|b r IH]; [reflexivity|].
  cbn [run_shared apply_shared map]. rewrite IH. reflexivity.
Qed.

Lemma shared_operand_refuted : forall (verb : val -> val -> res) a b1 b2,
  fst (run_shared false verb (Some a) [b1; b2]) = [verb a b1; Unmod].
Proof. reflexivity. Qed.

Lemma reciprocal_holds : forall a, canonical a = true -> m_monad "eval_monad_reciprocal" a = s_monad "eval_monad_reciprocal" a.
Proof.
  intros a Hc. unfold m_monad. rewrite Hc. cbn [negb].
  change (s_monad "eval_monad_reciprocal" a) with (if negb (is_arr a) && is_zero a then Ok VU else s1 sc_recip a).
  unfold m_recip.
  destruct a as [z|r|c|s|s|l|]; try (cbn [is_arr negb andb is_zero]; apply vec1_spec; cbn; lia).
  - destruct z; try reflexivity.
  - cbn [is_arr negb andb is_zero]. destruct (is_real_zero r); reflexivity.
Qed.

Lemma atom_holds : forall a, canonical a = true -> m_monad "eval_monad_atom" a = s_monad "eval_monad_atom" a.
Proof. intros a Hc. unfold m_monad. rewrite Hc. reflexivity. Qed.

Lemma size_holds : forall a, canonical a = true -> dom_monad "eval_monad_size" a = true ->
  m_monad "eval_monad_size" a = s_monad "eval_monad_size" a.
Proof. intros a Hc Hd. unfold m_monad. rewrite Hc. destruct a; try reflexivity; discriminate Hd. Qed.

Lemma first_holds : forall a, canonical a = true ->
  m_monad "eval_monad_first" a = s_monad "eval_monad_first" a.
Proof.
  intros a Hc. unfold m_monad. rewrite Hc. destruct a as [z|r|c|[|c s]|s|[|x l]|]; reflexivity.
Qed.

Lemma enumerate_holds : forall a, canonical a = true -> m_monad "eval_monad_enumerate" a = s_monad "eval_monad_enumerate" a.
Proof. intros a Hc. unfold m_monad. rewrite Hc. destruct a; reflexivity. Qed.

Lemma list_holds : forall a, canonical a = true -> norm (VL [a]) = VL [a] ->
  m_monad "eval_monad_list" a = s_monad "eval_monad_list" a.
Proof.
  intros a Hc Hn. unfold m_monad. rewrite Hc. cbn [negb].
  change (m_monad "eval_monad_list" a) with (m_monad "eval_monad_list" a).
  destruct a; try reflexivity; unfold m_list; rewrite Hn; reflexivity.
Qed.

(* ------------------------------------------------------------------ Join, Index *)
Definition join_ragged (a b : val) : bool :=
  let r := (members a ++ members b)%list in
  all_lists_same_len r && negb (forallb (fun sh => shape_eqb sh (hd None (map npshape r))) (map npshape r)).

Lemma join_holds : forall a b, canonical a && canonical b = true ->
  dom_dyad "eval_dyad_join" a b = true ->
  norm (VL (members a ++ members b)) = VL (members a ++ members b) ->
  m_dyad "eval_dyad_join" a b = s_dyad "eval_dyad_join" a b.
Proof.
  intros a b Hc Hd Hn. unfold m_dyad. rewrite Hc. cbn [negb].
  change (m_join a b = s_dyad "eval_dyad_join" a b).
  destruct a as [z|r|c|s|s|l|]; destruct b as [z'|r'|c'|s'|s'|l'|];
    try discriminate Hd;
    try reflexivity;
    try (unfold m_join; cbn [text_of members] in *; rewrite Hn; reflexivity).
Qed.

Lemma py_index_in_range : forall l i, 0 <= i < zlen l -> py_index l i = Ok (ix VU l i).
Proof.
  intros l i H. unfold py_index.
  replace ((0 <=? i) && (i <? zlen l)) with true by (symmetry; apply andb_true_iff; split; [apply Z.leb_le|apply Z.ltb_lt]; lia).
  unfold ix. destruct (nth_error l (Z.to_nat i)) as [x|] eqn:E.
  - rewrite (nth_error_nth _ _ VU E). reflexivity.
  - apply nth_error_None in E. unfold zlen in H. lia.
Qed.

Lemma rmap_index : forall l zs, Forall (fun i => 0 <= i < zlen l) zs -> rmap (py_index l) zs = Ok (map (ix VU l) zs).
Proof.
  intros l. induction zs as [|i zs IH]; intros H; [reflexivity|].
  inversion H as [|? ? Hi Hr]. subst. cbn [rmap map]. rewrite py_index_in_range by exact Hi. cbn [bind].
  rewrite IH by exact Hr. reflexivity.
Qed.

Lemma joined_index_chars : forall s zs, Forall (fun i => 0 <= i < zlen s) zs ->
  joined (map (ix VU (chars s)) zs) = Ok (VS (map (ix 0 s) zs)).
Proof.
  intros s zs H. assert (E : map (ix VU (chars s)) zs = chars (map (ix 0 s) zs)).
  { unfold chars at 2. rewrite map_map. apply map_ext_in. intros i Hi. rewrite Forall_forall in H. apply ix_chars. apply H. exact Hi. }
  rewrite E. apply joined_chars.
Qed.

Lemma index_ints_in_range : forall n lb, forallb (fun v => match v with VI i => (0 <=? i) && (i <? n) | _ => false end) lb = true ->
  exists zs, ints_of lb = Some zs /\ Forall (fun i => 0 <= i < n) zs.
Proof.
  intros n. induction lb as [|y lb IH]; intros H; [exists []; split; [reflexivity|constructor]|].
  cbn [forallb] in H. apply andb_true_iff in H. destruct H as [Hy Hl]. destruct (IH Hl) as [zs [Hz Hf]].
  destruct y; try discriminate Hy. apply andb_true_iff in Hy. destruct Hy as [H0 H1]. apply Z.leb_le in H0. apply Z.ltb_lt in H1.
  exists (z :: zs). cbn [ints_of]. rewrite Hz. split; [reflexivity|constructor; [lia|exact Hf]].
Qed.

(* a list or string indexed by an in-range integer or a 1-D list of in-range integers *)
Lemma index_holds : forall a b, canonical a && canonical b = true ->
  dom_dyad "eval_dyad_at_index" a b = true ->
  (forall l zs, a = VL l -> ints_of (members b) = Some zs -> is_arr b = true -> norm (VL (map (ix VU l) zs)) = VL (map (ix VU l) zs)) ->
  m_dyad "eval_dyad_at_index" a b = s_dyad "eval_dyad_at_index" a b.
Proof.
  intros a b Hc Hd Hn. unfold m_dyad. rewrite Hc. cbn [negb].
  change (m_index a b = s_dyad "eval_dyad_at_index" a b).
  destruct a as [z|r|c|s|s|l|]; try discriminate Hd.
  - (* string *)
    change (dom_dyad "eval_dyad_at_index" (VS s) b) with
      (match b with
       | VI i => (0 <=? i) && (i <? zlen s)
       | VL lb => (npdepth b =? 1)%nat && forallb (fun v => match v with VI i => (0 <=? i) && (i <? zlen s) | _ => false end) lb
       | _ => false end) in Hd.
    unfold m_index. cbn [as_members].
    destruct b as [i|r|c|t|t|lb|]; try discriminate Hd.
    + apply andb_true_iff in Hd. destruct Hd as [H0 H1]. apply Z.leb_le in H0. apply Z.ltb_lt in H1.
      rewrite py_index_in_range by (rewrite zlen_chars; lia). rewrite ix_chars by lia. reflexivity.
    + apply andb_true_iff in Hd. destruct Hd as [_ Hall]. destruct (index_ints_in_range _ _ Hall) as [zs [Hz Hf]].
      change (s_dyad "eval_dyad_at_index" (VS s) (VL lb)) with (Ok (VS (map (ix 0 s) (zints (VL lb))))).
      unfold zints. cbn [members]. rewrite Hz.
      destruct lb as [|y lb']; [cbn in Hz; inversion Hz; reflexivity|].
      try rewrite Hz. rewrite rmap_index by (rewrite zlen_chars; exact Hf). cbn [bind]. apply joined_index_chars. exact Hf.
  - (* list *)
    change (dom_dyad "eval_dyad_at_index" (VL l) b) with
      (match b with
       | VI i => (0 <=? i) && (i <? zlen l)
       | VL lb => (npdepth b =? 1)%nat && forallb (fun v => match v with VI i => (0 <=? i) && (i <? zlen l) | _ => false end) lb
       | _ => false end) in Hd.
    unfold m_index. cbn [as_members].
    destruct b as [i|r|c|t|t|lb|]; try discriminate Hd.
    + apply andb_true_iff in Hd. destruct Hd as [H0 H1]. apply Z.leb_le in H0. apply Z.ltb_lt in H1.
      rewrite py_index_in_range by lia. reflexivity.
    + apply andb_true_iff in Hd. destruct Hd as [_ Hall]. destruct (index_ints_in_range _ _ Hall) as [zs [Hz Hf]].
      change (s_dyad "eval_dyad_at_index" (VL l) (VL lb)) with (Ok (VL (map (ix VU l) (zints (VL lb))))).
      unfold zints. cbn [members]. rewrite Hz.
      destruct lb as [|y lb']; [cbn in Hz; inversion Hz; reflexivity|].
      try rewrite Hz. rewrite rmap_index by exact Hf. cbn [bind].
      rewrite (Hn l zs eq_refl Hz eq_refl). reflexivity.
Qed.

Lemma not_holds : forall a, canonical a = true -> dom_monad "eval_monad_not" a = true ->
  m_monad "eval_monad_not" a = s_monad "eval_monad_not" a.
Proof.
  intros a Hc Hd. unfold m_monad. rewrite Hc.
  destruct a as [z|r|c|[|c s]|s|[|x l]|]; try reflexivity; try discriminate Hd.
Qed.


(* ------------------------------------------------------------------ T1.op for + - * in the form dom -> ~K -> model = spec *)
Lemma right_num_trees : forall a, is_arr a = false -> forall b, all_right both_num a b = true ->
  is_num a = true /\ all_leaves is_num b = true.
Proof.
  intros a Ha. induction b using val_ind'; intros Hr;
    try (cbn [all_right] in Hr; unfold both_num in Hr; apply andb_true_iff in Hr; destruct Hr as [H1 H2]; split; [exact H1|exact H2]).
  destruct l as [|y r].
  - cbn [all_right] in Hr. split; [exact Hr|reflexivity].
  - change (all_right both_num a (VL (y :: r))) with (forallb (all_right both_num a) (y :: r)) in Hr.
    rewrite forallb_forall in Hr. rewrite Forall_forall in H. split.
    + apply (H y (or_introl eq_refl)). apply Hr. left. reflexivity.
    + cbn [all_leaves]. apply forallb_forall. intros x Hx. apply (H x Hx). apply Hr. exact Hx.
Qed.

Lemma pairs_num_trees : forall a b, conformable a b = true -> all_pairs both_num a b = true ->
  all_leaves is_num a = true /\ all_leaves is_num b = true.
Proof.
  induction a using val_ind'; intros b Hc Hp;
    try (rewrite all_pairs_atom_l in Hp by reflexivity;
         match type of Hp with all_right _ ?x _ = _ => destruct (right_num_trees x eq_refl b Hp) as [H1 H2] end;
         split; [exact H1|exact H2]).
  rewrite Forall_forall in H.
  destruct (is_arr b) eqn:Ab.
  - destruct (is_arr_true _ Ab) as [lb ->]. destruct (conformable_lists _ _ Hc) as [Hlen Hconf].
    cbn [all_pairs] in Hp. pose proof (all2_combine _ _ _ Hp) as Hpairs.
    assert (G : forall la lb, List.length la = List.length lb ->
              (forall x y, In (x, y) (combine la lb) -> all_leaves is_num x = true /\ all_leaves is_num y = true) ->
              forallb (all_leaves is_num) la = true /\ forallb (all_leaves is_num) lb = true).
    { clear. induction la as [|x la IH]; intros lb HL Hxy; destruct lb as [|y lb]; try discriminate HL; [split; reflexivity|].
      cbn [forallb]. destruct (Hxy x y (or_introl eq_refl)) as [Hx Hy]. rewrite Hx, Hy.
      destruct (IH lb ltac:(cbn in HL; lia)) as [H1 H2]; [intros x' y' Hin; apply Hxy; right; exact Hin|].
      rewrite H1, H2. split; reflexivity. }
    apply (G l lb Hlen). intros x y Hin. destruct (in_combine_both _ _ _ _ Hin) as [Hx _].
    apply (H x Hx y); [apply Hconf; exact Hin|apply Hpairs; exact Hin].
  - destruct l as [|x0 l'].
    + assert (Hb : is_num b = true) by (destruct b; try discriminate Ab; exact Hp).
      split; [reflexivity|]. rewrite all_leaves_atom by exact Ab. exact Hb.
    + rewrite all_pairs_list_atom in Hp by (try exact Ab; discriminate). rewrite forallb_forall in Hp.
      split.
      * cbn [all_leaves]. apply forallb_forall. intros x Hx.
        apply (H x Hx b); [apply conformable_atom_r; exact Ab|apply Hp; exact Hx].
      * apply (H x0 (or_introl eq_refl) b); [apply conformable_atom_r; exact Ab|apply Hp; left; reflexivity].
Qed.

Local Open Scope string_scope.
Local Open Scope Z_scope.

Lemma k_np_empty : forall (na nb kb : bool), (if negb (na && nb) then "homogenise" else if kb then "broadcast" else "") = "" -> kb = false.
Proof. intros na nb kb H. destruct (negb (na && nb)); [discriminate H|]. destruct kb; [discriminate H|reflexivity]. Qed.

Lemma plus_holds_outside_K : forall a b, canonical a && canonical b = true ->
  dom_dyad "eval_dyad_add" a b = true -> k_dyad "eval_dyad_add" a b = "" ->
  m_dyad "eval_dyad_add" a b = s_dyad "eval_dyad_add" a b.
Proof.
  intros a b Hc Hd Hk. unfold m_dyad. rewrite Hc. cbn [negb].
  change (m_add a b = s2 sc_add a b).
  change (dom_dyad "eval_dyad_add" a b) with (conformable a b && ((all_pairs both_num a b && true) || false || false)) in Hd.
  rewrite !orb_false_r in Hd. rewrite andb_true_r in Hd. apply andb_true_iff in Hd. destruct Hd as [Hconf Hp].
  destruct (pairs_num_trees a b Hconf Hp) as [Na Nb].
  apply add_spec; try assumption. exact (k_np_empty _ _ _ Hk).
Qed.
Lemma minus_holds_outside_K : forall a b, canonical a && canonical b = true ->
  dom_dyad "eval_dyad_subtract" a b = true -> k_dyad "eval_dyad_subtract" a b = "" ->
  m_dyad "eval_dyad_subtract" a b = s_dyad "eval_dyad_subtract" a b.
Proof.
  intros a b Hc Hd Hk. unfold m_dyad. rewrite Hc. cbn [negb].
  change (m_sub a b = s2 sc_sub a b).
  change (dom_dyad "eval_dyad_subtract" a b) with (conformable a b && ((all_pairs both_num a b && true) || false || false)) in Hd.
  rewrite !orb_false_r in Hd. rewrite andb_true_r in Hd. apply andb_true_iff in Hd. destruct Hd as [Hconf Hp].
  destruct (pairs_num_trees a b Hconf Hp) as [Na Nb].
  apply sub_spec; try assumption. exact (k_np_empty _ _ _ Hk).
Qed.
Lemma times_holds_outside_K : forall a b, canonical a && canonical b = true ->
  dom_dyad "eval_dyad_multiply" a b = true -> k_dyad "eval_dyad_multiply" a b = "" ->
  m_dyad "eval_dyad_multiply" a b = s_dyad "eval_dyad_multiply" a b.
Proof.
  intros a b Hc Hd Hk. unfold m_dyad. rewrite Hc. cbn [negb].
  change (m_mul a b = s2 sc_mul a b).
  change (dom_dyad "eval_dyad_multiply" a b) with (conformable a b && ((all_pairs both_num a b && true) || false || false)) in Hd.
  rewrite !orb_false_r in Hd. rewrite andb_true_r in Hd. apply andb_true_iff in Hd. destruct Hd as [Hconf Hp].
  destruct (pairs_num_trees a b Hconf Hp) as [Na Nb].
  apply mul_spec; try assumption. exact (k_np_empty _ _ _ Hk).
Qed.

(* ------------------------------------------------------------------ Take in the form dom -> ~K -> model = spec *)
Local Open Scope string_scope.
Local Open Scope Z_scope.

Lemma take_holds_outside_K : forall a b, canonical a && canonical b = true ->
  dom_dyad "eval_dyad_take" a b = true -> k_dyad "eval_dyad_take" a b = "" ->
  m_dyad "eval_dyad_take" a b = s_dyad "eval_dyad_take" a b.
Proof.
  intros a b Hc Hd Hk.
  destruct a as [n| | | | | |]; try (cbn in Hd; discriminate Hd).
  apply andb_true_iff in Hc. destruct Hc as [_ Hcb]. apply take_holds; assumption.
Qed.


(* ------------------------------------------------------------------ Match: kg_equal depends only on the abstract value *)
Lemma list_eqb_app : forall {A} (eq : A -> A -> bool) a1 b1 a2 b2, List.length a1 = List.length b1 ->
  list_eqb eq (a1 ++ a2) (b1 ++ b2) = list_eqb eq a1 b1 && list_eqb eq a2 b2.
Proof.
  intros A eq. induction a1 as [|x a1 IH]; intros b1 a2 b2 H; destruct b1 as [|y b1]; try discriminate H; [reflexivity|].
  cbn [app list_eqb]. rewrite IH by (cbn in H; lia). rewrite andb_assoc. reflexivity.
Qed.

Lemma flat_length : forall s x, rshape x = Some s -> List.length (flat (List.length s) x) = prodn s.
Proof.
  induction s as [|d s IH]; intros x H.
  - reflexivity.
  - destruct (rshape_cons_list _ _ _ H) as [l ->]. destruct (rshape_list _ _ H) as [s0 [E F]]. inversion E. subst s0 d.
    cbn [List.length flat prodn]. clear H E. induction l as [|y l IHl]; [reflexivity|].
    inversion F as [|? ? Hy Hl]. subst. cbn [flat_map List.length]. rewrite app_length, (IH y Hy), (IHl Hl). lia.
Qed.

Lemma same2_len_false : forall f la lb, List.length la <> List.length lb -> same2 f la lb = false.
Proof.
  intros f. induction la as [|x la IH]; intros lb H; destruct lb as [|y lb]; try reflexivity; [congruence|].
  cbn [same2]. rewrite IH by (cbn in H; lia). apply andb_false_r.
Qed.

Lemma rect_equal_same : forall sa a, rshape a = Some sa -> forall sb b, rshape b = Some sb ->
  list_eqb Nat.eqb sa sb && list_eqb num_eqb (flat (List.length sa) a) (flat (List.length sb) b) = s_same a b.
Proof.
  induction sa as [|d s IH]; intros a Ha sb b Hb.
  - pose proof (rshape_nil_atom _ Ha) as Na. destruct sb as [|d' s'].
    + pose proof (rshape_nil_atom _ Hb) as Nb.
      destruct a; try discriminate Na; destruct b; try discriminate Nb; cbn; rewrite andb_true_r; reflexivity.
    + destruct (rshape_cons_list _ _ _ Hb) as [lb ->]. destruct a; try discriminate Na; reflexivity.
  - destruct (rshape_cons_list _ _ _ Ha) as [la ->]. destruct (rshape_list _ _ Ha) as [s0 [E Fa]]. inversion E. subst s0 d.
    destruct sb as [|d' s'].
    + pose proof (rshape_nil_atom _ Hb) as Nb. destruct b; try discriminate Nb; reflexivity.
    + destruct (rshape_cons_list _ _ _ Hb) as [lb ->]. destruct (rshape_list _ _ Hb) as [s0' [E' Fb]]. inversion E'. subst s0' d'.
      change (s_same (VL la) (VL lb)) with (same2 s_same la lb).
      cbn [List.length flat list_eqb].
      destruct (list_eqb Nat.eqb s s') eqn:Es.
      * apply nat_list_eqb_eq in Es. subst s'. rewrite andb_true_r.
        clear Ha Hb E E'. revert lb Fb. induction la as [|x la IHl]; intros lb Fb; destruct lb as [|y lb]; try reflexivity.
        inversion Fa as [|? ? Hx Hla]. inversion Fb as [|? ? Hy Hlb]. subst.
        cbn [List.length Nat.eqb flat_map same2].
        rewrite list_eqb_app by (rewrite (flat_length _ _ Hx), (flat_length _ _ Hy); reflexivity).
        rewrite <- (IH x Hx s y Hy). rewrite nat_list_eqb_refl. cbn [andb].
        rewrite <- (IHl Hla lb Hlb).
        destruct (list_eqb num_eqb (flat (List.length s) x) (flat (List.length s) y)); destruct (List.length la =? List.length lb)%nat; reflexivity.
      * rewrite andb_false_r. cbn [andb]. symmetry.
        destruct la as [|x la]; destruct lb as [|y lb]; try reflexivity.
        -- exfalso. cbn in Ha, Hb. inversion Ha. inversion Hb. subst. discriminate Es.
        -- inversion Fa as [|? ? Hx Hla]. inversion Fb as [|? ? Hy Hlb]. subst.
           cbn [same2]. rewrite <- (IH x Hx s' y Hy). rewrite Es. reflexivity.
Qed.

Fixpoint vlist (rs : list rep) (l : list val) : bool :=
  match rs, l with
  | [], [] => true
  | r :: rs', x :: l' => valid_rep x r && vlist rs' l'
  | _, _ => false
  end.

Lemma valid_members : forall l r, valid_rep (VL l) r = true -> vlist (member_reps (VL l) r) l = true.
Proof.
  intros l r H. destruct r as [| |rs].
  - discriminate H.
  - cbn [valid_rep] in H. destruct (is_rect_list _ H) as [sh R]. destruct (rshape_list _ _ R) as [s [_ F]].
    cbn [member_reps]. clear H R. induction l as [|x l IH]; [reflexivity|].
    inversion F as [|? ? Hx Hl]. subst. cbn [map vlist]. rewrite (IH Hl). rewrite andb_true_r.
    destruct x as [z|q|c|t|t|l0|]; try (cbn in Hx; discriminate Hx); try reflexivity.
    cbn [row_rep valid_rep]. apply (is_rect_of_shape _ _ Hx).
  - exact H.
Qed.

Lemma isclose_exact : kg_equal_ints_exact = true -> forall a b, is_num a = true -> is_num b = true ->
  k_close a b = false -> isclose a b = num_eqb a b.
Proof.
  intros Hf a b Na Nb Hk. unfold isclose in *.
  assert (Hk' : negb (num_eqb a b) && isclose_gen true a b = false).
  { destruct a; try discriminate Na; destruct b; try discriminate Nb; cbn [k_close is_num andb] in Hk; exact Hk. }
  rewrite Hf in *.
  destruct a as [x|x| | | | |]; try discriminate Na; destruct b as [y|y| | | | |]; try discriminate Nb;
    cbn [isclose_gen toR num_eqb] in *; try reflexivity;
    match goal with |- ?e || ?t = ?e => destruct e; [reflexivity|cbn [negb andb orb] in *; exact Hk'] end.
Qed.

Lemma eq_loop_spec : forall eqf la lb ras rbs,
  List.length la = List.length lb -> vlist ras la = true -> vlist rbs lb = true ->
  match_kinds_ok (VL la) (VL lb) = true -> k_close (VL la) (VL lb) = false ->
  (forall x y rx ry, In x la -> In y lb -> valid_rep x rx = true -> valid_rep y ry = true ->
     match_kinds_ok x y = true -> k_close x y = false -> eqf x rx y ry = Ok (s_same x y)) ->
  eq_loop eqf la ras lb rbs = Ok (same2 s_same la lb).
Proof.
  intros eqf. induction la as [|x la IHl]; intros lb ras rbs EL Wa Wb Hm Hk Hel; destruct lb as [|y lb]; try discriminate EL; [reflexivity|].
  destruct ras as [|rx ras]; [discriminate Wa|]. destruct rbs as [|ry rbs]; [discriminate Wb|].
  cbn [vlist] in Wa, Wb. apply andb_true_iff in Wa. destruct Wa as [Vx Wa]. apply andb_true_iff in Wb. destruct Wb as [Vy Wb].
  cbn [match_kinds_ok all2] in Hm. apply andb_true_iff in Hm. destruct Hm as [Hmx Hm].
  cbn [k_close any2] in Hk. apply orb_false_iff in Hk. destruct Hk as [Hkx Hk].
  cbn [eq_loop same2]. rewrite (Hel x y rx ry (or_introl eq_refl) (or_introl eq_refl) Vx Vy Hmx Hkx). cbn [bind].
  destruct (s_same x y); [|reflexivity]. cbn [andb].
  apply IHl; try assumption; [cbn in EL; lia|].
  intros x' y' rx' ry' Hx' Hy'. apply Hel; right; assumption.
Qed.

Section KgEqual.
  Hypothesis Hints : kg_equal_ints_exact = true.

  Theorem kg_equal_rep_spec : forall fuel a ra b rb,
    (depth a + depth b < fuel)%nat ->
    valid_rep a ra = true -> valid_rep b rb = true ->
    match_kinds_ok a b = true -> k_close a b = false ->
    kg_equal_rep false fuel a ra b rb = Ok (s_same a b).
  Proof.
    induction fuel as [|f' IH]; intros a ra b rb Hd Va Vb Hm Hk; [lia|].
    destruct (is_arr a) eqn:Aa; destruct (is_arr b) eqn:Ab.
    - destruct (is_arr_true _ Aa) as [la ->]. destruct (is_arr_true _ Ab) as [lb ->].
      cbn [kg_equal_rep andb].
      assert (General : (if negb (List.length la =? List.length lb)%nat then Ok false
               else eq_loop (kg_equal_rep false f') la (member_reps (VL la) ra) lb (member_reps (VL lb) rb)) = Ok (s_same (VL la) (VL lb))).
      { change (s_same (VL la) (VL lb)) with (same2 s_same la lb).
        destruct (List.length la =? List.length lb)%nat eqn:EL; cbn [negb].
        - apply Nat.eqb_eq in EL.
          apply eq_loop_spec; try assumption; [apply valid_members; exact Va|apply valid_members; exact Vb|].
          intros x y rx ry Hx Hy Vx Vy Hmx Hkx. pose proof (depth_in _ _ Hx). pose proof (depth_in _ _ Hy).
          apply IH; try assumption. lia.
        - apply Nat.eqb_neq in EL. rewrite same2_len_false by exact EL. reflexivity. }
      destruct ra as [| |ras]; try exact General; destruct rb as [| |rbs]; try exact General.
      (* RN, RN: np.array_equal *)
      cbn [valid_rep] in Va, Vb. destruct (is_rect_list _ Va) as [sa Ra]. destruct (is_rect_list _ Vb) as [sb Rb].
      rewrite Ra, Rb. unfold np_flat. rewrite (npdepth_rect _ _ Ra), (npdepth_rect _ _ Rb).
      cbn [shape_eqb]. rewrite (rect_equal_same sa _ Ra sb _ Rb). reflexivity.
    - destruct (is_arr_true _ Aa) as [la ->]. destruct b; try discriminate Ab; reflexivity.
    - destruct (is_arr_true _ Ab) as [lb ->]. destruct a; try discriminate Aa; reflexivity.
    - destruct a as [x|x|x|x|x| |]; try discriminate Aa; destruct b as [y|y|y|y|y| |]; try discriminate Ab;
        try (cbn in Hm; discriminate Hm);
        try (cbn [kg_equal_rep is_num andb]; rewrite (isclose_exact Hints) by (reflexivity || exact Hk); reflexivity);
        try reflexivity.
      + cbn [kg_equal_rep is_num andb sc_equal text_of s_same]. unfold zs_eqb. cbn [list_eqb]. rewrite andb_true_r.
        destruct (x =? y); reflexivity.
      + cbn [kg_equal_rep is_num andb sc_equal text_of s_same]. destruct (zs_eqb x y); reflexivity.
      + cbn [kg_equal_rep is_num andb sc_equal s_same]. destruct (zs_eqb x y); reflexivity.
  Qed.

  (* Match and Find do not depend on how the operands are held in memory *)
  Corollary kg_equal_rep_independent : forall fuel a ra ra' b rb rb',
    (depth a + depth b < fuel)%nat ->
    valid_rep a ra = true -> valid_rep a ra' = true -> valid_rep b rb = true -> valid_rep b rb' = true ->
    match_kinds_ok a b = true -> k_close a b = false ->
    kg_equal_rep false fuel a ra b rb = kg_equal_rep false fuel a ra' b rb'.
  Proof. intros. rewrite !kg_equal_rep_spec by assumption. reflexivity. Qed.
End KgEqual.

Lemma canon_rep_valid : forall v, valid_rep v (canon_rep v) = true.
Proof.
  induction v using val_ind'; try reflexivity.
  cbn [canon_rep]. destruct (is_rect (VL l)) eqn:R; [exact R|].
  change (vlist (map canon_rep l) l = true). clear R. induction l as [|x l IHl]; [reflexivity|].
  inversion H as [|? ? Hx Hl]. subst. cbn [map vlist]. rewrite Hx. cbn [andb]. apply IHl. exact Hl.
Qed.

(* the shape early exit (seeded change) makes Match depend on the representation: a slice of a mixed list against a literal *)
Lemma shape_exit_refuted :
  let a := VL [VL [VI 1; VI 2]; VL [VI 3; VI 4]] in
  valid_rep a (RO [RN; RN]) = true /\ valid_rep a RN = true /\
  kg_equal_rep true 10 a (RO [RN; RN]) a RN = Ok false /\ kg_equal_rep false 10 a (RO [RN; RN]) a RN = Ok true /\ s_same a a = true.
Proof. vm_compute. repeat split; reflexivity. Qed.

Local Open Scope string_scope.
Local Open Scope Z_scope.
Lemma match_holds : kg_equal_ints_exact = true -> kg_equal_no_shape_exit = true ->
  forall a b, canonical a && canonical b = true -> dom_dyad "eval_dyad_match" a b = true ->
  m_dyad "eval_dyad_match" a b = s_dyad "eval_dyad_match" a b.
Proof.
  intros Hi Hs a b Hc Hd. unfold m_dyad. rewrite Hc. cbn [negb].
  change (m_match a b = Ok (b2v (s_same a b))).
  change (dom_dyad "eval_dyad_match" a b) with (match_kinds_ok a b && negb (k_close a b)) in Hd.
  apply andb_true_iff in Hd. destruct Hd as [Hm Hk]. apply negb_true_iff in Hk.
  unfold m_match, kg_equal. rewrite Hs. cbn [negb].
  rewrite (kg_equal_rep_spec Hi); try assumption; try apply canon_rep_valid; [reflexivity|apply fuel2_enough].
Qed.

(* ------------------------------------------------------------------ T1.op packaging for the verbs routed through vec_fn2 *)
Lemma zs_eqb_eq : forall s t, zs_eqb s t = true -> s = t.
Proof.
  unfold zs_eqb. induction s as [|x s IH]; destruct t as [|y t]; cbn; intros H; try discriminate; [reflexivity|].
  apply andb_true_iff in H. destruct H as [H1 H2]. apply Z.eqb_eq in H1. subst. f_equal. apply IH. exact H2.
Qed.

Lemma real_eqb_eq : forall x y, real_eqb x y = true -> x = y.
Proof.
  intros x y H. destruct x as [s|s| |s m e]; destruct y as [t|t| |t n f]; cbn in H; try discriminate; try reflexivity.
  - apply Bool.eqb_prop in H. subst. reflexivity.
  - apply Bool.eqb_prop in H. subst. reflexivity.
  - apply andb_true_iff in H. destruct H as [H H3]. apply andb_true_iff in H. destruct H as [H1 H2].
    apply Bool.eqb_prop in H1. apply Pos.eqb_eq in H2. apply Z.eqb_eq in H3. subst. reflexivity.
Qed.

Lemma val_eqb_eq : forall a b, val_eqb a b = true -> a = b.
Proof.
  induction a using val_ind'; intros b Hb; destruct b; try discriminate Hb; cbn [val_eqb] in Hb.
  - apply Z.eqb_eq in Hb. subst. reflexivity.
  - apply real_eqb_eq in Hb. subst. reflexivity.
  - apply Z.eqb_eq in Hb. subst. reflexivity.
  - apply zs_eqb_eq in Hb. subst. reflexivity.
  - apply zs_eqb_eq in Hb. subst. reflexivity.
  - reflexivity.
  - f_equal. revert l0 Hb. induction l as [|x l IHl]; intros l0 Hb; destruct l0 as [|y l0]; try discriminate Hb; [reflexivity|].
    inversion H as [|? ? Hx Hl]. subst. cbn [same2] in Hb. apply andb_true_iff in Hb. destruct Hb as [H1 H2].
    f_equal; [apply Hx; exact H1|apply IHl; assumption].
Qed.

Definition pgood (p : val -> val -> bool) : Prop :=
  forall x y, p x y = true -> (is_strlike x = true -> is_num y = false) /\ (is_strlike y = true -> is_num x = false).

Lemma all_right_str_rect : forall p, pgood p -> forall a, is_strlike a = true ->
  forall sh b, rshape b = Some sh -> is_arr b = true -> all_right p a b = false.
Proof.
  intros p Hp a Ha. induction sh as [|d s IH]; intros b Hb Ab.
  - pose proof (rshape_nil_atom _ Hb) as Nb. rewrite (is_num_not_arr _ Nb) in Ab. discriminate.
  - destruct (is_arr_true _ Ab) as [lb ->]. destruct (rshape_list _ _ Hb) as [s0 [E F]]. inversion E. subst s0 d.
    destruct lb as [|y r].
    + cbn [all_right]. destruct a; try discriminate Ha; reflexivity.
    + change (all_right p a (VL (y :: r))) with (all_right p a y && forallb (all_right p a) r).
      inversion F as [|? ? Hy Hr]. subst.
      destruct (is_arr y) eqn:Ay.
      * rewrite (IH y Hy Ay). reflexivity.
      * assert (Ny : is_num y = true).
        { destruct s; [exact (rshape_nil_atom _ Hy)|]. destruct (rshape_cons_list _ _ _ Hy) as [l ->]. discriminate Ay. }
        rewrite all_right_atom by exact Ay. destruct (p a y) eqn:E1; [|reflexivity].
        destruct (Hp a y E1) as [H1 _]. rewrite (H1 Ha) in Ny. discriminate.
Qed.

Lemma all_pairs_rect_str : forall p, pgood p -> forall b, is_strlike b = true ->
  forall sh a, rshape a = Some sh -> is_arr a = true -> all_pairs p a b = false.
Proof.
  intros p Hp b Hb.
  assert (Ab : is_arr b = false) by (destruct b; try discriminate Hb; reflexivity).
  induction sh as [|d s IH]; intros a Ha Aa.
  - pose proof (rshape_nil_atom _ Ha) as Na. rewrite (is_num_not_arr _ Na) in Aa. discriminate.
  - destruct (is_arr_true _ Aa) as [la ->]. destruct (rshape_list _ _ Ha) as [s0 [E F]]. inversion E. subst s0 d.
    destruct la as [|x r].
    + destruct b; try discriminate Hb; reflexivity.
    + rewrite all_pairs_list_atom by (try exact Ab; discriminate). cbn [forallb].
      inversion F as [|? ? Hx Hr]. subst.
      destruct (is_arr x) eqn:Ax.
      * rewrite (IH x Hx Ax). reflexivity.
      * assert (Nx : is_num x = true).
        { destruct s; [exact (rshape_nil_atom _ Hx)|]. destruct (rshape_cons_list _ _ _ Hx) as [l ->]. discriminate Ax. }
        rewrite (all_pairs_atoms p x b Ax Ab). destruct (p x b) eqn:E1; [|reflexivity].
        destruct (Hp x b E1) as [_ H2]. rewrite (H2 Hb) in Nx. discriminate.
Qed.

Lemma leaf2n_arrays : forall sf la lb, leaf2n sf (VL la) (VL lb) = leaf2 sf (VL la) (VL lb).
Proof. reflexivity. Qed.

Lemma vec2_leaf2n_eq : forall sf p, pgood p -> forall fuel a b,
  conformable a b = true -> all_pairs p a b = true ->
  vec2 fuel (leaf2n sf) a b = vec2 fuel (leaf2 sf) a b.
Proof.
  intros sf p Hp. induction fuel as [|f' IH]; intros a b Hc Hpr; [reflexivity|].
  destruct (is_arr a) eqn:Aa; destruct (is_arr b) eqn:Ab.
  - destruct (is_arr_true _ Aa) as [la ->]. destruct (is_arr_true _ Ab) as [lb ->].
    rewrite !vec2_gen_LL. destruct (is_obj (VL la) || is_obj (VL lb)); [|apply leaf2n_arrays].
    destruct (conformable_lists _ _ Hc) as [_ Hconf]. cbn [all_pairs] in Hpr.
    f_equal. apply rzip_ext_combine. intros x y Hin. apply IH; [apply Hconf; exact Hin|eapply all2_combine; eassumption].
  - destruct (is_arr_true _ Aa) as [la ->]. rewrite !vec2_gen_LA by exact Ab.
    destruct (is_obj (VL la)) eqn:Oa.
    + destruct (is_obj_list _ Oa) as [_ Nel]. rewrite all_pairs_list_atom in Hpr by assumption. rewrite forallb_forall in Hpr.
      f_equal. apply rmap_ext. intros x Hx. apply IH; [apply conformable_atom_r; exact Ab|apply Hpr; exact Hx].
    + unfold leaf2n. destruct (is_strlike b) eqn:Sb.
      * destruct (not_obj_list _ Oa) as [sh R]. rewrite (all_pairs_rect_str p Hp b Sb sh _ R eq_refl) in Hpr. discriminate.
      * rewrite andb_false_r. cbn [is_strlike andb orb]. reflexivity.
  - destruct (is_arr_true _ Ab) as [lb ->]. rewrite !vec2_gen_AL by exact Aa.
    rewrite all_pairs_atom_l in Hpr by exact Aa.
    destruct (is_obj (VL lb)) eqn:Ob.
    + destruct (is_obj_list _ Ob) as [_ Nel]. rewrite all_right_list in Hpr by exact Nel. rewrite forallb_forall in Hpr.
      f_equal. apply rmap_ext. intros y Hy. apply IH; [apply conformable_atom_l; exact Aa|].
      rewrite all_pairs_atom_l by exact Aa. apply Hpr. exact Hy.
    + unfold leaf2n. destruct (is_strlike a) eqn:Sa.
      * destruct (not_obj_list _ Ob) as [sh R]. rewrite (all_right_str_rect p Hp a Sa sh _ R eq_refl) in Hpr. discriminate.
      * cbn [andb orb is_arr]. rewrite Aa. reflexivity.
  - rewrite !vec2_gen_AA by assumption. unfold leaf2n. rewrite Aa, Ab. rewrite !andb_false_r. reflexivity.
Qed.

Lemma vec_op_holds : forall sf p, pgood p -> forall a b v,
  conformable a b = true -> all_pairs p a b = true -> kb_vec a b = false -> norm v = v ->
  s2 sf a b = Ok v -> vec2 (fuel2 a b) (leaf2n sf) a b = Ok v.
Proof.
  intros sf p Hp a b v Hc Hpr Hk Hn Hs. rewrite (vec2_leaf2n_eq sf p Hp) by assumption.
  apply vec2_spec; try assumption. apply fuel2_enough.
Qed.

Lemma pgood_same_kind : pgood same_kind.
Proof. intros x y H. destruct x; destruct y; try discriminate H; split; intros; try discriminate; reflexivity. Qed.
Lemma pgood_both_num : pgood both_num.
Proof. intros x y H. unfold both_num in H. destruct x; destruct y; try discriminate H; split; intros; try discriminate; reflexivity. Qed.
Lemma pgood_both_int_nz : pgood both_int_nz.
Proof. intros x y H. unfold both_int_nz in H. destruct x; destruct y; try discriminate H; split; intros; try discriminate; reflexivity. Qed.

Local Open Scope string_scope.
Local Open Scope Z_scope.

Lemma k_vec_empty : forall (n kb rn : bool),
  (if negb n then "homogenise" else if kb then "broadcast" else if negb rn then "homogenise" else "") = "" -> kb = false /\ rn = true.
Proof. intros n kb rn H. destruct (negb n); [discriminate H|]. destruct kb; [discriminate H|]. destruct rn; [auto|discriminate H]. Qed.

Lemma res_normal_ok : forall r v, r = Ok v -> res_normal r = true -> norm v = v.
Proof. intros r v -> H. apply val_eqb_eq. exact H. Qed.

Ltac vec_op_tac sc pg Hc Hd Hk Hs :=
  unfold m_dyad; rewrite Hc; cbn [negb];
  apply andb_true_iff in Hd; destruct Hd as [Hconf Hp];
  rewrite !orb_false_r in Hp; try rewrite andb_true_r in Hp;
  destruct (k_vec_empty _ _ _ Hk) as [Hkb Hrn];
  apply (vec_op_holds sc _ pg); try assumption; exact (res_normal_ok _ _ Hs Hrn).

Lemma equal_holds_outside_K : forall a b v, canonical a && canonical b = true ->
  dom_dyad "eval_dyad_equal" a b = true -> k_dyad "eval_dyad_equal" a b = "" ->
  s_dyad "eval_dyad_equal" a b = Ok v -> m_dyad "eval_dyad_equal" a b = Ok v.
Proof.
  intros a b v Hc Hd Hk Hs.
  change (dom_dyad "eval_dyad_equal" a b) with (conformable a b && ((all_pairs same_kind a b && true) || false || false)) in Hd.
  change (s_dyad "eval_dyad_equal" a b) with (s2 sc_equal a b) in Hs.
  unfold m_dyad. rewrite Hc. cbn [negb].
  apply andb_true_iff in Hd. destruct Hd as [Hconf Hp]. rewrite !orb_false_r in Hp. rewrite andb_true_r in Hp.
  destruct (k_vec_empty _ _ _ Hk) as [Hkb Hrn].
  change (m_equal a b = Ok v). apply equal_spec; try assumption. exact (res_normal_ok _ _ Hs Hrn).
Qed.

Lemma less_holds_outside_K : forall a b v, canonical a && canonical b = true ->
  dom_dyad "eval_dyad_less" a b = true -> k_dyad "eval_dyad_less" a b = "" ->
  s_dyad "eval_dyad_less" a b = Ok v -> m_dyad "eval_dyad_less" a b = Ok v.
Proof.
  intros a b v Hc Hd Hk Hs.
  change (dom_dyad "eval_dyad_less" a b) with (conformable a b && ((all_pairs same_kind a b && true) || false || false)) in Hd.
  change (s_dyad "eval_dyad_less" a b) with (s2 sc_less a b) in Hs.
  vec_op_tac sc_less pgood_same_kind Hc Hd Hk Hs.
Qed.
Lemma more_holds_outside_K : forall a b v, canonical a && canonical b = true ->
  dom_dyad "eval_dyad_more" a b = true -> k_dyad "eval_dyad_more" a b = "" ->
  s_dyad "eval_dyad_more" a b = Ok v -> m_dyad "eval_dyad_more" a b = Ok v.
Proof.
  intros a b v Hc Hd Hk Hs.
  change (dom_dyad "eval_dyad_more" a b) with (conformable a b && ((all_pairs same_kind a b && true) || false || false)) in Hd.
  change (s_dyad "eval_dyad_more" a b) with (s2 sc_more a b) in Hs.
  vec_op_tac sc_more pgood_same_kind Hc Hd Hk Hs.
Qed.
Lemma min_holds_outside_K : forall a b v, canonical a && canonical b = true ->
  dom_dyad "eval_dyad_minimum" a b = true -> k_dyad "eval_dyad_minimum" a b = "" ->
  s_dyad "eval_dyad_minimum" a b = Ok v -> m_dyad "eval_dyad_minimum" a b = Ok v.
Proof.
  intros a b v Hc Hd Hk Hs.
  change (dom_dyad "eval_dyad_minimum" a b) with (conformable a b && ((all_pairs both_num a b && true) || false || false)) in Hd.
  change (s_dyad "eval_dyad_minimum" a b) with (s2 sc_min a b) in Hs.
  vec_op_tac sc_min pgood_both_num Hc Hd Hk Hs.
Qed.
Lemma max_holds_outside_K : forall a b v, canonical a && canonical b = true ->
  dom_dyad "eval_dyad_maximum" a b = true -> k_dyad "eval_dyad_maximum" a b = "" ->
  s_dyad "eval_dyad_maximum" a b = Ok v -> m_dyad "eval_dyad_maximum" a b = Ok v.
Proof.
  intros a b v Hc Hd Hk Hs.
  change (dom_dyad "eval_dyad_maximum" a b) with (conformable a b && ((all_pairs both_num a b && true) || false || false)) in Hd.
  change (s_dyad "eval_dyad_maximum" a b) with (s2 sc_max a b) in Hs.
  vec_op_tac sc_max pgood_both_num Hc Hd Hk Hs.
Qed.
Lemma remainder_holds_outside_K : forall a b v, canonical a && canonical b = true ->
  dom_dyad "eval_dyad_remainder" a b = true -> k_dyad "eval_dyad_remainder" a b = "" ->
  s_dyad "eval_dyad_remainder" a b = Ok v -> m_dyad "eval_dyad_remainder" a b = Ok v.
Proof.
  intros a b v Hc Hd Hk Hs.
  change (dom_dyad "eval_dyad_remainder" a b) with (conformable a b && ((all_pairs both_int_nz a b && true) || false || false)) in Hd.
  change (s_dyad "eval_dyad_remainder" a b) with (s2 sc_fmod a b) in Hs.
  vec_op_tac sc_fmod pgood_both_int_nz Hc Hd Hk Hs.
Qed.

Lemma zero_divisor_check : forall a b, both_atoms_zero_divisor a b = negb (is_arr a) && negb (is_arr b) && is_zero b.
Proof. intros a b. unfold both_atoms_zero_divisor. destruct b; reflexivity. Qed.

Lemma nonzero_atom_pair : forall p a b, (forall x y, p x y = true -> is_zero y = false) ->
  all_pairs p a b = true -> negb (is_arr a) && negb (is_arr b) && is_zero b = false.
Proof.
  intros p a b Hp H. destruct (is_arr a) eqn:Aa; [reflexivity|]. destruct (is_arr b) eqn:Ab; [reflexivity|].
  cbn [negb andb]. rewrite all_pairs_atoms in H by assumption. exact (Hp a b H).
Qed.

Lemma divide_holds_outside_K : forall a b, canonical a && canonical b = true ->
  dom_dyad "eval_dyad_divide" a b = true -> k_dyad "eval_dyad_divide" a b = "" ->
  m_dyad "eval_dyad_divide" a b = s_dyad "eval_dyad_divide" a b.
Proof.
  intros a b Hc Hd Hk. unfold m_dyad. rewrite Hc. cbn [negb].
  change (m_div a b = (if true && negb (is_arr a) && negb (is_arr b) && is_zero b then Ok VU else s2 sc_div a b)).
  change (dom_dyad "eval_dyad_divide" a b) with
    (conformable a b && ((all_pairs both_num a b && (false || nonzero_tree b)) ||
                         (true && negb (is_arr a) && negb (is_arr b) && both_num a b) || false)) in Hd.
  pose proof (k_np_empty _ _ _ Hk) as Hkb.
  apply andb_true_iff in Hd. destruct Hd as [Hconf Hd]. rewrite orb_false_r in Hd. cbn [andb orb] in *.
  assert (Core : forall (Na : num_tree a = true) (Nb : num_tree b = true) (Nz : nonzero_tree b = true),
            m_div a b = (if negb (is_arr a) && negb (is_arr b) && is_zero b then Ok VU else s2 sc_div a b)).
  { intros Na Nb Nz. rewrite (div_spec a b Na Nb Hconf Hkb Nz).
    destruct (is_arr a) eqn:Aa; [reflexivity|]. destruct (is_arr b) eqn:Ab; [reflexivity|]. cbn [negb andb].
    unfold nonzero_tree in Nz. rewrite (all_leaves_atom _ b Ab) in Nz. apply andb_true_iff in Nz. destruct Nz as [_ Nz].
    apply negb_true_iff in Nz. rewrite Nz. reflexivity. }
  apply orb_true_iff in Hd. destruct Hd as [Hd|Hd].
  - apply andb_true_iff in Hd. destruct Hd as [Hp Hz]. destruct (pairs_num_trees a b Hconf Hp) as [Na Nb].
    apply Core; assumption.
  - apply andb_true_iff in Hd. destruct Hd as [Hd Hbn]. apply andb_true_iff in Hd. destruct Hd as [Aa Ab].
    apply negb_true_iff in Aa. apply negb_true_iff in Ab. unfold both_num in Hbn. apply andb_true_iff in Hbn. destruct Hbn as [Na Nb].
    destruct (is_zero b) eqn:Zb.
    + unfold m_div. rewrite zero_divisor_check, Aa, Ab, Zb. reflexivity.
    + apply Core; unfold num_tree, nonzero_tree; rewrite ?(all_leaves_atom _ a Aa), ?(all_leaves_atom _ b Ab); try assumption.
      rewrite Nb, Zb. reflexivity.
Qed.

Lemma idiv_holds_outside_K : forall a b v, canonical a && canonical b = true ->
  dom_dyad "eval_dyad_integer_divide" a b = true -> k_dyad "eval_dyad_integer_divide" a b = "" ->
  s_dyad "eval_dyad_integer_divide" a b = Ok v -> m_dyad "eval_dyad_integer_divide" a b = Ok v.
Proof.
  intros a b v Hc Hd Hk Hs. unfold m_dyad. rewrite Hc. cbn [negb].
  change (m_idiv a b = Ok v).
  change (s_dyad "eval_dyad_integer_divide" a b) with
    (if true && negb (is_arr a) && negb (is_arr b) && is_zero b then Ok VU else s2 sc_idiv a b) in Hs.
  change (dom_dyad "eval_dyad_integer_divide" a b) with
    (conformable a b && ((all_pairs both_int_nz a b && true) || false ||
                         (true && negb (is_arr a) && negb (is_arr b) && is_int a && is_int b))) in Hd.
  destruct (k_vec_empty _ _ _ Hk) as [Hkb Hrn].
  change (s_dyad "eval_dyad_integer_divide" a b) with
    (if true && negb (is_arr a) && negb (is_arr b) && is_zero b then Ok VU else s2 sc_idiv a b) in Hrn.
  cbn [andb] in *.
  apply andb_true_iff in Hd. destruct Hd as [Hconf Hd]. rewrite orb_false_r in Hd. rewrite andb_true_r in Hd.
  unfold m_idiv. rewrite zero_divisor_check.
  destruct (negb (is_arr a) && negb (is_arr b) && is_zero b) eqn:Z0; [exact Hs|].
  apply orb_true_iff in Hd. destruct Hd as [Hp|Hd].
  - apply (vec_op_holds sc_idiv _ pgood_both_int_nz); try assumption. exact (res_normal_ok _ _ Hs Hrn).
  - apply andb_true_iff in Hd. destruct Hd as [Hd Ib]. apply andb_true_iff in Hd. destruct Hd as [Hd Ia].
    apply andb_true_iff in Hd. destruct Hd as [Aa Ab]. apply negb_true_iff in Aa. apply negb_true_iff in Ab.
    rewrite Aa, Ab in Z0. cbn [negb andb] in Z0.
    apply (vec_op_holds sc_idiv _ pgood_both_int_nz); try assumption; [|exact (res_normal_ok _ _ Hs Hrn)].
    rewrite all_pairs_atoms by assumption. unfold both_int_nz. rewrite Ia, Ib, Z0. reflexivity.
Qed.

(* ------------------------------------------------------------------ Find in a list *)
Lemma positions_ok : forall (f : val -> result bool) (p : val -> bool) l i,
  (forall x, In x l -> f x = Ok (p x)) -> positions i f l = Ok (s_positions (Z.of_nat i) p l).
Proof.
  intros f p. induction l as [|x l IH]; intros i H; [reflexivity|].
  cbn [positions s_positions]. rewrite (H x (or_introl eq_refl)). cbn [bind].
  rewrite (IH (S i)) by (intros y Hy; apply H; right; exact Hy). cbn [bind].
  replace (Z.of_nat i + 1) with (Z.of_nat (S i)) by lia. destruct (p x); reflexivity.
Qed.

Local Open Scope string_scope.
Local Open Scope Z_scope.

Lemma find_list_holds : kg_equal_ints_exact = true -> kg_equal_no_shape_exit = true ->
  forall l b, canonical (VL l) && canonical b = true -> dom_dyad "eval_dyad_find" (VL l) b = true ->
  m_dyad "eval_dyad_find" (VL l) b = s_dyad "eval_dyad_find" (VL l) b.
Proof.
  intros Hi Hs l b Hc Hd. unfold m_dyad. rewrite Hc. cbn [negb].
  change (m_find (VL l) b = Ok (VL (s_positions 0 (fun x => s_same x b) l))).
  change (dom_dyad "eval_dyad_find" (VL l) b) with
    (negb (match b with VU => true | _ => false end) && forallb (fun x => match_kinds_ok x b && negb (k_close x b)) l) in Hd.
  apply andb_true_iff in Hd. destruct Hd as [Hu Hall]. rewrite forallb_forall in Hall.
  assert (Keq : forall x, In x l -> kg_equal (fuel2 x b) x b = Ok (s_same x b)).
  { intros x Hx. specialize (Hall x Hx). apply andb_true_iff in Hall. destruct Hall as [Hm Hk]. apply negb_true_iff in Hk.
    unfold kg_equal. rewrite Hs. cbn [negb].
    apply (kg_equal_rep_spec Hi); try assumption; try apply canon_rep_valid. apply fuel2_enough. }
  assert (Scan : okl (positions 0 (fun x => kg_equal (fuel2 x b) x b) l) = Ok (VL (s_positions 0 (fun x => s_same x b) l))).
  { rewrite (positions_ok _ (fun x => s_same x b) l 0 Keq). reflexivity. }
  unfold m_find.
  destruct b as [z|r|c|s|s|lb|]; try discriminate Hu; try exact Scan;
    (destruct (is_strlike _ || is_obj (VL l) || (1 <? npdepth (VL l))%nat) eqn:E; [exact Scan|]).
  - (* integer needle in a numeric vector *)
    apply orb_false_iff in E. destruct E as [E Hn]. apply orb_false_iff in E. destruct E as [_ Ho].
    destruct (not_obj_list _ Ho) as [sh R]. destruct (rshape_list _ _ R) as [s0 [Es F]]. subst sh.
    assert (s0 = []) by (apply Nat.ltb_ge in Hn; rewrite (npdepth_rect _ _ R) in Hn; destruct s0; [reflexivity|cbn in Hn; lia]). subst s0.
    rewrite (positions_ok _ (fun x => s_same x (VI z)) l 0); [reflexivity|].
    intros x Hx. rewrite Forall_forall in F. pose proof (rshape_nil_atom _ (F x Hx)) as Nx.
    destruct x; try discriminate Nx; cbn [sc_equal s_same num_eqb b2v]; match goal with |- context [if ?c then _ else _] => destruct c end; reflexivity.
  - apply orb_false_iff in E. destruct E as [E Hn]. apply orb_false_iff in E. destruct E as [_ Ho].
    destruct (not_obj_list _ Ho) as [sh R]. destruct (rshape_list _ _ R) as [s0 [Es F]]. subst sh.
    assert (s0 = []) by (apply Nat.ltb_ge in Hn; rewrite (npdepth_rect _ _ R) in Hn; destruct s0; [reflexivity|cbn in Hn; lia]). subst s0.
    rewrite (positions_ok _ (fun x => s_same x (VR r)) l 0); [reflexivity|].
    intros x Hx. rewrite Forall_forall in F. pose proof (rshape_nil_atom _ (F x Hx)) as Nx.
    destruct x; try discriminate Nx; cbn [sc_equal s_same num_eqb b2v]; match goal with |- context [if ?c then _ else _] => destruct c end; reflexivity.
Qed.

(* ------------------------------------------------------------------ Power (T1.op) and Index-in-Depth *)
Local Open Scope string_scope.
Local Open Scope Z_scope.

Definition pow_dom : val -> val -> bool := scdom_of "eval_dyad_power".
Lemma pgood_pow : pgood pow_dom.
Proof. intros x y H. destruct x; destruct y; try discriminate H; split; intros; try discriminate; reflexivity. Qed.

Lemma power_holds_outside_K : forall a b v, canonical a && canonical b = true ->
  dom_dyad "eval_dyad_power" a b = true -> k_dyad "eval_dyad_power" a b = "" ->
  s_dyad "eval_dyad_power" a b = Ok v -> m_dyad "eval_dyad_power" a b = Ok v.
Proof.
  intros a b v Hc Hd Hk Hs.
  change (dom_dyad "eval_dyad_power" a b) with (conformable a b && ((all_pairs pow_dom a b && true) || false || false)) in Hd.
  change (s_dyad "eval_dyad_power" a b) with (s2 sc_pow a b) in Hs.
  vec_op_tac sc_pow pgood_pow Hc Hd Hk Hs.
Qed.

Lemma index_path_spec : forall zs fuel a, (List.length zs < fuel)%nat -> path_ok a zs = true ->
  index_path fuel a zs = Ok (s_path a zs).
Proof.
  induction zs as [|i zs IH]; intros fuel a Hf Hp; (destruct fuel as [|f']; [cbn in Hf; lia|]); [reflexivity|].
  cbn [path_ok] in Hp. destruct a as [z|r|c|s|s|l|]; try discriminate Hp.
  apply andb_true_iff in Hp. destruct Hp as [Hp Hr]. apply andb_true_iff in Hp. destruct Hp as [H0 H1].
  apply Z.leb_le in H0. apply Z.ltb_lt in H1.
  cbn [index_path s_path members]. rewrite py_index_in_range by lia. cbn [bind]. apply IH; [cbn in Hf; lia|exact Hr].
Qed.

Lemma index_in_depth_holds : forall a b, canonical a && canonical b = true ->
  dom_dyad "eval_dyad_index_in_depth" a b = true ->
  m_dyad "eval_dyad_index_in_depth" a b = s_dyad "eval_dyad_index_in_depth" a b.
Proof.
  intros a b Hc Hd. unfold m_dyad. rewrite Hc. cbn [negb].
  change (m_index_in_depth a b = s_dyad "eval_dyad_index_in_depth" a b).
  destruct a as [z|r|c|s|s|l|]; try (destruct b; discriminate Hd).
  destruct b as [i|r|c|s|s|lb|]; try discriminate Hd.
  - change (dom_dyad "eval_dyad_index_in_depth" (VL l) (VI i)) with ((npdepth (VL l) =? 1)%nat && (0 <=? i) && (i <? zlen l)) in Hd.
    apply andb_true_iff in Hd. destruct Hd as [Hd H1]. apply andb_true_iff in Hd. destruct Hd as [_ H0].
    apply Z.leb_le in H0. apply Z.ltb_lt in H1. cbn [m_index_in_depth]. rewrite py_index_in_range by lia. reflexivity.
  - destruct lb as [|x r]; [discriminate Hd|].
    change (dom_dyad "eval_dyad_index_in_depth" (VL l) (VL (x :: r))) with
      ((npdepth (VL (x :: r)) =? 1)%nat && forallb is_int (x :: r) && path_ok (VL l) (zints (VL (x :: r)))) in Hd.
    apply andb_true_iff in Hd. destruct Hd as [Hd Hp]. apply andb_true_iff in Hd. destruct Hd as [_ Hall].
    destruct (ints_of_all_int _ Hall) as [zs Hz].
    assert (Ez : zints (VL (x :: r)) = zs) by (unfold zints; cbn [members]; rewrite Hz; reflexivity).
    change (s_dyad "eval_dyad_index_in_depth" (VL l) (VL (x :: r))) with (Ok (s_path (VL l) (zints (VL (x :: r))))).
    rewrite Ez in *. unfold m_index_in_depth. rewrite Hz. apply index_path_spec; [lia|exact Hp].
Qed.

(* ------------------------------------------------------------------ Group: the pairwise scan yields the classes of Match *)
Local Open Scope list_scope.
Lemma existsb_app' : forall {A} (f : A -> bool) a b, existsb f (a ++ b) = existsb f a || existsb f b.
Proof. intros A f. induction a as [|x a IH]; intros b; [reflexivity|]. cbn. rewrite IH, orb_assoc. reflexivity. Qed.

Lemma map_nth_seq : forall {A} (d : A) (p : list A), map (fun i => nth i p d) (seq 0 (List.length p)) = p.
Proof.
  intros A d p. apply (nth_ext _ _ d d); [rewrite map_length, seq_length; reflexivity|].
  intros i Hi. rewrite map_length, seq_length in Hi.
  rewrite (nth_indep _ d (nth 0 p d)) by (rewrite map_length, seq_length; exact Hi).
  rewrite (map_nth (fun i => nth i p d) (seq 0 (List.length p)) 0%nat i). rewrite seq_nth by exact Hi. reflexivity.
Qed.

Lemma existsb_nth_seq : forall {A} (d : A) (f : A -> bool) (p : list A),
  existsb (fun i => f (nth i p d)) (seq 0 (List.length p)) = existsb f p.
Proof.
  intros A d f p. rewrite <- (map_nth_seq d p) at 2.
  generalize (seq 0 (List.length p)). induction l as [|i l IH]; [reflexivity|]. cbn. rewrite IH. reflexivity.
Qed.

Lemma flat_map_ext_in : forall {A B} (f g : A -> list B) l, (forall x, In x l -> f x = g x) -> flat_map f l = flat_map g l.
Proof.
  intros A B f g. induction l as [|x l IH]; intros H; [reflexivity|]. cbn. rewrite (H x (or_introl eq_refl)).
  rewrite IH; [reflexivity|]. intros y Hy. apply H. right. exact Hy.
Qed.
Lemma existsb_ext_in : forall {A} (f g : A -> bool) l, (forall x, In x l -> f x = g x) -> existsb f l = existsb g l.
Proof.
  intros A f g. induction l as [|x l IH]; intros H; [reflexivity|]. cbn. rewrite (H x (or_introl eq_refl)).
  rewrite IH; [reflexivity|]. intros y Hy. apply H. right. exact Hy.
Qed.

Section GroupProof.
  Variable E : val -> val -> bool.

  Fixpoint npos (k : val) (i : nat) (l : list val) : list nat :=
    match l with [] => [] | x :: r => (if E x k then [i] else []) ++ npos k (S i) r end.

  Lemma positions_npos : forall k l i, positions_of E k i l = map (fun j => VI (Z.of_nat j)) (npos k i l).
  Proof.
    intros k. induction l as [|x l IH]; intros i; [reflexivity|].
    cbn [positions_of npos]. rewrite map_app, IH. destruct (E x k); reflexivity.
  Qed.

  Lemma npos_snoc : forall k p i x, npos k i (p ++ [x]) = npos k i p ++ (if E x k then [(i + List.length p)%nat] else []).
  Proof.
    intros k. induction p as [|y p IH]; intros i x.
    - cbn. rewrite Nat.add_0_r. rewrite app_nil_r. reflexivity.
    - cbn [app npos List.length]. rewrite IH. rewrite <- app_assoc. replace (S i + List.length p)%nat with (i + S (List.length p))%nat by lia. reflexivity.
  Qed.

  Lemma npos_nil : forall k p i, (forall y, In y p -> E y k = false) -> npos k i p = [].
  Proof.
    intros k. induction p as [|y p IH]; intros i H; [reflexivity|].
    cbn [npos]. rewrite (H y (or_introl eq_refl)). cbn. apply IH. intros z Hz. apply H. right. exact Hz.
  Qed.

  Lemma firsts_snoc : forall p x, firsts E VU (p ++ [x]) = firsts E VU p ++ (if existsb (E x) p then [] else [x]).
  Proof.
    intros p x. unfold firsts. rewrite app_length. cbn [List.length]. rewrite Nat.add_1_r. rewrite seq_S. cbn [Nat.add].
    rewrite flat_map_app. f_equal.
    - apply flat_map_ext_in. intros j Hj. apply in_seq in Hj.
      rewrite (app_nth1 p [x] VU) by lia.
      assert (Ex : existsb (fun i => E (nth j p VU) (nth i (p ++ [x]) VU)) (seq 0 j) = existsb (fun i => E (nth j p VU) (nth i p VU)) (seq 0 j)).
      { apply existsb_ext_in. intros i Hi. apply in_seq in Hi. rewrite (app_nth1 p [x] VU) by lia. reflexivity. }
      rewrite Ex. reflexivity.
    - cbn [flat_map]. rewrite app_nil_r. rewrite app_nth2 by lia. rewrite Nat.sub_diag. cbn [nth].
      assert (Ex : existsb (fun i => E x (nth i (p ++ [x]) VU)) (seq 0 (List.length p)) = existsb (E x) p).
      { rewrite <- (existsb_nth_seq VU (E x) p). apply existsb_ext_in. intros i Hi. apply in_seq in Hi.
        rewrite (app_nth1 p [x] VU) by lia. reflexivity. }
      rewrite Ex. reflexivity.
  Qed.

  Lemma firsts_incl : forall p k, In k (firsts E VU p) -> In k p.
  Proof.
    intros p k H. unfold firsts in H. apply in_flat_map in H. destruct H as [j [Hj Hk]]. apply in_seq in Hj.
    destruct (existsb _ _); [destruct Hk|]. destruct Hk as [<-|[]]. apply nth_In. lia.
  Qed.

  (* the members the scan will meet, on which Match is an equivalence and the comparison function computes E *)
  Variable M : val -> Prop.
  Variable eq : val -> val -> result bool.
  Hypothesis Heq : forall k x, M k -> M x -> eq k x = Ok (E k x).
  Hypothesis Hrefl : forall x, M x -> E x x = true.
  Hypothesis Hsym : forall x y, M x -> M y -> E x y = true -> E y x = true.
  Hypothesis Htrans : forall x y z, M x -> M y -> M z -> E x y = true -> E y z = true -> E x z = true.

  Lemma sym_false : forall x y, M x -> M y -> E x y = false -> E y x = false.
  Proof. intros x y Mx My H. destruct (E y x) eqn:F; [|reflexivity]. rewrite (Hsym y x My Mx F) in H. discriminate. Qed.

  (* keys no two of which match *)
  Fixpoint sep (keys : list val) : Prop :=
    match keys with [] => True | k :: r => (forall k', In k' r -> E k k' = false) /\ sep r end.

  Lemma ginsert_spec : forall x i, M x -> forall keys (f : val -> list nat),
    (forall k, In k keys -> M k) -> sep keys ->
    ginsert eq x i (map (fun k => (k, f k)) keys) =
    Ok (map (fun k => (k, f k ++ if E x k then [i] else [])) keys ++ (if existsb (E x) keys then [] else [(x, [i])])).
  Proof.
    intros x i Mx. induction keys as [|k r IH]; intros f HM Hs; [reflexivity|].
    cbn [map ginsert]. cbn [sep] in Hs. destruct Hs as [Hk Hr].
    assert (Mk : M k) by (apply HM; left; reflexivity).
    rewrite (Heq k x Mk Mx). cbn [bind existsb].
    destruct (E k x) eqn:Ekx.
    - rewrite (Hsym k x Mk Mx Ekx). cbn [orb]. rewrite app_nil_r. f_equal. f_equal.
      apply map_ext_in. intros k' Hk'. assert (Mk' : M k') by (apply HM; right; exact Hk').
      destruct (E x k') eqn:Exk'; [|rewrite app_nil_r; reflexivity].
      specialize (Hk k' Hk'). rewrite (Htrans k x k' Mk Mx Mk' Ekx Exk') in Hk. discriminate.
    - rewrite (sym_false k x Mk Mx Ekx). cbn [orb]. rewrite app_nil_r.
      rewrite (IH f (fun k' Hk' => HM k' (or_intror Hk')) Hr). cbn [bind app]. reflexivity.
  Qed.

  Definition G (p : list val) : list (val * list nat) := map (fun k => (k, npos k 0 p)) (firsts E VU p).
  Definition covered (p : list val) : Prop := forall y, In y p -> exists k, In k (firsts E VU p) /\ E y k = true.

  Lemma sep_snoc : forall keys x, sep keys -> (forall k, In k keys -> E k x = false) -> sep (keys ++ [x]).
  Proof.
    induction keys as [|k r IH]; intros x Hs Hx; [cbn; split; [intros k' []|exact I]|].
    cbn [sep] in Hs. destruct Hs as [Hk Hr]. cbn [app sep]. split.
    - intros k' Hk'. apply in_app_or in Hk'. destruct Hk' as [Hk'|[<-|[]]]; [apply Hk; exact Hk'|apply Hx; left; reflexivity].
    - apply IH; [exact Hr|]. intros k' Hk'. apply Hx. right. exact Hk'.
  Qed.

  Lemma gscan_spec : forall r p,
    (forall y, In y (p ++ r) -> M y) -> sep (firsts E VU p) -> covered p ->
    gscan eq (List.length p) r (G p) = Ok (G (p ++ r)).
  Proof.
    induction r as [|x r IH]; intros p HM Hs Hc.
    - cbn [gscan]. rewrite app_nil_r. reflexivity.
    - assert (Mx : M x) by (apply HM; apply in_or_app; right; left; reflexivity).
      assert (Mp : forall y, In y p -> M y) by (intros y Hy; apply HM; apply in_or_app; left; exact Hy).
      assert (Mk : forall k, In k (firsts E VU p) -> M k) by (intros k Hk; apply Mp; apply firsts_incl; exact Hk).
      cbn [gscan]. unfold G at 1. rewrite (ginsert_spec x (List.length p) Mx (firsts E VU p) (fun k => npos k 0 p) Mk Hs).
      cbn [bind].
      (* a key matches x iff a member matches x *)
      assert (Hex : existsb (E x) (firsts E VU p) = existsb (E x) p).
      { destruct (existsb (E x) p) eqn:Ep.
        - apply existsb_exists in Ep. destruct Ep as [y [Hy Exy]]. destruct (Hc y Hy) as [k [Hk Eyk]].
          apply existsb_exists. exists k. split; [exact Hk|]. exact (Htrans x y k Mx (Mp y Hy) (Mk k Hk) Exy Eyk).
        - destruct (existsb (E x) (firsts E VU p)) eqn:Ef; [|reflexivity].
          apply existsb_exists in Ef. destruct Ef as [k [Hk Exk]].
          assert (X : existsb (E x) p = true) by (apply existsb_exists; exists k; split; [apply firsts_incl; exact Hk|exact Exk]).
          rewrite X in Ep. discriminate. }
      assert (Hstep : map (fun k => (k, npos k 0 p ++ (if E x k then [List.length p] else []))) (firsts E VU p) ++
                      (if existsb (E x) (firsts E VU p) then [] else [(x, [List.length p])]) = G (p ++ [x])).
      { unfold G. rewrite firsts_snoc. rewrite map_app. rewrite Hex. f_equal.
        - apply map_ext. intros k. rewrite npos_snoc. reflexivity.
        - destruct (existsb (E x) p) eqn:Ep; [reflexivity|]. cbn [map]. rewrite npos_snoc. rewrite (Hrefl x Mx).
          rewrite npos_nil; [reflexivity|].
          intros y Hy. destruct (E y x) eqn:Eyx; [|reflexivity].
          assert (X : existsb (E x) p = true) by (apply existsb_exists; exists y; split; [exact Hy|exact (Hsym y x (Mp y Hy) Mx Eyx)]).
          rewrite X in Ep. discriminate. }
      rewrite Hstep.
      replace (S (List.length p)) with (List.length (p ++ [x])) by (rewrite app_length; cbn; lia).
      replace (p ++ x :: r) with ((p ++ [x]) ++ r) by (rewrite <- app_assoc; reflexivity).
      apply IH.
      + intros y Hy. apply HM. rewrite <- app_assoc in Hy. exact Hy.
      + rewrite firsts_snoc. destruct (existsb (E x) p) eqn:Ep; [rewrite app_nil_r; exact Hs|].
        apply sep_snoc; [exact Hs|]. intros k Hk. apply (sym_false x k Mx (Mk k Hk)).
        destruct (E x k) eqn:Exk; [|reflexivity].
        assert (X : existsb (E x) (firsts E VU p) = true) by (apply existsb_exists; exists k; split; assumption).
        rewrite X in Hex. discriminate.
      + intros y Hy. rewrite firsts_snoc. apply in_app_or in Hy. destruct Hy as [Hy|[<-|[]]].
        * destruct (Hc y Hy) as [k [Hk Eyk]]. exists k. split; [apply in_or_app; left; exact Hk|exact Eyk].
        * destruct (existsb (E x) p) eqn:Ep.
          -- apply existsb_exists in Hex. destruct Hex as [k [Hk Exk]].
             exists k. split; [apply in_or_app; left; exact Hk|exact Exk].
          -- exists x. split; [apply in_or_app; right; left; reflexivity|apply Hrefl; exact Mx].
  Qed.

  Lemma groups_val_G : forall l, groups_val (G l) = VL (map (fun k => VL (positions_of E k 0 l)) (firsts E VU l)).
  Proof.
    intros l. unfold groups_val, G. rewrite map_map. f_equal. apply map_ext. intros k. cbn [snd]. rewrite positions_npos. reflexivity.
  Qed.

  Theorem gscan_groups : forall l, (forall y, In y l -> M y) ->
    bind (gscan eq 0 l []) (fun gs => Ok (groups_val gs)) = Ok (VL (map (fun k => VL (positions_of E k 0 l)) (firsts E VU l))).
  Proof.
    intros l HM. change (@nil (val * list nat)) with (G []). change O with (List.length (@nil val)).
    rewrite (gscan_spec l []); [cbn [bind app]; rewrite groups_val_G; reflexivity|exact HM|exact I|intros y []].
  Qed.
End GroupProof.

Lemma positions_of_ext_in : forall (e e' : val -> val -> bool) k l i,
  (forall x, In x l -> e x k = e' x k) -> positions_of e k i l = positions_of e' k i l.
Proof.
  intros e e' k. induction l as [|x l IH]; intros i H; [reflexivity|].
  cbn [positions_of]. rewrite (H x (or_introl eq_refl)). rewrite (IH (S i)); [reflexivity|]. intros y Hy. apply H. right. exact Hy.
Qed.

Lemma firsts_ext_in : forall (e e' : val -> val -> bool) l,
  (forall x y, In x l -> In y l -> e x y = e' x y) -> firsts e VU l = firsts e' VU l.
Proof.
  intros e e' l H. unfold firsts. apply flat_map_ext_in. intros j Hj. apply in_seq in Hj.
  assert (X : existsb (fun i => e (nth j l VU) (nth i l VU)) (seq 0 j) = existsb (fun i => e' (nth j l VU) (nth i l VU)) (seq 0 j)).
  { apply existsb_ext_in. intros i Hi. apply in_seq in Hi. apply H; apply nth_In; lia. }
  rewrite X. reflexivity.
Qed.

Lemma eqv_on_spec : forall e l, eqv_on e l = true ->
  (forall x, In x l -> e x x = true) /\
  (forall x y, In x l -> In y l -> e x y = true -> e y x = true) /\
  (forall x y z, In x l -> In y l -> In z l -> e x y = true -> e y z = true -> e x z = true).
Proof.
  intros e l H. unfold eqv_on in H. rewrite forallb_forall in H. repeat split.
  - intros x Hx. specialize (H x Hx). apply andb_true_iff in H. exact (proj1 H).
  - intros x y Hx Hy Exy. specialize (H x Hx). apply andb_true_iff in H. destruct H as [_ H]. rewrite forallb_forall in H.
    specialize (H y Hy). apply andb_true_iff in H. destruct H as [H _]. rewrite Exy in H. exact H.
  - intros x y z Hx Hy Hz Exy Eyz. specialize (H x Hx). apply andb_true_iff in H. destruct H as [_ H]. rewrite forallb_forall in H.
    specialize (H y Hy). apply andb_true_iff in H. destruct H as [_ H]. rewrite forallb_forall in H.
    specialize (H z Hz). rewrite Exy, Eyz in H. exact H.
Qed.

Local Open Scope string_scope.
Local Open Scope Z_scope.

(* Group: one group per class of Match, in order of first appearance, each listing the positions of its members *)
Lemma group_holds : kg_equal_ints_exact = true -> kg_equal_no_shape_exit = true ->
  forall a, canonical a = true -> dom_monad "eval_monad_groupby" a = true ->
  m_monad "eval_monad_groupby" a = s_monad "eval_monad_groupby" a.
Proof.
  intros Hi Hs a Hc Hd. unfold m_monad. rewrite Hc. cbn [negb].
  change (m_group a = s_monad "eval_monad_groupby" a).
  destruct a as [z|r|c|s|s|l|]; try discriminate Hd.
  - destruct s; reflexivity.
  - change (s_monad "eval_monad_groupby" (VL l)) with (Ok (s_group s_same VU l)).
    change (dom_monad "eval_monad_groupby" (VL l)) with
      (forallb (fun x => forallb (fun y => match_kinds_ok x y && negb (k_close x y)) l) l && eqv_on s_same l) in Hd.
    apply andb_true_iff in Hd. destruct Hd as [Hp Hq]. rewrite forallb_forall in Hp.
    destruct (eqv_on_spec _ _ Hq) as [Hr [Hsy Htr]].
    destruct l as [|x0 l0]; [reflexivity|]. set (l := x0 :: l0) in *.
    unfold m_group. fold l.
    assert (Scan : bind (gscan (fun k x => kg_equal (fuel2 k x) k x) 0 l []) (fun gs => Ok (groups_val gs)) = Ok (s_group s_same VU l)).
    { unfold s_group. apply (gscan_groups s_same (fun y => In y l)); try assumption.
      - intros k x Hk Hx. specialize (Hp k Hk). rewrite forallb_forall in Hp. specialize (Hp x Hx).
        apply andb_true_iff in Hp. destruct Hp as [Hm Hkc]. apply negb_true_iff in Hkc.
        unfold kg_equal. rewrite Hs. cbn [negb].
        apply (kg_equal_rep_spec Hi); try assumption; try apply canon_rep_valid. apply fuel2_enough.
      - intros y Hy. exact Hy. }
    destruct (rshape (VL l)) as [[|d [|d' sh]]|] eqn:R; try exact Scan.
    (* numeric vector: np.unique with exact equality = Match on numbers *)
    destruct (rshape_list _ _ R) as [s0 [Es F]]. inversion Es. subst s0. rewrite Forall_forall in F.
    assert (Num : forall x y, In x l -> In y l -> num_eqb x y = s_same x y).
    { intros x y Hx Hy. pose proof (rshape_nil_atom _ (F x Hx)) as Nx. pose proof (rshape_nil_atom _ (F y Hy)) as Ny.
      destruct x; try discriminate Nx; destruct y; try discriminate Ny; reflexivity. }
    change (Ok (VL (map (fun k => VL (positions_of num_eqb k 0 l)) (firsts num_eqb VU l))) = Ok (s_group s_same VU l)).
    unfold s_group. rewrite (firsts_ext_in num_eqb s_same l Num). f_equal. f_equal.
    apply map_ext_in. intros k Hk. f_equal. apply positions_of_ext_in. intros x Hx. apply Num; [exact Hx|].
    apply (firsts_incl s_same). exact Hk.
Qed.

(* ------------------------------------------------------------------ the groups partition the positions *)
Local Open Scope list_scope.
Section GroupPartition.
  Variable E : val -> val -> bool.

  Lemma npos_in : forall k l i j, In j (npos E k i l) <-> (i <= j < i + List.length l)%nat /\ E (nth (j - i) l VU) k = true.
  Proof.
    intros k. induction l as [|x l IH]; intros i j.
    - cbn. split; [intros []|intros [H _]; lia].
    - cbn [npos List.length]. rewrite in_app_iff. rewrite IH. split.
      + intros [H|[H1 H2]].
        * destruct (E x k) eqn:Ex; [|destruct H]. destruct H as [<-|[]]. rewrite Nat.sub_diag. split; [lia|exact Ex].
        * split; [lia|]. replace (j - i)%nat with (S (j - S i)) by lia. exact H2.
      + intros [H1 H2]. destruct (Nat.eq_dec j i) as [->|Hne].
        * left. rewrite Nat.sub_diag in H2. cbn in H2. rewrite H2. left. reflexivity.
        * right. split; [lia|]. replace (j - i)%nat with (S (j - S i)) in H2 by lia. exact H2.
  Qed.

  Theorem groups_partition : forall l,
    (forall x, In x l -> E x x = true) ->
    (forall x y, In x l -> In y l -> E x y = true -> E y x = true) ->
    (forall x y z, In x l -> In y l -> In z l -> E x y = true -> E y z = true -> E x z = true) ->
    (* every position lies in the group of some key *)
    (forall j, (j < List.length l)%nat -> exists k, In k (firsts E VU l) /\ In j (npos E k 0 l)) /\
    (* distinct keys never match: with transitivity, no position lies in the groups of two keys *)
    sep E (firsts E VU l).
  Proof.
    induction l as [|x p IH] using rev_ind; intros Hr Hs Ht.
    - split; [intros j Hj; cbn in Hj; lia|exact I].
    - assert (Hin : forall y, In y p -> In y (p ++ [x])) by (intros; apply in_or_app; left; assumption).
      assert (Hx : In x (p ++ [x])) by (apply in_or_app; right; left; reflexivity).
      destruct (IH (fun y Hy => Hr y (Hin y Hy)) (fun a b Ha Hb => Hs a b (Hin a Ha) (Hin b Hb))
                   (fun a b c Ha Hb Hc => Ht a b c (Hin a Ha) (Hin b Hb) (Hin c Hc))) as [Hcov Hsep].
      assert (Hk : forall k, In k (firsts E VU p) -> In k (p ++ [x])) by (intros k Hk; apply Hin; apply firsts_incl with (E := E); exact Hk).
      rewrite firsts_snoc. split.
      + intros j Hj. rewrite app_length in Hj. cbn in Hj.
        destruct (Nat.eq_dec j (List.length p)) as [->|Hne].
        * (* the new member *)
          destruct (existsb (E x) p) eqn:Ep.
          -- apply existsb_exists in Ep. destruct Ep as [y [Hy Exy]].
             destruct (In_nth _ _ VU Hy) as [n [Hn Hnth]].
             destruct (Hcov n Hn) as [k [Hkf Hkn]]. apply npos_in in Hkn. destruct Hkn as [_ Hkn]. rewrite Nat.sub_0_r, Hnth in Hkn.
             exists k. split; [apply in_or_app; left; exact Hkf|].
             apply npos_in. split; [rewrite app_length; cbn; lia|]. rewrite Nat.sub_0_r. rewrite app_nth2 by lia. rewrite Nat.sub_diag. cbn [nth].
             exact (Ht x y k Hx (Hin y Hy) (Hk k Hkf) Exy Hkn).
          -- exists x. split; [apply in_or_app; right; left; reflexivity|].
             apply npos_in. split; [rewrite app_length; cbn; lia|]. rewrite Nat.sub_0_r. rewrite app_nth2 by lia. rewrite Nat.sub_diag. cbn [nth].
             apply Hr. exact Hx.
        * destruct (Hcov j ltac:(lia)) as [k [Hkf Hkn]]. exists k. split; [apply in_or_app; left; exact Hkf|].
          apply npos_in in Hkn. destruct Hkn as [_ Hkn]. apply npos_in. split; [rewrite app_length; cbn; lia|].
          rewrite Nat.sub_0_r in *. rewrite app_nth1 by lia. exact Hkn.
      + destruct (existsb (E x) p) eqn:Ep; [rewrite app_nil_r; exact Hsep|].
        apply sep_snoc; [exact Hsep|]. intros k Hkf.
        destruct (E k x) eqn:Ekx; [|reflexivity].
        assert (X : existsb (E x) p = true).
        { apply existsb_exists. exists k. split; [apply firsts_incl with (E := E); exact Hkf|]. exact (Hs k x (Hk k Hkf) Hx Ekx). }
        rewrite X in Ep. discriminate.
  Qed.
End GroupPartition.
