(* C01/Properties.v — property theorems only: statement, `exact`, Print Assumptions.
   Model (coq/C01/Model.v) = what klongpy's verbs do on literal operands; Spec (coq/C01/Spec.v) = what the
   Klong reference prescribes.  All statements are unbounded in list length, nesting depth and element values. *)
From Coq Require Import ZArith List Bool String.
From C01 Require Import Generated Model Spec Proofs.
Import ListNotations.
Open Scope Z_scope.

(* ---- T1.atomic: "atomic verbs apply element-wise through any nesting depth with atom-to-list extension" ----
   (a) a verb that hands both operands to a NumPy ufunc with a recursive object loop (+ - * %):
       for every scalar function sf (sfpy = what the object loop computes on Python scalars, equal to sf on okb),
       ALL numeric operands of any nesting / raggedness that conform, outside the known-finding class "broadcast"
       (two list operands whose NumPy shapes differ meet), give exactly the member-wise extension s2 sf. *)
Theorem C01_atomic_ufunc : forall (sf sfpy : val -> val -> res) (okb : val -> bool),
  (forall x y, okb y = true -> sfpy x y = sf x y) ->
  forall fuel a b,
    (depth a + depth b < fuel)%nat ->
    all_leaves is_num a = true -> all_leaves is_num b = true ->
    conformable a b = true -> kb_np a b = false -> all_leaves okb b = true ->
    np2 fuel ObjRec sf sfpy a b = s2 sf a b.
Proof. exact np2_rec_spec. Qed.
Print Assumptions C01_atomic_ufunc.

(* (b) any ufunc, also those without a usable object loop (& | !), on numbers and rectangular numeric arrays *)
Theorem C01_atomic_ufunc_rect : forall (mode : objmode) (sf sfpy : val -> val -> res) fuel' a b,
  is_obj a = false -> is_obj b = false ->
  all_leaves is_num a = true -> all_leaves is_num b = true ->
  kb_np a b = false ->
  np2 (S fuel') mode sf sfpy a b = s2 sf a b.
Proof. exact np2_rect_spec. Qed.
Print Assumptions C01_atomic_ufunc_rect.

(* (c) a verb routed through vec_fn2 (= < > :%): operands of ANY kind (strings, characters and symbols are atoms),
       any nesting; whenever the reference result v exists and is not touched by kg_asarray's homogenisation. *)
Theorem C01_atomic_vec_fn2 : forall (sf : val -> val -> res) fuel a b v,
  (depth a + depth b < fuel)%nat ->
  conformable a b = true -> kb_vec a b = false ->
  s2 sf a b = Ok v -> norm v = v ->
  vec2 fuel (leaf2 sf) a b = Ok v.
Proof. exact vec2_spec. Qed.
Print Assumptions C01_atomic_vec_fn2.

(* ---- the atomic dyads themselves ---- *)
Theorem C01_plus : forall a b, num_tree a = true -> num_tree b = true -> conformable a b = true -> kb_np a b = false ->
  m_add a b = s2 sc_add a b.
Proof. exact add_spec. Qed.
Print Assumptions C01_plus.
Theorem C01_minus : forall a b, num_tree a = true -> num_tree b = true -> conformable a b = true -> kb_np a b = false ->
  m_sub a b = s2 sc_sub a b.
Proof. exact sub_spec. Qed.
Print Assumptions C01_minus.
Theorem C01_times : forall a b, num_tree a = true -> num_tree b = true -> conformable a b = true -> kb_np a b = false ->
  m_mul a b = s2 sc_mul a b.
Proof. exact mul_spec. Qed.
Print Assumptions C01_times.
Theorem C01_divide : forall a b, num_tree a = true -> num_tree b = true -> conformable a b = true -> kb_np a b = false ->
  nonzero_tree b = true -> m_div a b = s2 sc_div a b.
Proof. exact div_spec. Qed.
Print Assumptions C01_divide.
Theorem C01_min : forall a b v, conformable a b = true -> kb_vec a b = false -> norm v = v ->
  num_tree a = true -> num_tree b = true -> s2 sc_min a b = Ok v -> m_min a b = Ok v.
Proof. exact min_spec. Qed.
Print Assumptions C01_min.
Theorem C01_max : forall a b v, conformable a b = true -> kb_vec a b = false -> norm v = v ->
  num_tree a = true -> num_tree b = true -> s2 sc_max a b = Ok v -> m_max a b = Ok v.
Proof. exact max_spec. Qed.
Print Assumptions C01_max.
Theorem C01_remainder : forall a b v, conformable a b = true -> kb_vec a b = false -> norm v = v ->
  num_tree a = true -> num_tree b = true -> s2 sc_fmod a b = Ok v -> m_rem a b = Ok v.
Proof. exact rem_spec. Qed.
Print Assumptions C01_remainder.
Theorem C01_equal : forall a b v, conformable a b = true -> kb_vec a b = false -> norm v = v ->
  s2 sc_equal a b = Ok v -> m_equal a b = Ok v.
Proof. exact equal_spec. Qed.
Print Assumptions C01_equal.
Theorem C01_less : forall a b v, conformable a b = true -> kb_vec a b = false -> norm v = v ->
  num_tree a = true -> num_tree b = true -> s2 sc_less a b = Ok v -> m_less a b = Ok v.
Proof. exact less_spec. Qed.
Print Assumptions C01_less.
Theorem C01_more : forall a b v, conformable a b = true -> kb_vec a b = false -> norm v = v ->
  num_tree a = true -> num_tree b = true -> s2 sc_more a b = Ok v -> m_more a b = Ok v.
Proof. exact more_spec. Qed.
Print Assumptions C01_more.
Theorem C01_integer_divide : forall a b v, conformable a b = true -> kb_vec a b = false -> norm v = v ->
  num_tree a = true -> num_tree b = true -> nonzero_tree b = true -> s2 sc_idiv a b = Ok v -> m_idiv a b = Ok v.
Proof. exact idiv_spec. Qed.
Print Assumptions C01_integer_divide.
(* T1.op in the form "inside the domain the reference defines, outside every known-finding class, the verb returns
   the prescribed value": exactly the predicates dom_dyad / k_dyad the harness uses as its property oracle *)
Theorem C01_plus_holds_outside_K : forall a b, canonical a && canonical b = true ->
  dom_dyad "eval_dyad_add" a b = true -> k_dyad "eval_dyad_add" a b = ""%string ->
  m_dyad "eval_dyad_add" a b = s_dyad "eval_dyad_add" a b.
Proof. exact plus_holds_outside_K. Qed.
Print Assumptions C01_plus_holds_outside_K.
Theorem C01_minus_holds_outside_K : forall a b, canonical a && canonical b = true ->
  dom_dyad "eval_dyad_subtract" a b = true -> k_dyad "eval_dyad_subtract" a b = ""%string ->
  m_dyad "eval_dyad_subtract" a b = s_dyad "eval_dyad_subtract" a b.
Proof. exact minus_holds_outside_K. Qed.
Print Assumptions C01_minus_holds_outside_K.
Theorem C01_times_holds_outside_K : forall a b, canonical a && canonical b = true ->
  dom_dyad "eval_dyad_multiply" a b = true -> k_dyad "eval_dyad_multiply" a b = ""%string ->
  m_dyad "eval_dyad_multiply" a b = s_dyad "eval_dyad_multiply" a b.
Proof. exact times_holds_outside_K. Qed.
Print Assumptions C01_times_holds_outside_K.
Theorem C01_divide_holds_outside_K : forall a b, canonical a && canonical b = true ->
  dom_dyad "eval_dyad_divide" a b = true -> k_dyad "eval_dyad_divide" a b = ""%string ->
  m_dyad "eval_dyad_divide" a b = s_dyad "eval_dyad_divide" a b.
Proof. exact divide_holds_outside_K. Qed.
Print Assumptions C01_divide_holds_outside_K.
Theorem C01_equal_holds_outside_K : forall a b v, canonical a && canonical b = true ->
  dom_dyad "eval_dyad_equal" a b = true -> k_dyad "eval_dyad_equal" a b = ""%string ->
  s_dyad "eval_dyad_equal" a b = Ok v -> m_dyad "eval_dyad_equal" a b = Ok v.
Proof. exact equal_holds_outside_K. Qed.
Print Assumptions C01_equal_holds_outside_K.
Theorem C01_less_holds_outside_K : forall a b v, canonical a && canonical b = true ->
  dom_dyad "eval_dyad_less" a b = true -> k_dyad "eval_dyad_less" a b = ""%string ->
  s_dyad "eval_dyad_less" a b = Ok v -> m_dyad "eval_dyad_less" a b = Ok v.
Proof. exact less_holds_outside_K. Qed.
Print Assumptions C01_less_holds_outside_K.
Theorem C01_more_holds_outside_K : forall a b v, canonical a && canonical b = true ->
  dom_dyad "eval_dyad_more" a b = true -> k_dyad "eval_dyad_more" a b = ""%string ->
  s_dyad "eval_dyad_more" a b = Ok v -> m_dyad "eval_dyad_more" a b = Ok v.
Proof. exact more_holds_outside_K. Qed.
Print Assumptions C01_more_holds_outside_K.
Theorem C01_min_holds_outside_K : forall a b v, canonical a && canonical b = true ->
  dom_dyad "eval_dyad_minimum" a b = true -> k_dyad "eval_dyad_minimum" a b = ""%string ->
  s_dyad "eval_dyad_minimum" a b = Ok v -> m_dyad "eval_dyad_minimum" a b = Ok v.
Proof. exact min_holds_outside_K. Qed.
Print Assumptions C01_min_holds_outside_K.
Theorem C01_max_holds_outside_K : forall a b v, canonical a && canonical b = true ->
  dom_dyad "eval_dyad_maximum" a b = true -> k_dyad "eval_dyad_maximum" a b = ""%string ->
  s_dyad "eval_dyad_maximum" a b = Ok v -> m_dyad "eval_dyad_maximum" a b = Ok v.
Proof. exact max_holds_outside_K. Qed.
Print Assumptions C01_max_holds_outside_K.
Theorem C01_remainder_holds_outside_K : forall a b v, canonical a && canonical b = true ->
  dom_dyad "eval_dyad_remainder" a b = true -> k_dyad "eval_dyad_remainder" a b = ""%string ->
  s_dyad "eval_dyad_remainder" a b = Ok v -> m_dyad "eval_dyad_remainder" a b = Ok v.
Proof. exact remainder_holds_outside_K. Qed.
Print Assumptions C01_remainder_holds_outside_K.
Theorem C01_idiv_holds_outside_K : forall a b v, canonical a && canonical b = true ->
  dom_dyad "eval_dyad_integer_divide" a b = true -> k_dyad "eval_dyad_integer_divide" a b = ""%string ->
  s_dyad "eval_dyad_integer_divide" a b = Ok v -> m_dyad "eval_dyad_integer_divide" a b = Ok v.
Proof. exact idiv_holds_outside_K. Qed.
Print Assumptions C01_idiv_holds_outside_K.
Theorem C01_power_holds_outside_K : forall a b v, canonical a && canonical b = true ->
  dom_dyad "eval_dyad_power" a b = true -> k_dyad "eval_dyad_power" a b = ""%string ->
  s_dyad "eval_dyad_power" a b = Ok v -> m_dyad "eval_dyad_power" a b = Ok v.
Proof. exact power_holds_outside_K. Qed.
Print Assumptions C01_power_holds_outside_K.
(* Index-in-Depth: one index per level down to an atom, any nesting (matrices, higher rank, ragged lists) *)
Theorem C01_index_in_depth : forall a b, canonical a && canonical b = true ->
  dom_dyad "eval_dyad_index_in_depth" a b = true ->
  m_dyad "eval_dyad_index_in_depth" a b = s_dyad "eval_dyad_index_in_depth" a b.
Proof. exact index_in_depth_holds. Qed.
Print Assumptions C01_index_in_depth.
(* strings, characters and symbols are compared as wholes *)
Theorem C01_less_atoms : forall a b, is_arr a = false -> is_arr b = false -> m_less a b = sc_less a b.
Proof. exact less_atoms. Qed.
Print Assumptions C01_less_atoms.
Theorem C01_equal_atoms : forall a b, is_arr a = false -> is_arr b = false -> m_equal a b = sc_equal a b.
Proof. exact equal_atoms. Qed.
Print Assumptions C01_equal_atoms.

(* ---- T1.kind ---- *)
Theorem C01_kind_integers_closed : forall x y,
  (exists z, sc_add (VI x) (VI y) = Ok (VI z)) /\ (exists z, sc_sub (VI x) (VI y) = Ok (VI z)) /\
  (exists z, sc_mul (VI x) (VI y) = Ok (VI z)) /\ (exists z, sc_min (VI x) (VI y) = Ok (VI z)) /\
  (exists z, sc_max (VI x) (VI y) = Ok (VI z)) /\ (exists z, sc_fmod (VI x) (VI y) = Ok (VI z)) /\
  (y <> 0 -> sc_idiv (VI x) (VI y) = Ok (VI (Z.quot x y))).
Proof. exact kind_int_closed. Qed.
Print Assumptions C01_kind_integers_closed.
Theorem C01_kind_divide_is_real : forall a b r, sc_div a b = Ok r -> exists x, r = VR x.
Proof. exact kind_divide_real. Qed.
Print Assumptions C01_kind_divide_is_real.
Theorem C01_kind_comparison_is_bit : forall a b r, sc_less a b = Ok r \/ sc_equal a b = Ok r -> r = VI 0 \/ r = VI 1.
Proof. exact kind_compare_bit. Qed.
Print Assumptions C01_kind_comparison_is_bit.
Theorem C01_kind_floor_is_integer : forall a r, s_floor_fits a = true -> s_floor a = Ok r -> exists z, r = VI z.
Proof. exact kind_floor_int. Qed.
Print Assumptions C01_kind_floor_is_integer.

(* ---- structural verbs with counts, at the level of the dispatcher (m_dyad / m_monad by Python function name) ---- *)
(* Take: any count (negative, overshooting: cycling), strings and every list — matrices and higher rank cycle
   through their rows since the fix: commit *)
Theorem C01_take : forall n b, canonical b = true ->
  dom_dyad "eval_dyad_take" (VI n) b = true ->
  m_dyad "eval_dyad_take" (VI n) b = s_dyad "eval_dyad_take" (VI n) b.
Proof. exact take_holds. Qed.
Print Assumptions C01_take.

(* Take in T1.op form: inside its domain and outside the known-finding classes (homogenise, take-matrix) — this
   includes matrices and higher-rank arrays when the count does not exceed the number of rows *)
Theorem C01_take_holds_outside_K : forall a b, canonical a && canonical b = true ->
  dom_dyad "eval_dyad_take" a b = true -> k_dyad "eval_dyad_take" a b = ""%string ->
  m_dyad "eval_dyad_take" a b = s_dyad "eval_dyad_take" a b.
Proof. exact take_holds_outside_K. Qed.
Print Assumptions C01_take_holds_outside_K.

(* Drop: all of its domain *)
Theorem C01_drop : forall a b, canonical a && canonical b = true ->
  dom_dyad "eval_dyad_drop" a b = true ->
  m_dyad "eval_dyad_drop" a b = s_dyad "eval_dyad_drop" a b.
Proof. exact drop_holds. Qed.
Print Assumptions C01_drop.

(* Rotate: all of its domain (rows of matrices included) — holds because the regenerated flag says np.roll is
   called with axis=0 (fix: commit); with the flag false the statement is refuted below *)
Theorem C01_rotate : forall a b, canonical a && canonical b = true ->
  dom_dyad "eval_dyad_rotate" a b = true ->
  m_dyad "eval_dyad_rotate" a b = s_dyad "eval_dyad_rotate" a b.
Proof. exact (rotate_holds eq_refl). Qed.
Print Assumptions C01_rotate.

(* Cut: positions given as one integer or a 1-D list of integers, non-decreasing within 0..#b; b a non-empty list or string *)
Theorem C01_cut : forall a b, canonical a && canonical b = true ->
  dom_dyad "eval_dyad_cut" a b = true ->
  m_dyad "eval_dyad_cut" a b = s_dyad "eval_dyad_cut" a b.
Proof. exact cut_holds. Qed.
Print Assumptions C01_cut.

(* Split: one positive size or a 1-D list of positive sizes (cycling), lists and strings, last segment shorter —
   holds because the regenerated flag says a single size is cut at its multiples (fix: commit) *)
Theorem C01_split : forall a b, canonical a && canonical b = true ->
  dom_dyad "eval_dyad_split" a b = true ->
  m_dyad "eval_dyad_split" a b = s_dyad "eval_dyad_split" a b.
Proof. exact (split_dispatch_holds eq_refl). Qed.
Print Assumptions C01_split.

(* Reverse: every operand, atoms included — holds because the regenerated flag says atoms are returned unchanged *)
Theorem C01_reverse : forall a, canonical a = true ->
  m_monad "eval_monad_reverse" a = s_monad "eval_monad_reverse" a.
Proof. exact (reverse_holds eq_refl). Qed.
Print Assumptions C01_reverse.

(* Join: every pair of operands (two characters excepted), outside the classes "join-ragged" (member arrays of equal
   length but different shape: ValueError) and "homogenise" (the joined list would be homogenised) *)
Theorem C01_join : forall a b, canonical a && canonical b = true ->
  dom_dyad "eval_dyad_join" a b = true ->
  norm (VL (members a ++ members b)) = VL (members a ++ members b) ->
  m_dyad "eval_dyad_join" a b = s_dyad "eval_dyad_join" a b.
Proof. exact join_holds. Qed.
Print Assumptions C01_join.

(* Match: kg_equal, given the representation (numeric ndarray / object ndarray of members, recursively) of both operands
   as explicit inputs, returns the structural equality of the abstract values for EVERY valid pair of representations —
   so Match (and Find with a list needle) cannot depend on whether an operand was written as a literal or computed *)
Theorem C01_kg_equal_depends_on_value_only : kg_equal_ints_exact = true -> forall fuel a ra b rb,
  (depth a + depth b < fuel)%nat ->
  valid_rep a ra = true -> valid_rep b rb = true ->
  match_kinds_ok a b = true -> k_close a b = false ->
  kg_equal_rep false fuel a ra b rb = Ok (s_same a b).
Proof. exact kg_equal_rep_spec. Qed.
Print Assumptions C01_kg_equal_depends_on_value_only.
Theorem C01_match_representation_independent : forall fuel a ra ra' b rb rb',
  (depth a + depth b < fuel)%nat ->
  valid_rep a ra = true -> valid_rep a ra' = true -> valid_rep b rb = true -> valid_rep b rb' = true ->
  match_kinds_ok a b = true -> k_close a b = false ->
  kg_equal_rep false fuel a ra b rb = kg_equal_rep false fuel a ra' b rb'.
Proof. exact (kg_equal_rep_independent eq_refl). Qed.
Print Assumptions C01_match_representation_independent.
(* Match at the dispatcher; closed over the regenerated flags: integers compared exactly (fix: commit), no shape early exit *)
Theorem C01_match : forall a b, canonical a && canonical b = true -> dom_dyad "eval_dyad_match" a b = true ->
  m_dyad "eval_dyad_match" a b = s_dyad "eval_dyad_match" a b.
Proof. exact (match_holds eq_refl eq_refl). Qed.
Print Assumptions C01_match.
(* Find in a list: the positions of the members that match the needle (any needle: atom, string, symbol, list;
   any haystack: vector, matrix, nested / mixed list) — closed over the same two regenerated flags *)
Theorem C01_find_in_list : forall l b, canonical (VL l) && canonical b = true ->
  dom_dyad "eval_dyad_find" (VL l) b = true ->
  m_dyad "eval_dyad_find" (VL l) b = s_dyad "eval_dyad_find" (VL l) b.
Proof. exact (find_list_holds eq_refl eq_refl). Qed.
Print Assumptions C01_find_in_list.
(* with an early exit on unequal .shape the result depends on the representation: a slice of a mixed list vs a literal *)
Theorem C01_match_shape_exit_refuted :
  let a := VL [VL [VI 1; VI 2]; VL [VI 3; VI 4]] in
  valid_rep a (RO [RN; RN]) = true /\ valid_rep a RN = true /\
  kg_equal_rep true 10 a (RO [RN; RN]) a RN = Ok false /\ kg_equal_rep false 10 a (RO [RN; RN]) a RN = Ok true /\ s_same a a = true.
Proof. exact shape_exit_refuted. Qed.

(* Index: a list or string at an in-range integer or at a 1-D list of in-range integers (any order, repeats) *)
Theorem C01_index : forall a b, canonical a && canonical b = true ->
  dom_dyad "eval_dyad_at_index" a b = true ->
  (forall l zs, a = VL l -> ints_of (members b) = Some zs -> is_arr b = true ->
     norm (VL (map (ix VU l) zs)) = VL (map (ix VU l) zs)) ->
  m_dyad "eval_dyad_at_index" a b = s_dyad "eval_dyad_at_index" a b.
Proof. exact index_holds. Qed.
Print Assumptions C01_index.

(* ---- atomic monads: vec_fn applies the scalar function through any nesting, whatever the leaves ---- *)
Theorem C01_atomic_vec_fn : forall (sf : val -> res) fuel a, (depth a < fuel)%nat -> vec1 fuel (leaf1 sf) a = s1 sf a.
Proof. exact vec1_spec. Qed.
Print Assumptions C01_atomic_vec_fn.
Theorem C01_negate : forall a, canonical a = true -> m_monad "eval_monad_negate" a = s_monad "eval_monad_negate" a.
Proof. exact negate_holds. Qed.
Print Assumptions C01_negate.
(* closed over the regenerated flag: floor_to_int keeps the real unless |floor| < 2.0**63, strictly *)
Theorem C01_floor : forall a, canonical a = true -> all_leaves s_floor_fits a = true ->
  m_monad "eval_monad_floor" a = s_monad "eval_monad_floor" a.
Proof. exact (floor_holds eq_refl). Qed.
Theorem C01_floor_never_wraps : forall r z, rfloor_exact r = Some z -> in_guard true z = true -> s_floor (VR r) = Ok (VI z).
Proof. exact floor_no_wrap. Qed.
Print Assumptions C01_floor_never_wraps.
Theorem C01_floor_guard_refuted_with_le :
  let r := real_of_bits 4890909195324358656 in
  rfloor_exact r = Some two63 /\ sc_floor_gen false (VR r) = Ok (VI int64_min) /\ s_floor (VR r) = Ok (VR r).
Proof. exact floor_guard_refuted. Qed.

(* ---- verbs are functions of the operand VALUES: no eval_* function stores into a parameter (regenerated flag), so an
   operand object that is used again — a literal in a function body called twice, a variable, the body of Each — has
   the same value at every use: every call returns what the verb returns on that value, and the operand is unchanged ---- *)
(* the scan treats arrays returned by str_to_char_array / kg_asarray / np.array as fresh objects: the second flag says no
   backend helper hands out a cached or module-level array (a memoised character array would be written by Amend) *)
Theorem C01_operands_are_not_written : forall (verb : val -> val -> res) a bs,
  run_shared (verbs_do_not_write_operands && no_cached_arrays_in_backends) verb (Some a) bs = (map (verb a) bs, Some a).
Proof. exact (shared_operand (verbs_do_not_write_operands && no_cached_arrays_in_backends) eq_refl). Qed.
Print Assumptions C01_operands_are_not_written.
Theorem C01_operand_write_refuted : forall (verb : val -> val -> res) a b1 b2,
  fst (run_shared false verb (Some a) [b1; b2]) = [verb a b1; Unmod].
Proof. exact shared_operand_refuted. Qed.
Print Assumptions C01_floor.
Theorem C01_reciprocal : forall a, canonical a = true -> m_monad "eval_monad_reciprocal" a = s_monad "eval_monad_reciprocal" a.
Proof. exact reciprocal_holds. Qed.
Print Assumptions C01_reciprocal.
(* ---- simple monads ---- *)
Theorem C01_atom : forall a, canonical a = true -> m_monad "eval_monad_atom" a = s_monad "eval_monad_atom" a.
Proof. exact atom_holds. Qed.
Print Assumptions C01_atom.
Theorem C01_size : forall a, canonical a = true -> dom_monad "eval_monad_size" a = true ->
  m_monad "eval_monad_size" a = s_monad "eval_monad_size" a.
Proof. exact size_holds. Qed.
Print Assumptions C01_size.
Theorem C01_first : forall a, canonical a = true ->
  m_monad "eval_monad_first" a = s_monad "eval_monad_first" a.
Proof. exact first_holds. Qed.
Print Assumptions C01_first.
Theorem C01_enumerate : forall a, canonical a = true -> m_monad "eval_monad_enumerate" a = s_monad "eval_monad_enumerate" a.
Proof. exact enumerate_holds. Qed.
Print Assumptions C01_enumerate.
Theorem C01_not : forall a, canonical a = true -> dom_monad "eval_monad_not" a = true ->
  m_monad "eval_monad_not" a = s_monad "eval_monad_not" a.
Proof. exact not_holds. Qed.
Print Assumptions C01_not.
Theorem C01_list : forall a, canonical a = true -> norm (VL [a]) = VL [a] ->
  m_monad "eval_monad_list" a = s_monad "eval_monad_list" a.
Proof. exact list_holds. Qed.
Print Assumptions C01_list.

(* Group: the model follows the pairwise Match loop of eval_monad_groupby (np.unique with first indices for strings and
   numeric vectors); the result is one group per member that matches no earlier member, in order of first appearance,
   each listing the positions of the members that match it — for strings, vectors, mixed and nested lists on which Match
   settles the kinds, has no near-equal reals and is an equivalence (decidable checks in dom_monad) *)
Theorem C01_group : forall a, canonical a = true -> dom_monad "eval_monad_groupby" a = true ->
  m_monad "eval_monad_groupby" a = s_monad "eval_monad_groupby" a.
Proof. exact (group_holds eq_refl eq_refl). Qed.
Print Assumptions C01_group.
(* ... and these groups are the classes of Match: every position lies in the group of a key, and two keys never match
   (so, by transitivity, no position lies in two groups) *)
Theorem C01_groups_partition : forall (E : val -> val -> bool) l,
  (forall x, In x l -> E x x = true) ->
  (forall x y, In x l -> In y l -> E x y = true -> E y x = true) ->
  (forall x y z, In x l -> In y l -> In z l -> E x y = true -> E y z = true -> E x z = true) ->
  (forall j, (j < List.length l)%nat -> exists k, In k (firsts E VU l) /\ In j (npos E k 0 l)) /\
  sep E (firsts E VU l).
Proof. exact groups_partition. Qed.
Print Assumptions C01_groups_partition.

(* the dispatch tables of create_monad_functions / create_dyad_functions are the ones the model was written
   against, every modelled verb is still dispatched, and Split / Reshape carry their fix: *)
Theorem C01_all_modelled_verbs_present : check_tables = true.
Proof. exact tables_checked. Qed.
Print Assumptions C01_all_modelled_verbs_present.
Theorem C01_reshape_fix_flag : reshape_guards_symbols = true.
Proof. exact eq_refl. Qed.

(* ---- the full statement does not hold of the faithful model: one witness per known-finding class,
        each inside the verb's domain, each replayed on the implementation at every run ---- *)
Definition C01_full_statement : Prop :=
  (forall f a b, dom_dyad f a b = true -> m_dyad f (norm a) (norm b) = s_dyad f a b) /\
  (forall f a, dom_monad f a = true -> m_monad f (norm a) = s_monad f a).

Theorem C01_homogenise_refuted : refutes_m "homogenise" "eval_monad_first" (VL [VI 1; r25]) = true.
Proof. exact refuted_homogenise. Qed.
Theorem C01_broadcast_refuted : refutes_d "broadcast" "eval_dyad_add" (VL [VI 1; VI 2]) m22 = true.
Proof. exact refuted_broadcast. Qed.
Theorem C01_match_ints_refuted_without_fix : isclose_gen false (VI 100000) (VI 100001) = true /\ s_same (VI 100000) (VI 100001) = false.
Proof. exact match_ints_without_fix. Qed.


(* the statements C01_rotate / C01_reverse are false of the code before the fix: commits (flag = false) *)
Theorem C01_rotate_refuted_without_axis0 :
  res_eqb (m_rotate_gen false (VI 1) (VL [VL [VI 1; VI 2]; VL [VI 4; VI 5]; VL [VI 5; VI 6]]))
          (s_dyad "eval_dyad_rotate" (VI 1) (VL [VL [VI 1; VI 2]; VL [VI 4; VI 5]; VL [VI 5; VI 6]])) = false.
Proof. exact rotate_without_axis0. Qed.
Theorem C01_split_refuted_without_fix :
  res_eqb (m_split_gen false (VI 3) (VL [VI 1; VI 2; VI 3; VI 4])) (s_dyad "eval_dyad_split" (VI 3) (VL [VI 1; VI 2; VI 3; VI 4])) = false.
Proof. exact split_without_fix. Qed.
Theorem C01_reverse_refuted_without_guard :
  m_reverse_gen false (VI 1) = Err /\ s_monad "eval_monad_reverse" (VI 1) = Ok (VI 1).
Proof. exact reverse_without_guard. Qed.

(* ---- non-vacuity: concrete non-trivial operands meet the hypotheses ---- *)
Example C01_plus_example :
  let a := VL [VI 1; VL [VI 2; VR (real_of_bits 4612811918334230528)]] in   (* [1 [2 2.5]] *)
  let b := VL [VL [VI 10; VI 20]; VI 5] in                                  (* [[10 20] 5]  *)
  num_tree a = true /\ num_tree b = true /\ conformable a b = true /\ kb_np a b = false /\
  res_eqb (m_add a b) (Ok (VL [VL [VI 11; VI 21]; VL [VI 7; VR (real_of_bits 4620130267728707584)]])) = true.
Proof. vm_compute. repeat split; reflexivity. Qed.

Example C01_equal_example :
  let a := VL [VS [97; 98]; VL [VI 1; VI 2]] in      (* ["ab" [1 2]] *)
  let b := VL [VS [97; 98]; VI 2] in                  (* ["ab" 2]     *)
  conformable a b = true /\ kb_vec a b = false /\
  s2 sc_equal a b = Ok (VL [VI 1; VL [VI 0; VI 1]]) /\ m_equal a b = Ok (VL [VI 1; VL [VI 0; VI 1]]).
Proof. vm_compute. repeat split; reflexivity. Qed.

Example C01_take_example :
  dom_dyad "eval_dyad_take" (VI (-5)) (VL [VI 1; VI 2; VI 3]) = true /\
  m_dyad "eval_dyad_take" (VI (-5)) (VL [VI 1; VI 2; VI 3]) = Ok (VL [VI 2; VI 3; VI 1; VI 2; VI 3]) /\
  m_dyad "eval_dyad_take" (VI 7) (VS [97; 98; 99]) = Ok (VS [97; 98; 99; 97; 98; 99; 97]).
Proof. vm_compute. repeat split; reflexivity. Qed.

Example C01_split_cut_example :
  m_dyad "eval_dyad_split" (VL [VI 1; VI 2]) (VL [VI 1; VI 2; VI 3; VI 4; VI 5; VI 6])
    = Ok (VL [VL [VI 1]; VL [VI 2; VI 3]; VL [VI 4]; VL [VI 5; VI 6]]) /\
  m_dyad "eval_dyad_split" (VI 3) (VS [97; 98; 99; 100; 101; 102; 103]) = Ok (VL [VS [97; 98; 99]; VS [100; 101; 102]; VS [103]]) /\
  dom_dyad "eval_dyad_cut" (VL [VI 1; VI 1]) (VL [VI 1; VI 2]) = true /\
  m_dyad "eval_dyad_cut" (VL [VI 1; VI 1]) (VL [VI 1; VI 2]) = Ok (VL [VL [VI 1]; VL []; VL [VI 2]]).
Proof. vm_compute. repeat split; reflexivity. Qed.

Example C01_rotate_example :
  m_dyad "eval_dyad_rotate" (VI 1) (VL [VL [VI 1; VI 2]; VL [VI 4; VI 5]; VL [VI 5; VI 6]])
  = Ok (VL [VL [VI 5; VI 6]; VL [VI 1; VI 2]; VL [VI 4; VI 5]]).
Proof. vm_compute. reflexivity. Qed.
