(* C01/Run.v — S-expression front end of model and spec, extracted to OCaml.
   requests:   (m <python function name> a)  |  (d <python function name> a b)   operands in the canon.py encoding
   answer:     (<model> <spec> <dom 0|1> (k <class or empty>) (canon <0|1>))
               <model>, <spec> = (ok v) | (err) | (unmod) | (nofuel) *)
From Coq Require Import ZArith List String Ascii.
From KB Require Import Sx.
From C01 Require Import Generated Model Spec.
Import ListNotations.
Open Scope Z_scope.

Fixpoint str_of_zs (l : list Z) : string :=
  match l with
  | [] => EmptyString
  | z :: r => String (ascii_of_nat (Z.to_nat z)) (str_of_zs r)
  end.

Fixpoint val_of_sx (fuel : nat) (x : sx) : option val :=
  match fuel with O => None | S f =>
  match x with
  | SL (SS t :: rest) =>
      if is_tag "i" t then match rest with [SZ z] => Some (VI z) | _ => None end else
      if is_tag "r" t then match rest with [SZ z] => Some (VR (real_of_bits z)) | _ => None end else
      if is_tag "c" t then match rest with [SZ z] => Some (VC z) | _ => None end else
      if is_tag "u" t then Some VU else
      if is_tag "s" t then option_map VS (sx_get_zs rest) else
      if is_tag "y" t then option_map VY (sx_get_zs rest) else
      if is_tag "l" t then
        option_map VL
          ((fix go (l : list sx) : option (list val) :=
              match l with
              | [] => Some []
              | a :: r => match val_of_sx f a, go r with Some v, Some vs => Some (v :: vs) | _, _ => None end
              end) rest) else None
  | _ => None
  end end.

Fixpoint sx_of_val (v : val) : sx :=
  match v with
  | VI z => SL [sx_w "i"; SZ z]
  | VR r => SL [sx_w "r"; SZ (bits_of_real r)]
  | VC z => SL [sx_w "c"; SZ z]
  | VS s => SL (sx_w "s" :: map SZ s)
  | VY s => SL (sx_w "y" :: map SZ s)
  | VL l => SL (sx_w "l" :: map sx_of_val l)
  | VU => SL [sx_w "u"; SZ 1]
  end.

Definition sx_of_res (r : res) : sx :=
  match r with
  | Ok v => SL [sx_w "ok"; sx_of_val v]
  | Err => SL [sx_w "err"]
  | Unmod => SL [sx_w "unmod"]
  | NoFuel => SL [sx_w "nofuel"]
  end.

Definition sx_str (s : string) : sx := SL [sx_w "k"; SS (tag s)].

Definition dispatch (x : sx) : sx :=
  match x with
  | SL [SS t; SS f; a] =>
      if is_tag "m" t then
        match val_of_sx 1000 a with
        | Some va =>
            let fn := str_of_zs f in
            let d := dom_monad fn va in
            SL [sx_of_res (m_monad fn (norm va)); sx_of_res (if d then s_monad fn va else Err); sx_bool d;
                sx_str (if d then k_monad fn va else EmptyString); sx_bool (canonical va)]
        | None => sx_err "operand"
        end
      else sx_err "op"
  | SL [SS t; SS f; a; b] =>
      if is_tag "d" t then
        match val_of_sx 1000 a, val_of_sx 1000 b with
        | Some va, Some vb =>
            let fn := str_of_zs f in
            let d := dom_dyad fn va vb in
            SL [sx_of_res (m_dyad fn (norm va) (norm vb)); sx_of_res (if d then s_dyad fn va vb else Err); sx_bool d;
                sx_str (if d then k_dyad fn va vb else EmptyString); sx_bool (canonical va && canonical vb)]
        | _, _ => sx_err "operand"
        end
      else sx_err "op"
  | _ => sx_err "shape"
  end.

Require Import ExtrOcamlBasic.
Extraction Language OCaml.
Extraction "extracted.ml" dispatch drv_add drv_mul drv_opp drv_div_eucl drv_ltb drv_eqb.
