(* C13/Properties.v — property theorems only: statement, `exact`, Print Assumptions. *)
From Coq Require Import ZArith List Bool.
From Coq Require Import Permutation.
From C13 Require Import Generated Model Proofs ProofsSend Session ProofsSession.
Import ListNotations.
Open Scope Z_scope.

(* Messages are delivered intact, one by one and in order, however the byte
   stream is split into or merged across network reads: ANY number of frames,
   ANY fragmentation (any number and size of chunks, empty chunks included). *)
Theorem C13_frame_delivery : forall (msgs : list msg) (chunks : list (list byte)),
  forallb encodable msgs = true ->
  concat chunks = flat_map encode_message msgs ->
  feed_all dinit chunks = (dinit, msgs).
Proof. exact frame_delivery. Qed.
Print Assumptions C13_frame_delivery.

(* A stream cut inside a frame delivers exactly the complete frames before the
   cut and leaves the reader off a frame boundary (IncompleteReadError at EOF). *)
Theorem C13_cut_delivery : forall msgs m q r chunks,
  forallb encodable msgs = true -> encodable m = true ->
  encode_message m = q ++ r -> q <> [] -> r <> [] ->
  concat chunks = flat_map encode_message msgs ++ q ->
  exists s', feed_all dinit chunks = (s', msgs) /\ at_boundary s' = false.
Proof. exact cut_delivery. Qed.
Print Assumptions C13_cut_delivery.

Theorem C13_length_roundtrip : forall n, 0 <= n < 4294967296 -> dec32 (enc32 n) = n.
Proof. exact dec32_enc32. Qed.
Print Assumptions C13_length_roundtrip.

(* Every transportable value, :undefined included, is unchanged by transport
   and still tests as undefined.  Holds iff KGUndefined pickles by reference to
   the module-level singleton; the flag is regenerated from klongpy/types.py. *)
Theorem C13_transport_identity : forall v,
  transport undef_reduces_to_global v = v /\
  is_undefined (transport undef_reduces_to_global v) = is_undefined v.
Proof.
  exact (fun v =>
    conj (eq_ind_r (fun f => transport f v = v) (transport_id_true v) (eq_refl : undef_reduces_to_global = true))
         (proj2 (undefined_survives_iff undef_reduces_to_global) (eq_refl : undef_reduces_to_global = true) v)).
Qed.
Print Assumptions C13_transport_identity.

(* Any number of coroutines sending concurrently on the connection's writer, under
   ANY scheduling of their writes: the receiver gets every message intact, exactly
   once (a permutation of what was sent), whatever the fragmentation.  Needs a
   frame to be handed to the transport in one write() call (regenerated flag). *)
Theorem C13_concurrent_senders : forall msgs out,
  forallb encodable msgs = true ->
  wire (map (send_writes send_is_single_write) msgs) out ->
  exists perm, Permutation perm msgs /\ feed_all dinit out = (dinit, perm) /\
    forall chunks, concat chunks = concat out -> feed_all dinit chunks = (dinit, perm).
Proof.
  exact (eq_ind_r (fun f => forall msgs out, forallb encodable msgs = true -> wire (map (send_writes f) msgs) out ->
                     exists perm, Permutation perm msgs /\ feed_all dinit out = (dinit, perm) /\
                       forall chunks, concat chunks = concat out -> feed_all dinit chunks = (dinit, perm))
                  concurrent_senders_deliver (eq_refl : send_is_single_write = true)).
Qed.
Print Assumptions C13_concurrent_senders.

Theorem C13_split_writes_refuted :
  let pend := map (send_writes false) [mA; mB] in
  let out := run_sched pend [0%nat; 1%nat; 1%nat; 0%nat] in
  wire pend out /\ snd (feed_all dinit out) <> [mA; mB] /\ snd (feed_all dinit out) <> [mB; mA].
Proof. exact split_writes_refuted. Qed.

(* End to end: a client issuing any number of calls one after the other over the framed
   stream, under ANY fragmentation of every request and every response, gets for each call
   the response to its own request; the responses and the final server state are those of
   executing the same commands locally on the server interpreter (exec is arbitrary), and
   both stream readers end at a frame boundary.  Assumed of the environment: pickle round
   trip, 16-byte uuids, bodies below 2^32 bytes, fragmentation neither drops nor reorders.
   Needs the regenerated facts that `_listen` answers under the request's id and that
   `call` registers and sends under one id. *)
Theorem C13_session_equals_local :
  forall (state cmd resp : Type) (exec : state -> cmd -> resp * state)
         (enc_cmd : cmd -> list byte) (dec_cmd : list byte -> option cmd)
         (enc_resp : resp -> list byte) (dec_resp : list byte -> option resp)
         (call_id : nat -> list byte) (frag_req frag_resp : nat -> list byte -> list (list byte))
         (other_id : nat -> list byte),
    (forall c, dec_cmd (enc_cmd c) = Some c) -> (forall r, dec_resp (enc_resp r) = Some r) ->
    (forall k, length (call_id k) = 16%nat) ->
    (forall c, zlen (enc_cmd c) < 4294967296) -> (forall r, zlen (enc_resp r) < 4294967296) ->
    (forall k bs, concat (frag_req k bs) = bs) -> (forall k bs, concat (frag_resp k bs) = bs) ->
    forall cs k st,
      remote_session state cmd resp exec enc_cmd dec_cmd enc_resp dec_resp call_id frag_req frag_resp
                     (reply_uses_request_id && call_registers_and_sends_one_id) other_id k st dinit dinit cs =
      (map Some (fst (local_session state cmd resp exec st cs)), snd (local_session state cmd resp exec st cs), dinit, dinit).
Proof.
  exact (eq_ind_r (fun f => forall state cmd resp exec enc_cmd dec_cmd enc_resp dec_resp call_id frag_req frag_resp other_id,
           (forall c, dec_cmd (enc_cmd c) = Some c) -> (forall r, dec_resp (enc_resp r) = Some r) ->
           (forall k, length (call_id k) = 16%nat) ->
           (forall c, zlen (enc_cmd c) < 4294967296) -> (forall r, zlen (enc_resp r) < 4294967296) ->
           (forall k bs, concat (frag_req k bs) = bs) -> (forall k bs, concat (frag_resp k bs) = bs) ->
           forall cs k st,
             remote_session state cmd resp exec enc_cmd dec_cmd enc_resp dec_resp call_id frag_req frag_resp f other_id k st dinit dinit cs =
             (map Some (fst (local_session state cmd resp exec st cs)), snd (local_session state cmd resp exec st cs), dinit, dinit))
         session_equals_local (eq_refl : reply_uses_request_id && call_registers_and_sends_one_id = true)).
Qed.
Print Assumptions C13_session_equals_local.

Theorem C13_session_refuted_with_other_id :
  let exec := fun (st : Z) (c : Z) => (c + st, st + 1) in
  let enc := fun z : Z => [z] in
  let dec := fun l : list byte => match l with [z] => Some z | _ => None end in
  let cid := fun k : nat => repeat (Z.of_nat k) 16 in
  let oid := fun k : nat => repeat 255 16 in
  let frag := fun (k : nat) (bs : list byte) => [bs] in
  fst (fst (fst (remote_call Z Z Z exec enc dec enc dec cid frag frag false oid 0%nat 0 dinit dinit 7))) = None.
Proof. exact session_refuted_with_other_id. Qed.

(* The literal facts about the source the model relies on (sizes, format, order). *)
Theorem C13_tables_match_model :
  id_len = 16%nat /\ len_len = 4%nat /\ len_format_is_network_u32 = true /\
  frame_order_id_len_body = true /\ reads_id_len_body = true.
Proof. exact (conj eq_refl (conj eq_refl (conj eq_refl (conj eq_refl eq_refl)))). Qed.
Print Assumptions C13_tables_match_model.

(* Without that, the full statement is false: witness by computation. *)
Theorem C13_transport_refuted_without_reduce :
  exists v, is_undefined v = true /\ is_undefined (transport false v) = false.
Proof. exists (TUndef true). split; reflexivity. Qed.

(* Non-vacuity: hypotheses of the framing theorems are met by concrete frames. *)
Example C13_frame_example :
  let id := [1;2;3;4;5;6;7;8;9;10;11;12;13;14;15;16] in
  let m1 := (id, [128; 4; 75]) in let m2 := (id, []) in
  forallb encodable [m1; m2] = true /\
  feed_all dinit [firstn 5 (encode_message m1); skipn 5 (encode_message m1) ++ firstn 19 (encode_message m2); skipn 19 (encode_message m2)]
   = (dinit, [m1; m2]).
Proof. vm_compute. split; reflexivity. Qed.
