(* C13/Properties.v — property theorems only: statement, `exact`, Print Assumptions. *)
From Coq Require Import ZArith List Bool.
From Coq Require Import Permutation.
From C13 Require Import Generated Model Proofs ProofsSend.
Import ListNotations.
Open Scope Z_scope.

(* Messages are delivered intact, one by one and in order, however the byte
   stream is split into or merged across network reads: ANY number of frames,
   ANY fragmentation (any number and size of chunks, empty chunks included). *)
Theorem C13_frame_delivery : forall (msgs : list msg) (chunks : list (list byte)),
  forallb encodable msgs = true ->
  concat chunks = flat_map encode_message msgs ->
  feed_all dinit chunks = (dinit, msgs).
Proof. exact frame_delivery. Qed.
Print Assumptions C13_frame_delivery.

(* A stream cut inside a frame delivers exactly the complete frames before the
   cut and leaves the reader off a frame boundary (IncompleteReadError at EOF). *)
Theorem C13_cut_delivery : forall msgs m q r chunks,
  forallb encodable msgs = true -> encodable m = true ->
  encode_message m = q ++ r -> q <> [] -> r <> [] ->
  concat chunks = flat_map encode_message msgs ++ q ->
  exists s', feed_all dinit chunks = (s', msgs) /\ at_boundary s' = false.
Proof. exact cut_delivery. Qed.
Print Assumptions C13_cut_delivery.

Theorem C13_length_roundtrip : forall n, 0 <= n < 4294967296 -> dec32 (enc32 n) = n.
Proof. exact dec32_enc32. Qed.
Print Assumptions C13_length_roundtrip.

(* Every transportable value, :undefined included, is unchanged by transport
   and still tests as undefined.  Holds iff KGUndefined pickles by reference to
   the module-level singleton; the flag is regenerated from klongpy/types.py. *)
Theorem C13_transport_identity : forall v,
  transport undef_reduces_to_global v = v /\
  is_undefined (transport undef_reduces_to_global v) = is_undefined v.
Proof.
  exact (fun v =>
    conj (eq_ind_r (fun f => transport f v = v) (transport_id_true v) (eq_refl : undef_reduces_to_global = true))
         (proj2 (undefined_survives_iff undef_reduces_to_global) (eq_refl : undef_reduces_to_global = true) v)).
Qed.
Print Assumptions C13_transport_identity.

(* Any number of coroutines sending concurrently on the connection's writer, under
   ANY scheduling of their writes: the receiver gets every message intact, exactly
   once (a permutation of what was sent), whatever the fragmentation.  Needs a
   frame to be handed to the transport in one write() call (regenerated flag). *)
Theorem C13_concurrent_senders : forall msgs out,
  forallb encodable msgs = true ->
  wire (map (send_writes send_is_single_write) msgs) out ->
  exists perm, Permutation perm msgs /\ feed_all dinit out = (dinit, perm) /\
    forall chunks, concat chunks = concat out -> feed_all dinit chunks = (dinit, perm).
Proof.
  exact (eq_ind_r (fun f => forall msgs out, forallb encodable msgs = true -> wire (map (send_writes f) msgs) out ->
                     exists perm, Permutation perm msgs /\ feed_all dinit out = (dinit, perm) /\
                       forall chunks, concat chunks = concat out -> feed_all dinit chunks = (dinit, perm))
                  concurrent_senders_deliver (eq_refl : send_is_single_write = true)).
Qed.
Print Assumptions C13_concurrent_senders.

Theorem C13_split_writes_refuted :
  let pend := map (send_writes false) [mA; mB] in
  let out := run_sched pend [0%nat; 1%nat; 1%nat; 0%nat] in
  wire pend out /\ snd (feed_all dinit out) <> [mA; mB] /\ snd (feed_all dinit out) <> [mB; mA].
Proof. exact split_writes_refuted. Qed.

(* The literal facts about the source the model relies on (sizes, format, order). *)
Theorem C13_tables_match_model :
  id_len = 16%nat /\ len_len = 4%nat /\ len_format_is_network_u32 = true /\
  frame_order_id_len_body = true /\ reads_id_len_body = true.
Proof. exact (conj eq_refl (conj eq_refl (conj eq_refl (conj eq_refl eq_refl)))). Qed.
Print Assumptions C13_tables_match_model.

(* Without that, the full statement is false: witness by computation. *)
Theorem C13_transport_refuted_without_reduce :
  exists v, is_undefined v = true /\ is_undefined (transport false v) = false.
Proof. exists (TUndef true). split; reflexivity. Qed.

(* Non-vacuity: hypotheses of the framing theorems are met by concrete frames. *)
Example C13_frame_example :
  let id := [1;2;3;4;5;6;7;8;9;10;11;12;13;14;15;16] in
  let m1 := (id, [128; 4; 75]) in let m2 := (id, []) in
  forallb encodable [m1; m2] = true /\
  feed_all dinit [firstn 5 (encode_message m1); skipn 5 (encode_message m1) ++ firstn 19 (encode_message m2); skipn 19 (encode_message m2)]
   = (dinit, [m1; m2]).
Proof. vm_compute. split; reflexivity. Qed.
