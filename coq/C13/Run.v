(* C13/Run.v — S-expression front end of the model, extracted to OCaml.
   requests:
     (feed (c1 c2 ...))          ci = (b b ...)   -> (ok (msgs ((id...) (body...)) ...) (boundary 0|1) (phase p) (buffered n))
     (encode (id...) (body...))                    -> (ok (bytes ...)) | (err)
     (transport v)                                 -> v'      with v in the tval encoding below
     (isundef v)                                   -> 0 | 1 *)
From Coq Require Import ZArith List String.
From KB Require Import Sx.
From C13 Require Import Generated Model.
Import ListNotations.
Open Scope Z_scope.

Fixpoint sx_chunks (l : list sx) : option (list (list Z)) :=
  match l with
  | [] => Some []
  | c :: r =>
      match sx_as_zs c, sx_chunks r with
      | Some z, Some zs => Some (z :: zs)
      | _, _ => None
      end
  end.

(* number of messages delivered after each chunk (cumulative) *)
Fixpoint feed_counts (s : dstate) (n : nat) (chunks : list (list Z)) : list nat :=
  match chunks with
  | [] => []
  | c :: cs => let '(s1, m1) := feed s c in
               let n1 := (n + List.length m1)%nat in n1 :: feed_counts s1 n1 cs
  end.

Definition sx_msg (m : msg) : sx := SL [sx_zs (fst m); sx_zs (snd m)].

Definition sx_phase (p : phase) : sx :=
  match p with
  | WantId => sx_w "id"
  | WantLen _ => sx_w "len"
  | WantBody _ n => SL [sx_w "body"; SZ n]
  end.

Fixpoint tval_of_sx (fuel : nat) (x : sx) : option tval :=
  match fuel with O => None | S f =>
  match x with
  | SL (SS t :: rest) =>
      if is_tag "i" t then match rest with [SZ z] => Some (TInt z) | _ => None end else
      if is_tag "r" t then match rest with [SZ z] => Some (TReal z) | _ => None end else
      if is_tag "c" t then match rest with [SZ z] => Some (TChar z) | _ => None end else
      if is_tag "u" t then match rest with [SZ z] => Some (TUndef (Z.eqb z 1)) | _ => None end else
      if is_tag "s" t then option_map TStr (sx_get_zs rest) else
      if is_tag "y" t then option_map TSym (sx_get_zs rest) else
      if is_tag "l" t then
        option_map TList
          ((fix go (l : list sx) : option (list tval) :=
              match l with
              | [] => Some []
              | a :: r => match tval_of_sx f a, go r with Some v, Some vs => Some (v :: vs) | _, _ => None end
              end) rest) else
      if is_tag "d" t then
        option_map TDict
          ((fix go (l : list sx) : option (list (tval * tval)) :=
              match l with
              | [] => Some []
              | SL [k; v] :: r =>
                  match tval_of_sx f k, tval_of_sx f v, go r with
                  | Some k', Some v', Some kvs => Some ((k', v') :: kvs) | _, _, _ => None end
              | _ => None
              end) rest) else None
  | _ => None
  end end.

Fixpoint sx_of_tval (v : tval) : sx :=
  match v with
  | TInt z => SL [sx_w "i"; SZ z]
  | TReal z => SL [sx_w "r"; SZ z]
  | TChar z => SL [sx_w "c"; SZ z]
  | TStr s => SL (sx_w "s" :: map SZ s)
  | TSym s => SL (sx_w "y" :: map SZ s)
  | TList l => SL (sx_w "l" :: map sx_of_tval l)
  | TDict kvs => SL (sx_w "d" :: map (fun kv => SL [sx_of_tval (fst kv); sx_of_tval (snd kv)]) kvs)
  | TUndef c => SL [sx_w "u"; SZ (if c then 1 else 0)]
  end.

Definition dispatch (x : sx) : sx :=
  match x with
  | SL [SS t; SL chunks] =>
      if is_tag "feed" t then
        match sx_chunks chunks with
        | Some cs =>
            let '(s, ms) := feed_all dinit cs in
            SL [sx_w "ok"; SL (sx_w "msgs" :: map sx_msg ms);
                SL [sx_w "boundary"; sx_bool (at_boundary s)];
                SL [sx_w "phase"; sx_phase (ph s)];
                SL [sx_w "buffered"; sx_nat (List.length (buf s))];
                SL (sx_w "counts" :: map sx_nat (feed_counts dinit 0 cs))]
        | None => sx_err "feed"
        end
      else if is_tag "transport" t then
        match tval_of_sx 1000 (SL chunks) with
        | Some v => sx_of_tval (transport undef_reduces_to_global v)
        | None => sx_err "transport"
        end
      else if is_tag "isundef" t then
        match tval_of_sx 1000 (SL chunks) with
        | Some v => sx_bool (is_undefined (transport undef_reduces_to_global v))
        | None => sx_err "isundef"
        end
      else sx_err "op"
  | SL [SS t; SL id; SL body] =>
      if is_tag "sendwrites" t then
        match sx_get_zs id, sx_get_zs body with
        | Some i, Some b => SL (map sx_zs (send_writes send_is_single_write (i, b)))
        | _, _ => sx_err "sendwrites"
        end
      else if is_tag "encode" t then
        match sx_get_zs id, sx_get_zs body with
        | Some i, Some b =>
            if encodable (i, b) then SL [sx_w "ok"; sx_zs (encode_message (i, b))] else SL [sx_w "err"]
        | _, _ => sx_err "encode"
        end
      else sx_err "op"
  | _ => sx_err "shape"
  end.

Require Import ExtrOcamlBasic.
Extraction Language OCaml.
Extraction "extracted.ml" dispatch drv_add drv_mul drv_opp drv_div_eucl drv_ltb drv_eqb.
