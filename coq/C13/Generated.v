(* GENERATED from /repo by harness/c13.py on every run; do not edit *)
From Coq Require Import ZArith List.
Import ListNotations.
Definition undef_reduces_to_global : bool := true.
Definition len_format_is_network_u32 : bool := true.
Definition frame_order_id_len_body : bool := true.
Definition id_len : nat := 16.
Definition len_len : nat := 4.
Definition reads_id_len_body : bool := true.
