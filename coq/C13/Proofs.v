(* C13/Proofs.v — lemmas about the framing model. *)
From Coq Require Import ZArith List Bool Lia.
From C13 Require Import Model.
Import ListNotations.
Open Scope Z_scope.

(* ---- 4-byte big-endian length ---- *)
Lemma dec32_enc32 n : 0 <= n < 4294967296 -> dec32 (enc32 n) = n.
Proof.
  intros H. unfold dec32, enc32.
  assert (E1 : n / 16777216 = (n / 65536) / 256) by (rewrite Z.div_div by lia; reflexivity).
  assert (E2 : n / 65536 = (n / 256) / 256) by (rewrite Z.div_div by lia; reflexivity).
  assert (S0 : n / 16777216 < 256) by (apply Z.div_lt_upper_bound; lia).
  rewrite (Z.mod_small (n / 16777216)) by (split; [apply Z.div_pos; lia | lia]).
  pose proof (Z.div_mod n 256 ltac:(lia)) as D0.
  pose proof (Z.div_mod (n / 256) 256 ltac:(lia)) as D1.
  pose proof (Z.div_mod (n / 65536) 256 ltac:(lia)) as D2.
  rewrite <- E2 in D1. rewrite <- E1 in D2. lia.
Qed.

Lemma enc32_length n : length (enc32 n) = 4%nat.
Proof. reflexivity. Qed.

(* ---- list helpers ---- *)
Lemma zlen_app {A} (a b : list A) : zlen (a ++ b) = zlen a + zlen b.
Proof. unfold zlen. rewrite app_length. lia. Qed.

Lemma firstn_app_le {A} n (a b : list A) : (n <= length a)%nat -> firstn n (a ++ b) = firstn n a.
Proof. intros H. rewrite firstn_app. replace (n - length a)%nat with 0%nat by lia. simpl. apply app_nil_r. Qed.

Lemma skipn_app_le {A} n (a b : list A) : (n <= length a)%nat -> skipn n (a ++ b) = skipn n a ++ b.
Proof. intros H. rewrite skipn_app. replace (n - length a)%nat with 0%nat by lia. reflexivity. Qed.

Lemma firstn_exact {A} (a b : list A) : firstn (length a) (a ++ b) = a.
Proof. rewrite firstn_app, Nat.sub_diag, firstn_all. simpl. apply app_nil_r. Qed.

Lemma skipn_exact {A} (a b : list A) : skipn (length a) (a ++ b) = b.
Proof. rewrite skipn_app, Nat.sub_diag, skipn_all. reflexivity. Qed.

Lemma some_pair_inj {A B} (a c : A) (b d : B) : Some (a, b) = Some (c, d) -> a = c /\ b = d.
Proof. intros H; split; congruence. Qed.

(* ---- big-step runs of the reader coroutine ---- *)
Definition olist {A} (o : option A) : list A := match o with Some a => [a] | None => [] end.
Definition more (s : dstate) (c : list byte) : dstate := mk_dstate (buf s ++ c) (ph s).

Inductive runs : dstate -> list msg -> dstate -> Prop :=
| runs_stop s : try_read s = None -> runs s [] s
| runs_step s s1 om ms s2 :
    try_read s = Some (s1, om) -> runs s1 ms s2 -> runs s (olist om ++ ms) s2.

Lemma runs_det s ms1 s1 : runs s ms1 s1 -> forall ms2 s2, runs s ms2 s2 -> ms1 = ms2 /\ s1 = s2.
Proof.
  induction 1 as [s Hs | s sa om ms sb Hs Hr IH]; intros ms2 s2' H2.
  - inversion H2 as [? Hn | ? ? ? ? ? Hy ?]; subst; [auto | congruence].
  - inversion H2 as [? Hn | ? sa' om' ms' ? Hy Hr']; subst; [congruence|].
    rewrite Hs in Hy. inversion Hy; subst.
    destruct (IH _ _ Hr') as [-> ->]. auto.
Qed.

Lemma try_read_measure s s1 om : try_read s = Some (s1, om) -> (measure s1 < measure s)%nat.
Proof.
  unfold try_read, measure, zlen. destruct s as [b p]; cbv beta iota delta [buf ph].
  destruct p as [|id|id len]; cbv beta iota delta [phase_rank].
  - destruct (16 <=? _) eqn:E; [|discriminate]. intros H; apply some_pair_inj in H; destruct H as [<- <-]; cbv beta iota delta [buf ph phase_rank].
    apply Z.leb_le in E. rewrite skipn_length. lia.
  - destruct (4 <=? _) eqn:E; [|discriminate]. intros H; apply some_pair_inj in H; destruct H as [<- <-]; cbv beta iota delta [buf ph phase_rank].
    apply Z.leb_le in E. rewrite skipn_length. lia.
  - destruct (len <=? _) eqn:E; [|discriminate]. intros H; apply some_pair_inj in H; destruct H as [<- <-]; cbv beta iota delta [buf ph phase_rank].
    rewrite skipn_length. lia.
Qed.

Lemma drain_runs fuel : forall s acc, (measure s < fuel)%nat ->
  exists ms s', runs s ms s' /\ drain fuel s acc = (s', acc ++ ms).
Proof.
  induction fuel as [|f IH]; intros s acc Hm; [lia|].
  simpl. destruct (try_read s) as [[s1 om]|] eqn:E.
  - pose proof (try_read_measure _ _ _ E) as Hd.
    destruct om as [m|].
    + destruct (IH s1 (acc ++ [m]) ltac:(lia)) as (ms & s' & Hr & Hd').
      exists ([m] ++ ms), s'. split.
      * apply (runs_step s s1 (Some m) ms s' E Hr).
      * rewrite Hd'. rewrite <- app_assoc. reflexivity.
    + destruct (IH s1 acc ltac:(lia)) as (ms & s' & Hr & Hd').
      exists ms, s'. split.
      * apply (runs_step s s1 None ms s' E Hr).
      * exact Hd'.
  - exists [], s. split; [constructor; exact E | rewrite app_nil_r; reflexivity].
Qed.

Lemma feed_runs s c : exists ms s', runs (more s c) ms s' /\ feed s c = (s', ms).
Proof.
  unfold feed. destruct (drain_runs (fuel_for (more s c)) (more s c) []) as (ms & s' & Hr & Hd).
  - unfold fuel_for. lia.
  - exists ms, s'. split; [exact Hr | exact Hd].
Qed.

(* a read that succeeds still succeeds, with the same outcome, when more bytes
   are appended behind the buffered ones *)
Lemma try_read_more s s1 om c : try_read s = Some (s1, om) -> try_read (more s c) = Some (more s1 c, om).
Proof.
  unfold try_read, more. destruct s as [b p]; cbv beta iota delta [buf ph]. destruct p as [|id|id len].
  - destruct (16 <=? zlen b) eqn:E; [|discriminate]. intros H; apply some_pair_inj in H; destruct H as [<- <-]; cbv beta iota delta [buf ph more].
    apply Z.leb_le in E. unfold zlen in E.
    rewrite zlen_app. replace (16 <=? zlen b + zlen c) with true
      by (symmetry; apply Z.leb_le; unfold zlen; lia).
    rewrite firstn_app_le, skipn_app_le by lia. reflexivity.
  - destruct (4 <=? zlen b) eqn:E; [|discriminate]. intros H; apply some_pair_inj in H; destruct H as [<- <-]; cbv beta iota delta [buf ph more].
    apply Z.leb_le in E. unfold zlen in E.
    rewrite zlen_app. replace (4 <=? zlen b + zlen c) with true
      by (symmetry; apply Z.leb_le; unfold zlen; lia).
    rewrite firstn_app_le, skipn_app_le by lia. reflexivity.
  - destruct (len <=? zlen b) eqn:E; [|discriminate]. intros H; apply some_pair_inj in H; destruct H as [<- <-]; cbv beta iota delta [buf ph more].
    apply Z.leb_le in E. unfold zlen in E.
    rewrite zlen_app. replace (len <=? zlen b + zlen c) with true
      by (symmetry; apply Z.leb_le; unfold zlen; lia).
    rewrite firstn_app_le, skipn_app_le by lia. reflexivity.
Qed.

Lemma more_more s a b : more (more s a) b = more s (a ++ b).
Proof. unfold more; simpl. rewrite app_assoc. reflexivity. Qed.

(* reading what is there, then appending and reading on = appending first *)
Lemma runs_more s ms s1 : runs s ms s1 -> forall c ms2 s2,
  runs (more s1 c) ms2 s2 -> runs (more s c) (ms ++ ms2) s2.
Proof.
  induction 1 as [s Hs | s s1 om ms s2 Hs Hr IH]; intros c ms2 s2' H2.
  - exact H2.
  - rewrite <- app_assoc. eapply runs_step.
    + apply try_read_more; exact Hs.
    + apply IH; exact H2.
Qed.

Definition start (bs : list byte) : dstate := mk_dstate bs WantId.

(* chunk-by-chunk feeding is a run of the reader over the concatenation *)
Lemma feed_all_runs chunks : forall s B ms0 s' ms,
  runs (start B) ms0 s -> feed_all s chunks = (s', ms) ->
  runs (start (B ++ concat chunks)) (ms0 ++ ms) s'.
Proof.
  induction chunks as [|c cs IH]; intros s B ms0 s' ms H0 Hf; simpl in Hf.
  - inversion Hf; subst. simpl. rewrite !app_nil_r. exact H0.
  - destruct (feed s c) as [s1 m1] eqn:F1. destruct (feed_all s1 cs) as [s2 m2] eqn:F2.
    inversion Hf; subst. destruct (feed_runs s c) as (m1' & s1' & Hr & Hfe).
    rewrite F1 in Hfe. inversion Hfe; subst.
    simpl. rewrite app_assoc. rewrite (app_assoc ms0).
    eapply IH; [|exact F2].
    change (start (B ++ c)) with (more (start B) c).
    eapply runs_more; [exact H0 | exact Hr].
Qed.

(* the three reads of one frame *)
Lemma read_id id rest : length id = 16%nat ->
  try_read (mk_dstate (id ++ rest) WantId) = Some (mk_dstate rest (WantLen id), None).
Proof.
  intros Hid. unfold try_read; cbv beta iota delta [buf ph].
  replace (16 <=? zlen (id ++ rest)) with true
    by (symmetry; apply Z.leb_le; unfold zlen; rewrite app_length; lia).
  rewrite <- Hid. rewrite firstn_exact, skipn_exact. reflexivity.
Qed.

Lemma read_len id n rest : 0 <= n < 4294967296 ->
  try_read (mk_dstate (enc32 n ++ rest) (WantLen id)) = Some (mk_dstate rest (WantBody id n), None).
Proof.
  intros Hn. unfold try_read; cbv beta iota delta [buf ph].
  replace (4 <=? zlen (enc32 n ++ rest)) with true
    by (symmetry; apply Z.leb_le; unfold zlen; rewrite app_length, enc32_length; lia).
  rewrite <- (enc32_length n).
  rewrite firstn_exact, skipn_exact. rewrite dec32_enc32 by exact Hn. reflexivity.
Qed.

Lemma read_body id body rest :
  try_read (mk_dstate (body ++ rest) (WantBody id (zlen body))) = Some (mk_dstate rest WantId, Some (id, body)).
Proof.
  unfold try_read; cbv beta iota delta [buf ph].
  replace (zlen body <=? zlen (body ++ rest)) with true
    by (symmetry; apply Z.leb_le; rewrite zlen_app; unfold zlen; lia).
  unfold zlen at 1 2. rewrite Nat2Z.id.
  rewrite firstn_exact, skipn_exact. reflexivity.
Qed.

Lemma blocked_id b : (length b < 16)%nat -> try_read (mk_dstate b WantId) = None.
Proof.
  intros H. unfold try_read; cbv beta iota delta [buf ph].
  replace (16 <=? zlen b) with false by (symmetry; apply Z.leb_gt; unfold zlen; lia). reflexivity.
Qed.

Lemma blocked_len id b : (length b < 4)%nat -> try_read (mk_dstate b (WantLen id)) = None.
Proof.
  intros H. unfold try_read; cbv beta iota delta [buf ph].
  replace (4 <=? zlen b) with false by (symmetry; apply Z.leb_gt; unfold zlen; lia). reflexivity.
Qed.

Lemma blocked_body id n b : zlen b < n -> try_read (mk_dstate b (WantBody id n)) = None.
Proof.
  intros H. unfold try_read; cbv beta iota delta [buf ph].
  replace (n <=? zlen b) with false by (symmetry; apply Z.leb_gt; lia). reflexivity.
Qed.

Lemma encodable_inv id body : encodable (id, body) = true ->
  length id = 16%nat /\ 0 <= zlen body < 4294967296.
Proof.
  unfold encodable; cbv beta iota delta [fst snd]. intros He.
  apply andb_true_iff in He. destruct He as [Hid Hlen].
  apply Nat.eqb_eq in Hid. apply Z.ltb_lt in Hlen. unfold zlen in *. split; [exact Hid|lia].
Qed.

(* one whole frame at the head of the buffer is delivered in three reads *)
Lemma runs_one_frame m rest ms s' :
  encodable m = true -> runs (start rest) ms s' ->
  runs (start (encode_message m ++ rest)) (m :: ms) s'.
Proof.
  intros He Hr. destruct m as [id body]. destruct (encodable_inv _ _ He) as [Hid Hlen].
  unfold encode_message, start; cbv beta iota delta [fst snd]. rewrite <- !app_assoc.
  change ((id, body) :: ms) with (olist (@None msg) ++ (olist (@None msg) ++ (olist (Some (id, body)) ++ ms))).
  eapply runs_step; [apply read_id; exact Hid|].
  eapply runs_step; [apply read_len; exact Hlen|].
  eapply runs_step; [apply read_body|].
  exact Hr.
Qed.

Lemma runs_frames msgs : forall rest ms s',
  forallb encodable msgs = true -> runs (start rest) ms s' ->
  runs (start (flat_map encode_message msgs ++ rest)) (msgs ++ ms) s'.
Proof.
  induction msgs as [|m msgs IH]; intros rest ms s' He Hr; simpl in *.
  - exact Hr.
  - apply andb_true_iff in He. destruct He as [Hm Hs].
    rewrite <- app_assoc. apply runs_one_frame; [exact Hm|]. apply IH; assumption.
Qed.

Lemma runs_empty : runs (start []) [] dinit.
Proof. apply runs_stop. reflexivity. Qed.

(* T13.frame *)
Theorem frame_delivery msgs chunks :
  forallb encodable msgs = true ->
  concat chunks = flat_map encode_message msgs ->
  feed_all dinit chunks = (dinit, msgs).
Proof.
  intros He Hc. destruct (feed_all dinit chunks) as [s' ms] eqn:F.
  pose proof (feed_all_runs chunks dinit [] [] s' ms runs_empty F) as H1.
  simpl in H1. rewrite Hc in H1.
  pose proof (runs_frames msgs [] [] dinit He runs_empty) as H2.
  rewrite !app_nil_r in H2.
  destruct (runs_det _ _ _ H1 _ _ H2) as [-> ->]. reflexivity.
Qed.

(* a proper, non-empty prefix of one frame: nothing delivered, not at a boundary *)
Lemma split_prefix {A} (x y q r : list A) : x ++ y = q ++ r -> (length x <= length q)%nat ->
  exists q1, q = x ++ q1 /\ y = q1 ++ r.
Proof.
  intros H L. exists (skipn (length x) q). split.
  - rewrite <- (firstn_skipn (length x) q) at 1. f_equal.
    assert (E : firstn (length x) (q ++ r) = x) by (rewrite <- H; apply firstn_exact).
    rewrite firstn_app_le in E by lia. exact E.
  - assert (E : skipn (length x) (q ++ r) = y) by (rewrite <- H; apply skipn_exact).
    rewrite skipn_app_le in E by lia. symmetry; exact E.
Qed.

Lemma runs_partial_frame m q r :
  encodable m = true -> encode_message m = q ++ r -> q <> [] -> r <> [] ->
  exists s', runs (start q) [] s' /\ at_boundary s' = false.
Proof.
  intros He Hq Hqn Hrn. destruct m as [id body]. destruct (encodable_inv _ _ He) as [Hid Hlen].
  unfold encode_message in Hq; cbv beta iota delta [fst snd] in Hq.
  assert (Hr0 : (0 < length r)%nat) by (destruct r; simpl; [congruence|lia]).
  destruct (Nat.lt_ge_cases (length q) 16) as [L16|G16].
  { exists (start q). split.
    - apply runs_stop. apply blocked_id; exact L16.
    - unfold at_boundary, start; cbv beta iota delta [buf ph]. destruct q; [congruence|reflexivity]. }
  destruct (split_prefix id _ q r Hq ltac:(lia)) as (q1 & -> & Hq1).
  destruct (Nat.lt_ge_cases (length q1) 4) as [L4|G4].
  { exists (mk_dstate q1 (WantLen id)). split.
    - change (@nil msg) with (olist (@None msg) ++ []). eapply runs_step; [apply read_id; exact Hid|].
      apply runs_stop. apply blocked_len; exact L4.
    - reflexivity. }
  destruct (split_prefix (enc32 (zlen body)) _ q1 r Hq1 ltac:(rewrite enc32_length; lia)) as (q2 & -> & Hb).
  exists (mk_dstate q2 (WantBody id (zlen body))). split.
  - change (@nil msg) with (olist (@None msg) ++ (olist (@None msg) ++ [])).
    eapply runs_step; [apply read_id; exact Hid|].
    eapply runs_step; [apply read_len; exact Hlen|].
    apply runs_stop. apply blocked_body. rewrite Hb, zlen_app. unfold zlen. lia.
  - reflexivity.
Qed.

(* T13.cut *)
Theorem cut_delivery msgs m q r chunks :
  forallb encodable msgs = true -> encodable m = true ->
  encode_message m = q ++ r -> q <> [] -> r <> [] ->
  concat chunks = flat_map encode_message msgs ++ q ->
  exists s', feed_all dinit chunks = (s', msgs) /\ at_boundary s' = false.
Proof.
  intros He Hm Hq Hqn Hrn Hc. destruct (feed_all dinit chunks) as [s' ms] eqn:F.
  pose proof (feed_all_runs chunks dinit [] [] s' ms runs_empty F) as H1.
  simpl in H1. rewrite Hc in H1.
  destruct (runs_partial_frame m q r Hm Hq Hqn Hrn) as (sq & Hrq & Hb).
  pose proof (runs_frames msgs q [] sq He Hrq) as H2. rewrite app_nil_r in H2.
  destruct (runs_det _ _ _ H1 _ _ H2) as [-> ->]. exists sq. split; [reflexivity|exact Hb].
Qed.

(* ---- transport ---- *)
Fixpoint undef_free (v : tval) : bool :=
  match v with
  | TList l => forallb undef_free l
  | TDict kvs => forallb (fun kv => undef_free (fst kv) && undef_free (snd kv)) kvs
  | TUndef c => negb c
  | _ => true
  end.

Lemma tval_ind' (P : tval -> Prop)
  (Hi : forall z, P (TInt z)) (Hr : forall b, P (TReal b)) (Hc : forall c, P (TChar c))
  (Hs : forall s, P (TStr s)) (Hy : forall s, P (TSym s))
  (Hl : forall l, Forall P l -> P (TList l))
  (Hd : forall kvs, Forall (fun kv => P (fst kv) /\ P (snd kv)) kvs -> P (TDict kvs))
  (Hu : forall c, P (TUndef c)) : forall v, P v.
Proof.
  fix IH 1. intros [z|b|c|s|s|l|kvs|c];
    [apply Hi|apply Hr|apply Hc|apply Hs|apply Hy| | |apply Hu].
  - apply Hl. induction l as [|x l IHl]; constructor; [apply IH|exact IHl].
  - apply Hd. induction kvs as [|[k v] kvs IHk]; constructor; [split; apply IH|exact IHk].
Qed.

Lemma transport_id_true v : transport true v = v.
Proof.
  induction v as [| | | | |l IH|kvs IH|c] using tval_ind'; simpl; try reflexivity.
  - f_equal. induction IH as [|x l Hx _ IHl]; simpl; [reflexivity|]. rewrite Hx, IHl. reflexivity.
  - f_equal. induction IH as [|[k v] kvs [Hk Hv] _ IHl]; simpl; [reflexivity|].
    simpl in *. rewrite Hk, Hv, IHl. reflexivity.
  - rewrite andb_true_r. reflexivity.
Qed.

Lemma transport_id_undef_free flag v : undef_free v = true -> transport flag v = v.
Proof.
  induction v as [| | | | |l IH|kvs IH|c] using tval_ind'; simpl; intros Hf; try reflexivity.
  - f_equal. induction IH as [|x l Hx _ IHl]; simpl in *; [reflexivity|].
    apply andb_true_iff in Hf. destruct Hf as [H1 H2]. rewrite Hx, IHl by assumption. reflexivity.
  - f_equal. induction IH as [|[k v] kvs [Hk Hv] _ IHl]; simpl in *; [reflexivity|].
    apply andb_true_iff in Hf. destruct Hf as [H1 H2]. apply andb_true_iff in H1. destruct H1 as [H1 H3].
    rewrite Hk, Hv, IHl by assumption. reflexivity.
  - destruct c; simpl in *; [discriminate|reflexivity].
Qed.

Lemma undefined_survives_iff flag : (forall v, is_undefined (transport flag v) = is_undefined v) <-> flag = true.
Proof.
  split.
  - intros H. specialize (H (TUndef true)). simpl in H. destruct flag; [reflexivity|discriminate].
  - intros ->. intros v. rewrite transport_id_true. reflexivity.
Qed.
