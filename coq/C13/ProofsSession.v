(* C13/ProofsSession.v — a sequential remote session equals local execution. *)
From Coq Require Import ZArith List Bool Lia.
From C13 Require Import Model Proofs Session.
Import ListNotations.
Open Scope Z_scope.

Lemma zlist_eqb_refl l : zlist_eqb l l = true.
Proof. induction l as [|x l IH]; simpl; [reflexivity|]. rewrite Z.eqb_refl, IH. reflexivity. Qed.

Section SessionProofs.
  Variables (state cmd resp : Type).
  Variable exec : state -> cmd -> resp * state.
  Variable enc_cmd : cmd -> list byte.
  Variable dec_cmd : list byte -> option cmd.
  Variable enc_resp : resp -> list byte.
  Variable dec_resp : list byte -> option resp.
  Variable call_id : nat -> list byte.
  Variable frag_req frag_resp : nat -> list byte -> list (list byte).
  Variable other_id : nat -> list byte.

  (* assumed of the environment: pickle round trip, uuid size, frame size limit, and that
     fragmentation only cuts (arbitrarily) and neither drops nor reorders bytes *)
  Hypothesis Hdec_cmd : forall c, dec_cmd (enc_cmd c) = Some c.
  Hypothesis Hdec_resp : forall r, dec_resp (enc_resp r) = Some r.
  Hypothesis Hid : forall k, length (call_id k) = 16%nat.
  Hypothesis Hlen_cmd : forall c, zlen (enc_cmd c) < 4294967296.
  Hypothesis Hlen_resp : forall r, zlen (enc_resp r) < 4294967296.
  Hypothesis Hfrag_req : forall k bs, concat (frag_req k bs) = bs.
  Hypothesis Hfrag_resp : forall k bs, concat (frag_resp k bs) = bs.

  Let rcall := remote_call state cmd resp exec enc_cmd dec_cmd enc_resp dec_resp call_id frag_req frag_resp true other_id.
  Let rsession := remote_session state cmd resp exec enc_cmd dec_cmd enc_resp dec_resp call_id frag_req frag_resp true other_id.
  Let lsession := local_session state cmd resp exec.

  Lemma one_frame_delivery id body chunks :
    length id = 16%nat -> zlen body < 4294967296 ->
    concat chunks = encode_message (id, body) -> feed_all dinit chunks = (dinit, [(id, body)]).
  Proof.
    intros Hi Hl Hc. apply frame_delivery.
    - cbn [forallb]. unfold encodable; cbn [fst snd]. rewrite Hi, Nat.eqb_refl.
      replace (zlen body <? 4294967296) with true by (symmetry; apply Z.ltb_lt; exact Hl). reflexivity.
    - cbn [flat_map]. rewrite app_nil_r. exact Hc.
  Qed.

  Lemma remote_call_exact k st c :
    rcall k st dinit dinit c = (Some (fst (exec st c)), snd (exec st c), dinit, dinit).
  Proof.
    unfold rcall, remote_call.
    rewrite (one_frame_delivery (call_id k) (enc_cmd c)); [| apply Hid | apply Hlen_cmd | apply Hfrag_req].
    cbn [serve_msgs]. rewrite Hdec_cmd. destruct (exec st c) as [r st1] eqn:E. cbn [fst snd flat_map].
    rewrite app_nil_r.
    rewrite (one_frame_delivery (call_id k) (enc_resp r)); [| apply Hid | apply Hlen_resp | apply Hfrag_resp].
    rewrite zlist_eqb_refl, Hdec_resp. reflexivity.
  Qed.

  (* T13.session: any number of calls issued one after the other, any fragmentation of every
     request and response stream: each call gets the response of its own request, the
     responses are those of local execution in order, the server ends in the same state, and
     both readers are back at a frame boundary *)
  Theorem session_equals_local : forall cs k st,
    rsession k st dinit dinit cs =
      (map Some (fst (lsession st cs)), snd (lsession st cs), dinit, dinit).
  Proof.
    induction cs as [|c cs IH]; intros k st.
    - reflexivity.
    - unfold rsession, lsession in *. cbn [remote_session local_session].
      fold rcall. rewrite remote_call_exact.
      destruct (exec st c) as [r st1] eqn:E. cbn [fst snd].
      rewrite IH. destruct (local_session state cmd resp exec st1 cs) as [rs st2]. reflexivity.
  Qed.
End SessionProofs.

(* if the server answered under a different id the caller would never get its answer *)
Lemma session_refuted_with_other_id :
  let exec := fun (st : Z) (c : Z) => (c + st, st + 1) in
  let enc := fun z : Z => [z] in
  let dec := fun l : list byte => match l with [z] => Some z | _ => None end in
  let cid := fun k : nat => repeat (Z.of_nat k) 16 in
  let oid := fun k : nat => repeat 255 16 in
  let frag := fun (k : nat) (bs : list byte) => [bs] in
  fst (fst (fst (remote_call Z Z Z exec enc dec enc dec cid frag frag false oid 0%nat 0 dinit dinit 7))) = None.
Proof. vm_compute. reflexivity. Qed.
