(* C13/Session.v — end-to-end model of a client calling a server over the framed
   byte stream: request frame -> (any fragmentation) -> server reader ->
   execute_server_command -> response frame with the SAME id -> (any
   fragmentation) -> client reader -> matched by id.  No proofs here. *)
From Coq Require Import ZArith List Bool.
From C13 Require Import Model.
Import ListNotations.
Open Scope Z_scope.

Fixpoint zlist_eqb (a b : list Z) : bool :=
  match a, b with
  | [], [] => true
  | x :: a', y :: b' => Z.eqb x y && zlist_eqb a' b'
  | _, _ => false
  end.

Section Session.
  Variables (state cmd resp : Type).
  (* the server interpreter: one command, one response, new state *)
  Variable exec : state -> cmd -> resp * state.
  (* pickle *)
  Variable enc_cmd : cmd -> list byte.
  Variable dec_cmd : list byte -> option cmd.
  Variable enc_resp : resp -> list byte.
  Variable dec_resp : list byte -> option resp.
  (* uuid4 of the k-th call *)
  Variable call_id : nat -> list byte.
  (* how the network cuts the k-th request / response stream into reads *)
  Variable frag_req : nat -> list byte -> list (list byte).
  Variable frag_resp : nat -> list byte -> list (list byte).
  (* `_listen` answers with the id of the request (regenerated flag); otherwise with a fresh one *)
  Variable reply_uses_request_id : bool.
  Variable other_id : nat -> list byte.

  (* server side of NetworkClient._listen for the messages of one network burst *)
  Fixpoint serve_msgs (k : nat) (st : state) (ms : list msg) : state * list msg :=
    match ms with
    | [] => (st, [])
    | (id, body) :: rest =>
        match dec_cmd body with
        | Some c =>
            let '(r, st1) := exec st c in
            let rid := if reply_uses_request_id then id else other_id k in
            let '(st2, outs) := serve_msgs k st1 rest in
            (st2, (rid, enc_resp r) :: outs)
        | None => serve_msgs k st rest       (* undecodable: pickle.loads raises; the connection fails *)
        end
    end.

  (* one remote call: NetworkClient.call on the client, one round trip *)
  Definition remote_call (k : nat) (sst : state) (srd crd : dstate) (c : cmd)
    : option resp * state * dstate * dstate :=
    let req := encode_message (call_id k, enc_cmd c) in
    let '(srd1, got) := feed_all srd (frag_req k req) in
    let '(sst1, outs) := serve_msgs k sst got in
    let wire := flat_map encode_message outs in
    let '(crd1, back) := feed_all crd (frag_resp k wire) in
    (* the listener pops the future registered under the response's id *)
    let answer := match back with
                  | [(rid, body)] => if zlist_eqb rid (call_id k) then dec_resp body else None
                  | _ => None
                  end in
    (answer, sst1, srd1, crd1).

  (* a client that issues its calls one after the other, each waiting for its answer *)
  Fixpoint remote_session (k : nat) (sst : state) (srd crd : dstate) (cs : list cmd)
    : list (option resp) * state * dstate * dstate :=
    match cs with
    | [] => ([], sst, srd, crd)
    | c :: rest =>
        let '(a, sst1, srd1, crd1) := remote_call k sst srd crd c in
        let '(answers, sst2, srd2, crd2) := remote_session (S k) sst1 srd1 crd1 rest in
        (a :: answers, sst2, srd2, crd2)
    end.

  (* the same commands executed locally on the server interpreter *)
  Fixpoint local_session (st : state) (cs : list cmd) : list resp * state :=
    match cs with
    | [] => ([], st)
    | c :: rest =>
        let '(r, st1) := exec st c in
        let '(rs, st2) := local_session st1 rest in
        (r :: rs, st2)
    end.
End Session.
