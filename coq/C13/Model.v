(* C13/Model.v — executable model of klongpy/sys_fn_ipc.py framing:
     encode_message      = 16 id bytes ++ 4-byte big-endian length ++ body
     stream_recv_msg     = readexactly(16); readexactly(4); readexactly(len)
   over asyncio.StreamReader, whose buffer only grows by feed_data and whose
   readexactly(n) takes n bytes as soon as n are buffered.
   Bytes are Z (0..255 on the wire; no theorem needs the range).
   No proofs in this file. *)
From Coq Require Import ZArith List Bool.
Import ListNotations.
Open Scope Z_scope.

Definition byte := Z.
Definition msg := (list byte * list byte)%type.       (* (raw 16-byte id, pickled body) *)

(* struct.pack('!I', n) *)
Definition enc32 (n : Z) : list byte :=
  [ (n / 16777216) mod 256 ; (n / 65536) mod 256 ; (n / 256) mod 256 ; n mod 256 ].

(* struct.unpack('!I', b)[0] *)
Definition dec32 (b : list byte) : Z :=
  match b with
  | [a; b; c; d] => ((a * 256 + b) * 256 + c) * 256 + d
  | _ => 0
  end.

Definition zlen {A} (l : list A) : Z := Z.of_nat (length l).

Definition encode_message (m : msg) : list byte :=
  fst m ++ enc32 (zlen (snd m)) ++ snd m.

(* struct.pack raises struct.error outside 0 <= n < 2^32 *)
Definition encodable (m : msg) : bool :=
  (length (fst m) =? 16)%nat && (zlen (snd m) <? 4294967296).

Inductive phase :=
| WantId
| WantLen (id : list byte)
| WantBody (id : list byte) (len : Z).

Record dstate := mk_dstate { buf : list byte ; ph : phase }.

Definition dinit : dstate := mk_dstate [] WantId.

(* one attempt of the pending readexactly; None = must wait for more bytes *)
Definition try_read (s : dstate) : option (dstate * option msg) :=
  match ph s with
  | WantId =>
      if (16 <=? zlen (buf s)) then
        Some (mk_dstate (skipn 16 (buf s)) (WantLen (firstn 16 (buf s))), None)
      else None
  | WantLen id =>
      if (4 <=? zlen (buf s)) then
        Some (mk_dstate (skipn 4 (buf s)) (WantBody id (dec32 (firstn 4 (buf s)))), None)
      else None
  | WantBody id len =>
      if (len <=? zlen (buf s)) then
        let n := Z.to_nat len in
        Some (mk_dstate (skipn n (buf s)) WantId, Some (id, firstn n (buf s)))
      else None
  end.

(* run the reader coroutine until it blocks; fuel bounds the number of reads *)
Fixpoint drain (fuel : nat) (s : dstate) (acc : list msg) : dstate * list msg :=
  match fuel with
  | O => (s, acc)
  | S f =>
      match try_read s with
      | None => (s, acc)
      | Some (s', None) => drain f s' acc
      | Some (s', Some m) => drain f s' (acc ++ [m])
      end
  end.

(* enough for every read that can succeed (Proofs.v: drain_runs): the measure
   3*|buf| + rank(phase) strictly decreases at every successful read *)
Definition phase_rank (p : phase) : nat :=
  match p with WantId => 0%nat | WantLen _ => 20%nat | WantBody _ _ => 30%nat end.
Definition measure (s : dstate) : nat := (3 * length (buf s) + phase_rank (ph s))%nat.
Definition fuel_for (s : dstate) : nat := S (measure s).

(* one network read: feed_data(chunk), then the reader runs until it blocks *)
Definition feed (s : dstate) (chunk : list byte) : dstate * list msg :=
  let s1 := mk_dstate (buf s ++ chunk) (ph s) in
  drain (fuel_for s1) s1 [].

Fixpoint feed_all (s : dstate) (chunks : list (list byte)) : dstate * list msg :=
  match chunks with
  | [] => (s, [])
  | c :: cs =>
      let '(s1, m1) := feed s c in
      let '(s2, m2) := feed_all s1 cs in
      (s2, m1 ++ m2)
  end.

(* feed_eof: readexactly raises IncompleteReadError unless it is between frames
   with nothing buffered (then the partial is empty: a clean end) *)
Definition at_boundary (s : dstate) : bool :=
  match ph s, buf s with WantId, [] => true | _, _ => false end.

(* ---- transport of values (pickle) ----------------------------------------
   Values as far as transport can tell them apart.  pickle.loads(pickle.dumps v)
   is structurally the identity; object identity is lost unless the class
   reduces to a module global.  KLONG_UNDEFINED is recognised by identity
   (`a is KLONG_UNDEFINED`), so whether it survives depends on
   KGUndefined.__reduce__ (flag regenerated from the source into Generated.v). *)
Inductive tval :=
| TInt (z : Z) | TReal (bits : Z) | TChar (c : Z) | TStr (s : list Z) | TSym (s : list Z)
| TList (l : list tval)
| TDict (kvs : list (tval * tval))
| TUndef (canonical : bool).

Section Transport.
  Variable undef_reduces_to_global : bool.
  Fixpoint transport (v : tval) : tval :=
    match v with
    | TList l => TList (map transport l)
    | TDict kvs => TDict (map (fun kv => (transport (fst kv), transport (snd kv))) kvs)
    | TUndef c => TUndef (c && undef_reduces_to_global)
    | other => other
    end.
End Transport.

(* monad :_ : `a is None or a is KLONG_UNDEFINED` *)
Definition is_undefined (v : tval) : bool :=
  match v with TUndef true => true | _ => false end.

(* ---- the sending side ----------------------------------------------------
   stream_send_msg:  writer.write(encode_message(id, msg)); await writer.drain()
   Several coroutines (callers, the listener answering requests) send on the
   same writer of one event loop; a coroutine can only be suspended at an
   `await`, so what reaches the transport is a sequence of atomic write()
   calls.  `single_write` (regenerated from the source) says that a frame is
   handed over in ONE write call; otherwise header and body are two writes with
   a suspension point between them. *)
Definition send_writes (single_write : bool) (m : msg) : list (list byte) :=
  if single_write then [encode_message m]
  else [fst m ++ enc32 (zlen (snd m)); snd m].

(* nondeterministic scheduler: at each step some sender performs its next write *)
Inductive wire : list (list (list byte)) -> list (list byte) -> Prop :=
| wire_done pend : Forall (fun w => w = []) pend -> wire pend []
| wire_step pre w ws post out :
    wire (pre ++ ws :: post) out -> wire (pre ++ (w :: ws) :: post) (w :: out).

(* executable scheduler for the correspondence: sched lists sender indices *)
Fixpoint nth_write (i : nat) (pend : list (list (list byte))) : option (list byte * list (list (list byte))) :=
  match pend, i with
  | [], _ => None
  | (w :: ws) :: rest, O => Some (w, ws :: rest)
  | [] :: _, O => None
  | p :: rest, S j => match nth_write j rest with Some (w, rest') => Some (w, p :: rest') | None => None end
  end.

Fixpoint run_sched (pend : list (list (list byte))) (sched : list nat) : list (list byte) :=
  match sched with
  | [] => []
  | i :: s => match nth_write i pend with
              | Some (w, pend') => w :: run_sched pend' s
              | None => run_sched pend s
              end
  end.
