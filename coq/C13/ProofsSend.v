(* C13/ProofsSend.v — concurrent senders on one writer deliver whole frames. *)
From Coq Require Import ZArith List Bool Lia Permutation.
From C13 Require Import Model Proofs.
Import ListNotations.
Open Scope Z_scope.

Definition slot (om : option msg) : list (list byte) :=
  match om with Some m => [encode_message m] | None => [] end.

Fixpoint somes (l : list (option msg)) : list msg :=
  match l with [] => [] | Some m :: r => m :: somes r | None :: r => somes r end.

Lemma somes_app a b : somes (a ++ b) = somes a ++ somes b.
Proof. induction a as [|[m|] a IH]; simpl; [reflexivity| rewrite IH; reflexivity | exact IH]. Qed.

Lemma map_slot_split oms pre x post :
  map slot oms = pre ++ x :: post ->
  exists opre o opost, oms = opre ++ o :: opost /\ map slot opre = pre /\ slot o = x /\ map slot opost = post.
Proof.
  revert pre. induction oms as [|o oms IH]; intros pre H.
  - destruct pre; discriminate.
  - destruct pre as [|p pre]; simpl in H.
    + injection H as H1 H2. exists [], o, oms. auto.
    + injection H as H1 H2. destruct (IH pre H2) as (opre & o' & opost & -> & Hp & Ho & Hq).
      exists (o :: opre), o', opost. simpl. rewrite Hp, H1. auto.
Qed.

(* with one write per frame, whatever the scheduler does, the transport receives
   whole frames: some permutation of the frames sent *)
Lemma wire_single pend out : wire pend out -> forall oms, pend = map slot oms ->
  exists perm, Permutation perm (somes oms) /\ out = map encode_message perm.
Proof.
  induction 1 as [pend Hall | pre w ws post out Hw IH]; intros oms Hp.
  - exists []. split; [|reflexivity]. subst pend.
    induction oms as [|[m|] oms IHo]; simpl in *.
    + constructor.
    + inversion Hall as [|? ? Hx ?]; discriminate.
    + inversion Hall; subst. apply IHo. assumption.
  - destruct (map_slot_split oms pre (w :: ws) post (eq_sym Hp)) as (opre & o & opost & -> & Hpre & Ho & Hpost).
    destruct o as [m|]; simpl in Ho; [|discriminate]. injection Ho as Hw1 Hw2. subst w ws.
    destruct (IH (opre ++ None :: opost)) as (perm & Hperm & Hout).
    { rewrite map_app. simpl. rewrite Hpre, Hpost. reflexivity. }
    exists (m :: perm). split.
    + rewrite somes_app in Hperm. rewrite somes_app. simpl in *. apply Permutation_cons_app. exact Hperm.
    + simpl. rewrite Hout. reflexivity.
Qed.

Lemma somes_map_Some msgs : somes (map Some msgs) = msgs.
Proof. induction msgs as [|m l IH]; simpl; [reflexivity|rewrite IH; reflexivity]. Qed.

Lemma forallb_perm {A} (f : A -> bool) l l' : Permutation l l' -> forallb f l = true -> forallb f l' = true.
Proof.
  induction 1 as [|x l l' Hp IH|x y l|l l' l'' Hp1 IH1 Hp2 IH2]; simpl; intros Hf; auto.
  - apply andb_true_iff in Hf. destruct Hf as [H1 H2]. rewrite H1, IH by assumption. reflexivity.
  - apply andb_true_iff in Hf. destruct Hf as [H1 Hf]. apply andb_true_iff in Hf. destruct Hf as [H2 H3].
    rewrite H1, H2, H3. reflexivity.
Qed.

Lemma concat_map_encode l : concat (map encode_message l) = flat_map encode_message l.
Proof. induction l as [|m l IH]; simpl; [reflexivity|rewrite IH; reflexivity]. Qed.

(* T13.send: any interleaving of any number of concurrent senders, read back by
   the receiver under the write boundaries as chunks (and, by frame_delivery,
   under any other fragmentation): every message arrives intact, exactly once *)
Theorem concurrent_senders_deliver msgs out :
  forallb encodable msgs = true ->
  wire (map (send_writes true) msgs) out ->
  exists perm, Permutation perm msgs /\ feed_all dinit out = (dinit, perm) /\
    forall chunks, concat chunks = concat out -> feed_all dinit chunks = (dinit, perm).
Proof.
  intros He Hw.
  destruct (wire_single _ _ Hw (map Some msgs)) as (perm & Hperm & Hout).
  { rewrite map_map. reflexivity. }
  rewrite somes_map_Some in Hperm. exists perm. split; [exact Hperm|].
  assert (Hep : forallb encodable perm = true) by (eapply forallb_perm; [apply Permutation_sym; exact Hperm|exact He]).
  split.
  - apply frame_delivery; [exact Hep|]. rewrite Hout. apply concat_map_encode.
  - intros chunks Hc. apply frame_delivery; [exact Hep|]. rewrite Hc, Hout. apply concat_map_encode.
Qed.

(* with header and body as separate writes the statement is false: two senders
   whose header/body writes interleave corrupt the stream *)
Definition mA : msg := ([1;1;1;1;1;1;1;1;1;1;1;1;1;1;1;1], [65;65]).
Definition mB : msg := ([2;2;2;2;2;2;2;2;2;2;2;2;2;2;2;2], [66;66;66]).
Lemma split_writes_refuted :
  let pend := map (send_writes false) [mA; mB] in
  let out := run_sched pend [0%nat; 1%nat; 1%nat; 0%nat] in
  wire pend out /\ snd (feed_all dinit out) <> [mA; mB] /\ snd (feed_all dinit out) <> [mB; mA].
Proof.
  split; [|split; vm_compute; intros H; discriminate H].
  cbv [map send_writes]. cbn [run_sched nth_write].
  apply (wire_step [] _ _ [_]). apply (wire_step [_] _ _ []). apply (wire_step [_] _ _ []). apply (wire_step [] _ _ [_]).
  apply wire_done. repeat constructor.
Qed.

(* the executable scheduler only produces wires of the relation *)
Lemma nth_write_split i : forall pend w pend', nth_write i pend = Some (w, pend') ->
  exists pre ws post, pend = pre ++ (w :: ws) :: post /\ pend' = pre ++ ws :: post.
Proof.
  induction i as [|j IH]; intros pend w pend' H; destruct pend as [|p rest]; simpl in H; try discriminate.
  - destruct p as [|w0 ws]; [discriminate|]. injection H as -> <-. exists [], ws, rest. auto.
  - destruct p as [|w0 ws].
    + destruct (nth_write j rest) as [[w1 r1]|] eqn:E; [|discriminate]. injection H as -> <-.
      destruct (IH _ _ _ E) as (pre & ws' & post & -> & ->). exists ([] :: pre), ws', post. auto.
    + destruct (nth_write j rest) as [[w1 r1]|] eqn:E; [|discriminate]. injection H as -> <-.
      destruct (IH _ _ _ E) as (pre & ws' & post & -> & ->). exists ((w0 :: ws) :: pre), ws', post. auto.
Qed.
