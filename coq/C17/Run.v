(* C17/Run.v — S-expression front end, extracted to OCaml.
   requests
     (trace <flush> <use_fsync> <sync_dirs> <bufsize> (sets ((name) (bytes)) ...))
        -> ((ev ...) ...) one event list per set; ev = (mkdir (name)) | (open (name)) | (write (name) len) | (fsync (name)) | (close (name)) | (fsyncdir (name))
     (check <journalled> (keys (name)...) (sets ((name) (bytes) (ev...)) ...))   ev with (write (name) (bytes))
        -> 0 | 1                                                 the verified checker on a recorded trace
     (cands <journalled> (name) (evs ev...))                   -> ((none) | (some (bytes))) ...  crash candidates of one key after the events
     (modelcheck <journalled> <flush> <use_fsync> <sync_dirs> <bufsize> (keys ...) (sets ((name) (bytes)) ...)) -> 0 | 1 *)
From Coq Require Import ZArith List String.
From KB Require Import Sx.
From C17 Require Import Generated Model.
Import ListNotations.
Open Scope Z_scope.

Fixpoint names_of_sx (l : list sx) : option (list name) :=
  match l with
  | [] => Some []
  | SL n :: r => match sx_get_zs n, names_of_sx r with Some a, Some b => Some (a :: b) | _, _ => None end
  | _ => None
  end.

Fixpoint sets_of_sx (l : list sx) : option (list (name * bytes)) :=
  match l with
  | [] => Some []
  | SL [SL n; SL b] :: r =>
      match sx_get_zs n, sx_get_zs b, sets_of_sx r with Some n', Some b', Some r' => Some ((n', b') :: r') | _, _, _ => None end
  | _ => None
  end.

Definition sx_ev (e : ev) : sx :=
  match e with
  | Mkdir p => SL [sx_w "mkdir"; sx_zs p]
  | Open n => SL [sx_w "open"; sx_zs n]
  | Write n d => SL [sx_w "write"; sx_zs n; SZ (zlen d)]
  | Fsync n => SL [sx_w "fsync"; sx_zs n]
  | Close n => SL [sx_w "close"; sx_zs n]
  | FsyncDir p => SL [sx_w "fsyncdir"; sx_zs p]
  | Unlink n => SL [sx_w "unlink"; sx_zs n]
  end.

Definition ev_of_sx (x : sx) : option ev :=
  match x with
  | SL [SS t; SL n] =>
      match sx_get_zs n with
      | Some n' => if is_tag "mkdir" t then Some (Mkdir n') else if is_tag "open" t then Some (Open n')
                   else if is_tag "fsync" t then Some (Fsync n') else if is_tag "close" t then Some (Close n')
                   else if is_tag "fsyncdir" t then Some (FsyncDir n') else if is_tag "unlink" t then Some (Unlink n') else None
      | None => None
      end
  | SL [SS t; SL n; SL d] =>
      match sx_get_zs n, sx_get_zs d with
      | Some n', Some d' => if is_tag "write" t then Some (Write n' d') else None
      | _, _ => None
      end
  | _ => None
  end.

Fixpoint evs_of_sx (l : list sx) : option (list ev) :=
  match l with
  | [] => Some []
  | x :: r => match ev_of_sx x, evs_of_sx r with Some e, Some es => Some (e :: es) | _, _ => None end
  end.

Fixpoint tsets_of_sx (l : list sx) : option (list (name * bytes * list ev)) :=
  match l with
  | [] => Some []
  | SL [SL n; SL b; SL evs] :: r =>
      match sx_get_zs n, sx_get_zs b, evs_of_sx evs, tsets_of_sx r with
      | Some n', Some b', Some e', Some r' => Some ((n', b', e') :: r')
      | _, _, _, _ => None
      end
  | _ => None
  end.

Definition zb (z : Z) : bool := Z.eqb z 1.

Definition dispatch (x : sx) : sx :=
  match x with
  | SL [SS t; SZ fl; SZ uf; SZ sd; SZ bs; SL (SS _ :: sets)] =>
      if is_tag "trace" t then
        match sets_of_sx sets with
        | Some s => SL (map (fun x => SL (map sx_ev (snd x))) (sets_trace false (zb fl) (zb uf) (zb sd) bs empty_state s))
        | None => sx_err "trace"
        end
      else sx_err "op"
  | SL [SS t; SZ jr; SL (SS _ :: keys); SL (SS _ :: sets)] =>
      if is_tag "check" t then
        match names_of_sx keys, tsets_of_sx sets with
        | Some k, Some s => sx_bool (check_crash (zb jr) k s)
        | _, _ => sx_err "check"
        end
      else sx_err "op"
  | SL [SS t; SZ jr; SZ fl; SZ uf; SZ sd; SZ bs; SL (SS _ :: keys); SL (SS _ :: sets)] =>
      if is_tag "modelcheck" t then
        match names_of_sx keys, sets_of_sx sets with
        | Some k, Some s => sx_bool (check_crash (zb jr) k (sets_trace (zb jr) (zb fl) (zb uf) (zb sd) bs empty_state s))
        | _, _ => sx_err "modelcheck"
        end
      else sx_err "op"
  | SL [SS t; SZ jr; SL k; SL (SS _ :: evs)] =>
      if is_tag "cands" t then
        match sx_get_zs k, evs_of_sx evs with
        | Some k', Some es =>
            SL (map (fun c => match c with None => SL [sx_w "none"] | Some b => SL [sx_w "some"; sx_zs b] end)
                    (cands_of (run (zb jr) empty_state es) k'))
        | _, _ => sx_err "cands"
        end
      else sx_err "op"
  | _ => sx_err "shape"
  end.

Require Import ExtrOcamlBasic.
Extraction Language OCaml.
Extraction "extracted.ml" dispatch drv_add drv_mul drv_opp drv_div_eucl drv_ltb drv_eqb.
