(* C17/Model.v — crash model of a key-value set (klongpy/db/file_cache.py _write_file as called by
   KeyValueStorage.set with use_fsync=True).

   1. The system-call trace of one set:  mkdir* ; openat(O_WRONLY|O_CREAT|O_TRUNC) ; [write] ; [fsync] ; [write] ; close
      including Python's BufferedWriter: f.write(b) reaches the kernel immediately only when len(b) exceeds the
      buffer; otherwise at f.flush() (if the code calls it — regenerated flag) or at close, i.e. AFTER os.fsync.
   2. A POSIX-style persistence model: per file a volatile content, the content last made durable by fsync, a
      dirty flag and "directory entry durable"; per directory created "entry durable".  fsync(fd) makes the file's
      content durable; a directory entry becomes durable by fsync of the directory that holds it (both variants)
      and, in the `journalled` variant, the entries of a file and of all its ancestors also by fsync of the file.
      A crash keeps, per file and independently: nothing at all if its name (or an ancestor's) is not durable;
      the durable content (everything unsynced lost); any byte prefix of the volatile content; or - torn
      in-place overwrite - such a prefix laid over the old durable content (truncation lost, data written).
   3. check_crash: a decidable checker over (recorded or generated) traces, proved sound in Proofs.v.
   No proofs in this file. *)
From Coq Require Import ZArith List Bool.
Import ListNotations.
Open Scope Z_scope.

Definition name := list Z.
Definition bytes := list Z.

Fixpoint name_eqb (a b : name) : bool :=
  match a, b with
  | [], [] => true
  | x :: a', y :: b' => Z.eqb x y && name_eqb a' b'
  | _, _ => false
  end.

Definition zlen {A} (l : list A) : Z := Z.of_nat (length l).

Inductive ev :=
| Mkdir (p : name)
| Open (n : name)                 (* O_CREAT | O_TRUNC *)
| Write (n : name) (d : bytes)
| Fsync (n : name)
| Close (n : name)
| FsyncDir (p : name)             (* open(dir, O_RDONLY); fsync; close *)
| Unlink (n : name).              (* never produced by the modelled code; accepted in RECORDED traces *)

(* ---- 2. persistence ---- *)
Record fstate := mkF { f_vol : bytes ; f_synced : option bytes ; f_dirty : bool ; f_entry : bool }.
Record pstate := mkP { p_files : list (name * fstate) ; p_dirs : list (name * bool) }.

Fixpoint assoc {V} (l : list (name * V)) (n : name) : option V :=
  match l with
  | [] => None
  | (m, v) :: r => if name_eqb m n then Some v else assoc r n
  end.

Fixpoint aset {V} (l : list (name * V)) (n : name) (v : V) : list (name * V) :=
  match l with
  | [] => [(n, v)]
  | (m, w) :: r => if name_eqb m n then (m, v) :: r else (m, w) :: aset r n v
  end.

Fixpoint aremove {V} (l : list (name * V)) (n : name) : list (name * V) :=
  match l with
  | [] => []
  | (m, v) :: r => if name_eqb m n then aremove r n else (m, v) :: aremove r n
  end.

Definition parent (n : name) : name := removelast n.

(* proper non-empty prefixes of n, outermost first: the directories above n *)
Fixpoint prefixes_from (pre rest : name) : list name :=
  match rest with
  | [] => []
  | x :: r => (pre ++ [x]) :: prefixes_from (pre ++ [x]) r
  end.
Definition ancestors (n : name) : list name := prefixes_from [] (parent n).

(* ---- 1. the trace of _write_file ---- *)
Section Trace.
  Variable flush_first : bool.      (* f.flush() before os.fsync  (regenerated from the source) *)
  Variable use_fsync : bool.        (* KeyValueStorage.set passes use_fsync=True (regenerated) *)
  Variable sync_dirs : bool.        (* the directories that got a new entry are fsynced (regenerated) *)
  Variable bufsize : Z.             (* BufferedWriter buffer size of the file (observed) *)

  Definition direct (b : bytes) : bool := zlen b >? bufsize.          (* f.write goes straight to write(2) *)
  Definition buffered (b : bytes) : bool := negb (direct b) && (0 <? zlen b).

  Definition core_trace (n : name) (b : bytes) : list ev :=
    [Open n]
    ++ (if direct b then [Write n b] else [])
    ++ (if use_fsync
        then (if buffered b && flush_first then [Write n b] else []) ++ [Fsync n]
        else [])
    ++ (if buffered b && negb (use_fsync && flush_first) then [Write n b] else [])
    ++ [Close n].

  (* os.makedirs: one mkdir per missing ancestor directory, outermost first *)
  Definition missing_dirs (dirs : list name) (n : name) : list name :=
    filter (fun p => negb (existsb (name_eqb p) dirs)) (ancestors n).

  (* _fsync_dirs(write_path, dirname(created)): the parents of n and of every path component from `top`
     (the outermost one created) downwards, innermost first *)
  Definition path (n : name) : list name := ancestors n ++ [n].
  Fixpoint from_top (top : name) (l : list name) : list name :=
    match l with
    | [] => []
    | x :: r => if name_eqb x top then l else from_top top r
    end.
  Definition sync_chain (n top : name) : list name := rev (map parent (from_top top (path n))).

  Definition set_trace (st : pstate) (n : name) (b : bytes) : list ev :=
    let miss := missing_dirs (map fst (p_dirs st)) n in
    let newfile := match assoc (p_files st) n with None => true | Some _ => false end in
    map Mkdir miss ++ core_trace n b
    ++ (if sync_dirs && use_fsync && (newfile || negb (match miss with [] => true | _ => false end))
        then map FsyncDir (sync_chain n (match miss with top :: _ => top | [] => n end))
        else []).
End Trace.

Section Persist.
  Variable journalled : bool.    (* true: fsync of a file also persists its name and its ancestors' names *)

  Definition set_entry (f : fstate) : fstate := mkF (f_vol f) (f_synced f) (f_dirty f) true.

  Definition sync_children (st : pstate) (p : name) : pstate :=
    mkP (map (fun kf => if name_eqb (parent (fst kf)) p then (fst kf, set_entry (snd kf)) else kf) (p_files st))
        (map (fun qb => if name_eqb (parent (fst qb)) p then (fst qb, true) else qb) (p_dirs st)).

  Definition sync_ancestors (st : pstate) (n : name) : pstate :=
    mkP (p_files st)
        (map (fun qb => if existsb (name_eqb (fst qb)) (ancestors n) then (fst qb, true) else qb) (p_dirs st)).

  Definition apply_ev (st : pstate) (e : ev) : pstate :=
    match e with
    | Mkdir p => match assoc (p_dirs st) p with
                 | None => mkP (p_files st) (aset (p_dirs st) p false)
                 | Some _ => st
                 end
    | Close _ => st
    | Open n =>
        match assoc (p_files st) n with
        | Some f => mkP (aset (p_files st) n (mkF [] (f_synced f) true (f_entry f))) (p_dirs st)
        | None => mkP (aset (p_files st) n (mkF [] None true false)) (p_dirs st)
        end
    | Write n d =>
        match assoc (p_files st) n with
        | Some f => mkP (aset (p_files st) n (mkF (f_vol f ++ d) (f_synced f) true (f_entry f))) (p_dirs st)
        | None => st                                    (* write without open: not produced *)
        end
    | Fsync n =>
        match assoc (p_files st) n with
        | Some f =>
            let st1 := mkP (aset (p_files st) n (mkF (f_vol f) (Some (f_vol f)) false (f_entry f || journalled))) (p_dirs st) in
            if journalled then sync_ancestors st1 n else st1
        | None => st
        end
    | FsyncDir p => sync_children st p
    | Unlink n =>
        (* the name no longer maps to its (durable) file: a file created under it afterwards is a new file whose name
           is not durable until its directory is synced.  (Approximation: the candidate "old file still there" is
           represented by the candidate "name lost" of the new file; both differ from a newly set value.) *)
        mkP (aremove (p_files st) n) (p_dirs st)
    end.

  Fixpoint run (st : pstate) (evs : list ev) : pstate :=
    match evs with
    | [] => st
    | e :: r => run (apply_ev st e) r
    end.

  Fixpoint prefixes (b : bytes) : list bytes :=
    match b with
    | [] => [[]]
    | x :: r => [] :: map (cons x) (prefixes r)
    end.

  Definition overlay (p old : bytes) : bytes := p ++ skipn (length p) old.

  (* what a crash may leave of the CONTENT of one file whose name survives *)
  Definition content_cands (f : fstate) : list bytes :=
    (match f_synced f with Some c => [c] | None => [] end)
    ++ (if f_dirty f
        then prefixes (f_vol f)
             ++ (match f_synced f with Some old => map (fun p => overlay p old) (prefixes (f_vol f)) | None => [] end)
        else []).

  Definition dir_durable (st : pstate) (p : name) : bool :=
    match assoc (p_dirs st) p with Some b => b | None => true end.      (* directories found at start are durable *)

  Definition reachable (st : pstate) (k : name) (f : fstate) : bool :=
    f_entry f && forallb (dir_durable st) (ancestors k).

  Definition cands_of (st : pstate) (k : name) : list (option bytes) :=
    match assoc (p_files st) k with
    | None => [None]
    | Some f => (if reachable st k f then [] else [None]) ++ map Some (content_cands f)
    end.

  (* a sequence of sets: (key, payload, its events); the trace of each set depends on what exists *)
  Section Sets.
    Variable flush_first use_fsync sync_dirs : bool.
    Variable bufsize : Z.
    Fixpoint sets_trace (st : pstate) (sets : list (name * bytes)) : list (name * bytes * list ev) :=
      match sets with
      | [] => []
      | (n, b) :: r =>
          let evs := set_trace flush_first use_fsync sync_dirs bufsize st n b in
          (n, b, evs) :: sets_trace (run st evs) r
      end.
  End Sets.

  (* ---- 3. the checker ---- *)
  Fixpoint bytes_eqb (a b : bytes) : bool :=
    match a, b with
    | [], [] => true
    | x :: a', y :: b' => Z.eqb x y && bytes_eqb a' b'
    | _, _ => false
    end.

  Definition obytes_eqb (a b : option bytes) : bool :=
    match a, b with
    | None, None => true
    | Some x, Some y => bytes_eqb x y
    | _, _ => false
    end.

  Definition expect := list (name * option bytes).     (* last completed value per key; absent = never set *)
  Definition exp_of (e : expect) (k : name) : option bytes := match assoc e k with Some v => v | None => None end.

  (* every crash image of st reads, for key k, exactly the expected value *)
  Definition key_ok (st : pstate) (e : expect) (k : name) : bool :=
    forallb (fun c => obytes_eqb c (exp_of e k)) (cands_of st k).

  Definition all_ok (ks : list name) (st : pstate) (e : expect) : bool := forallb (key_ok st e) ks.

  Fixpoint check_from (ks : list name) (st : pstate) (e : expect) (sets : list (name * bytes * list ev)) : bool :=
    match sets with
    | [] => all_ok ks st e
    | (n, b, evs) :: rest =>
        all_ok ks st e
        && forallb (fun j => forallb (fun k => name_eqb k n || key_ok (run st (firstn j evs)) e k) ks)
                   (seq 0 (S (length evs)))
        && check_from ks (run st evs) (aset e n (Some b)) rest
    end.

  Definition empty_state : pstate := mkP [] [].
  Definition check_crash (ks : list name) (sets : list (name * bytes * list ev)) : bool := check_from ks empty_state [] sets.
End Persist.
