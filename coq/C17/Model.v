(* C17/Model.v — crash model of a key-value set (klongpy/db/file_cache.py _write_file as called by
   KeyValueStorage.set with use_fsync=True).

   1. The system-call trace of one set:  mkdir* ; openat(O_WRONLY|O_CREAT|O_TRUNC) ; [write] ; [fsync] ; [write] ; close
      including Python's BufferedWriter: f.write(b) reaches the kernel immediately only when len(b) exceeds the
      buffer; otherwise at f.flush() (if the code calls it — regenerated flag) or at close, i.e. AFTER os.fsync.
   2. A POSIX-style persistence model: per file a volatile content, a durable content (None = no durable
      directory entry) and a dirty flag.  fsync(fd) makes the file's content durable; the directory entry of a
      new file becomes durable with that fsync in the `journalled` variant and never in the `strict` variant
      (klongpy never syncs a directory).  A crash keeps, per file and independently, either the durable
      content (everything unsynced lost) or any byte prefix of the volatile content (none .. all of it).
   3. check_crash: a decidable checker over (recorded or generated) traces, proved sound in Proofs.v.
   No proofs in this file. *)
From Coq Require Import ZArith List Bool.
Import ListNotations.
Open Scope Z_scope.

Definition name := list Z.
Definition bytes := list Z.

Fixpoint name_eqb (a b : name) : bool :=
  match a, b with
  | [], [] => true
  | x :: a', y :: b' => Z.eqb x y && name_eqb a' b'
  | _, _ => false
  end.

Definition zlen {A} (l : list A) : Z := Z.of_nat (length l).

Inductive ev :=
| Mkdir (p : name)
| Open (n : name)                 (* O_CREAT | O_TRUNC *)
| Write (n : name) (d : bytes)
| Fsync (n : name)
| Close (n : name).

(* ---- 1. the trace of _write_file ---- *)
Section Trace.
  Variable flush_first : bool.      (* f.flush() before os.fsync  (regenerated from the source) *)
  Variable use_fsync : bool.        (* KeyValueStorage.set passes use_fsync=True (regenerated) *)
  Variable bufsize : Z.             (* BufferedWriter buffer size of the file (observed) *)

  Definition direct (b : bytes) : bool := zlen b >? bufsize.          (* f.write goes straight to write(2) *)
  Definition buffered (b : bytes) : bool := negb (direct b) && (0 <? zlen b).

  Definition core_trace (n : name) (b : bytes) : list ev :=
    [Open n]
    ++ (if direct b then [Write n b] else [])
    ++ (if use_fsync
        then (if buffered b && flush_first then [Write n b] else []) ++ [Fsync n]
        else [])
    ++ (if buffered b && negb (use_fsync && flush_first) then [Write n b] else [])
    ++ [Close n].

  (* os.makedirs: one mkdir per missing ancestor directory, outermost first *)
  Fixpoint prefixes_from (pre rest : name) : list name :=
    match rest with
    | [] => []
    | x :: r => (pre ++ [x]) :: prefixes_from (pre ++ [x]) r
    end.

  Definition missing_dirs (dirs : list name) (n : name) : list name :=
    filter (fun p => negb (existsb (name_eqb p) dirs)) (prefixes_from [] (removelast n)).

  Definition set_trace (dirs : list name) (n : name) (b : bytes) : list ev :=
    map Mkdir (missing_dirs dirs n) ++ core_trace n b.

  (* a sequence of sets: (key, payload, its events) *)
  Fixpoint sets_trace (dirs : list name) (sets : list (name * bytes)) : list (name * bytes * list ev) :=
    match sets with
    | [] => []
    | (n, b) :: r => (n, b, set_trace dirs n b) :: sets_trace (missing_dirs dirs n ++ dirs) r
    end.
End Trace.

(* ---- 2. persistence ---- *)
Record fstate := mkF { f_vol : bytes ; f_dur : option bytes ; f_dirty : bool }.
Definition pstate := list (name * fstate).

Fixpoint assoc {V} (l : list (name * V)) (n : name) : option V :=
  match l with
  | [] => None
  | (m, v) :: r => if name_eqb m n then Some v else assoc r n
  end.

Fixpoint aset {V} (l : list (name * V)) (n : name) (v : V) : list (name * V) :=
  match l with
  | [] => [(n, v)]
  | (m, w) :: r => if name_eqb m n then (m, v) :: r else (m, w) :: aset r n v
  end.

Section Persist.
  Variable journalled : bool.    (* true: fsync of a new file also persists its directory entry; false: strict *)

  Definition apply_ev (st : pstate) (e : ev) : pstate :=
    match e with
    | Mkdir _ => st
    | Close _ => st
    | Open n =>
        match assoc st n with
        | Some f => aset st n (mkF [] (f_dur f) true)
        | None => aset st n (mkF [] None true)
        end
    | Write n d =>
        match assoc st n with
        | Some f => aset st n (mkF (f_vol f ++ d) (f_dur f) true)
        | None => st                                    (* write without open: not produced *)
        end
    | Fsync n =>
        match assoc st n with
        | Some f =>
            match f_dur f with
            | Some _ => aset st n (mkF (f_vol f) (Some (f_vol f)) false)
            | None => if journalled then aset st n (mkF (f_vol f) (Some (f_vol f)) false)
                      else aset st n (mkF (f_vol f) None true)       (* data durable, but no durable name *)
            end
        | None => st
        end
    end.

  Fixpoint run (st : pstate) (evs : list ev) : pstate :=
    match evs with
    | [] => st
    | e :: r => run (apply_ev st e) r
    end.

  Fixpoint prefixes (b : bytes) : list bytes :=
    match b with
    | [] => [[]]
    | x :: r => [] :: map (cons x) (prefixes r)
    end.

  (* what a crash may leave of one file *)
  Definition cands (f : fstate) : list (option bytes) :=
    if f_dirty f then f_dur f :: map Some (prefixes (f_vol f)) else [f_dur f].

  Definition cands_of (st : pstate) (k : name) : list (option bytes) :=
    match assoc st k with Some f => cands f | None => [None] end.

  (* ---- 3. the checker ---- *)
  Fixpoint bytes_eqb (a b : bytes) : bool :=
    match a, b with
    | [], [] => true
    | x :: a', y :: b' => Z.eqb x y && bytes_eqb a' b'
    | _, _ => false
    end.

  Definition obytes_eqb (a b : option bytes) : bool :=
    match a, b with
    | None, None => true
    | Some x, Some y => bytes_eqb x y
    | _, _ => false
    end.

  Definition expect := list (name * option bytes).     (* last completed value per key; absent = never set *)
  Definition exp_of (e : expect) (k : name) : option bytes := match assoc e k with Some v => v | None => None end.

  (* every crash image of st reads, for key k, exactly the expected value *)
  Definition key_ok (st : pstate) (e : expect) (k : name) : bool :=
    forallb (fun c => obytes_eqb c (exp_of e k)) (cands_of st k).

  Definition all_ok (ks : list name) (st : pstate) (e : expect) : bool := forallb (key_ok st e) ks.

  Fixpoint check_from (ks : list name) (st : pstate) (e : expect) (sets : list (name * bytes * list ev)) : bool :=
    match sets with
    | [] => all_ok ks st e
    | (n, b, evs) :: rest =>
        all_ok ks st e
        && forallb (fun j => forallb (fun k => name_eqb k n || key_ok (run st (firstn j evs)) e k) ks)
                   (seq 0 (S (length evs)))
        && check_from ks (run st evs) (aset e n (Some b)) rest
    end.

  Definition check_crash (ks : list name) (sets : list (name * bytes * list ev)) : bool := check_from ks [] [] sets.
End Persist.
