(* C17/Properties.v — property theorems only: statement, `exact`, Print Assumptions. *)
From Coq Require Import ZArith List Bool.
From C17 Require Import Generated Model Proofs Inflight.
Import ListNotations.
Open Scope Z_scope.

(* use_fsync reaches _write_file: True at the KeyValueStorage.set call site, passed on along every call path, and every
   update_file call of a non-busy entry really submits the write (no "contents unchanged" shortcut) (all regenerated) *)
Definition write_synced : bool := kvs_use_fsync && use_fsync_on_every_write_path && update_always_writes.

(* T17.sound + complete — the verified checker decides crash safety of a (recorded or generated) trace of a
   sequence of sets: check_crash accepts it IFF at every crash point and for every allowed loss (name lost,
   durable content, any byte prefix of the volatile content, torn overwrite; chosen per file) every key of ks
   reads its last completed value before and after each set, and every key other than the one in flight does
   so at every instant inside a set. *)
Theorem C17_check_crash_sound : forall jr ks sets,
  check_crash jr ks sets = true -> safe_from jr ks empty_state [] sets.
Proof. exact (fun jr ks sets => proj1 (check_from_iff jr ks sets empty_state [])). Qed.
Print Assumptions C17_check_crash_sound.

Theorem C17_check_crash_complete : forall jr ks sets,
  safe_from jr ks empty_state [] sets -> check_crash jr ks sets = true.
Proof. exact (fun jr ks sets => proj2 (check_from_iff jr ks sets empty_state [])). Qed.
Print Assumptions C17_check_crash_complete.

(* T17.isolation — for ALL flags, both persistence variants, all payloads, all instants j of a set on key n and
   every state in which the ancestors of existing files are known directories: the set adds NO crash outcome to
   any other key (it can only remove the outcome "name lost", by syncing a shared directory). *)
Theorem C17_isolation : forall jr fl uf sd bs st st0 n b j k, k <> n -> dirs_closed st ->
  incl (cands_of (run jr st (firstn j (set_trace fl uf sd bs st0 n b))) k) (cands_of st k).
Proof. exact isolation. Qed.
Print Assumptions C17_isolation.

(* T17.durable — the FULL statement, for the code as it is now (flags regenerated from the source: use_fsync=True at
   the call site, f.flush() before os.fsync, fsync of every directory that got a new entry): in BOTH persistence
   variants every sequence of sets of any payloads on any keys (first-time keys and new directories included), for
   any buffer size, is crash safe: a completed set is durable, an interrupted one harms no other key. *)
Theorem C17_completed_sets_durable : forall jr bs ks sets,
  safe_from jr ks empty_state [] (sets_trace jr flush_before_fsync write_synced sync_new_dirs bs empty_state sets).
Proof. exact (safe_flag write_synced flush_before_fsync sync_new_dirs eq_refl eq_refl eq_refl). Qed.
Print Assumptions C17_completed_sets_durable.

(* the same from any settled directory found at opening (every file synced and named durably) *)
Theorem C17_completed_sets_durable_from : forall jr bs ks st e sets,
  clean st -> (forall k, exp_of e k = value_of st k) ->
  safe_from jr ks st e (sets_trace jr flush_before_fsync write_synced sync_new_dirs bs st sets).
Proof. exact (safe_from_state_flag write_synced flush_before_fsync sync_new_dirs eq_refl eq_refl eq_refl). Qed.
Print Assumptions C17_completed_sets_durable_from.

(* journalled variant: holds without the directory syncs *)
Theorem C17_journalled_durable_without_dir_sync : forall sd bs ks sets,
  safe_from true ks empty_state [] (sets_trace true flush_before_fsync kvs_use_fsync sd bs empty_state sets).
Proof. exact (journalled_safe_flag kvs_use_fsync flush_before_fsync eq_refl eq_refl). Qed.
Print Assumptions C17_journalled_durable_without_dir_sync.

(* T17.durable_large — payloads larger than the buffer are durable whether or not the code flushes *)
Theorem C17_large_payload_durable : forall fl sd bs ks sets,
  Forall (fun nb => direct bs (snd nb) = true) sets ->
  safe_from true ks empty_state [] (sets_trace true fl kvs_use_fsync sd bs empty_state sets).
Proof. exact (large_safe_flag kvs_use_fsync eq_refl). Qed.
Print Assumptions C17_large_payload_durable.

(* T17.torn — what a crash at ANY instant j of a set on key n (payload b, from any settled state, both variants) can leave
   of key n ITSELF: its previous completed value (None if it had none), a byte prefix of b (the empty file included: the
   earlier completed value of the same key CAN be lost, the code truncates in place), or such a prefix laid over the
   previous value (torn in-place overwrite).  Nothing else; and by C17_isolation nothing at all happens to other keys. *)
Theorem C17_inflight_outcomes : forall jr sd bs st n b j c,
  clean st ->
  In c (cands_of (run jr st (firstn j (set_trace flush_before_fsync kvs_use_fsync sd bs st n b))) n) ->
  allowed (value_of st n) b c.
Proof.
  exact (fun jr sd bs st n b j c =>
           eq_ind_r (fun uf => clean st -> In c (cands_of (run jr st (firstn j (set_trace flush_before_fsync uf sd bs st n b))) n) ->
                               allowed (value_of st n) b c)
                    (inflight_outcomes jr flush_before_fsync sd bs st n b j c (or_introl (eq_refl : flush_before_fsync = true)))
                    (eq_refl : kvs_use_fsync = true)).
Qed.
Print Assumptions C17_inflight_outcomes.

(* the trace the theorems are about has the shape the translator recognised in _write_file *)
Theorem C17_write_file_shape : write_file_shape_ok = true.
Proof. exact eq_refl. Qed.
Print Assumptions C17_write_file_shape.

(* the file of a key depends on the key only, not on the process (no hash()/id()/random/time/pid in key_to_file_path), and
   _write_file opens exactly that file and unlinks / renames nothing (both regenerated from the source) *)
Theorem C17_key_path_process_independent : key_path_is_process_independent = true.
Proof. exact eq_refl. Qed.
Print Assumptions C17_key_path_process_independent.

Theorem C17_write_file_touches_only_its_key : write_file_opens_target_only = true.
Proof. exact eq_refl. Qed.
Print Assumptions C17_write_file_touches_only_its_key.

(* ---- refutations ---- *)
(* replacing a key's file (unlink, then create) changes a directory entry: without a sync of the directory the completed
   set is not durable in the strict variant; with it, it is *)
Theorem C17_unlink_then_create_needs_dir_sync :
  let evs1 := [Open [1]; Write [1] [5]; Fsync [1]; Close [1]; FsyncDir []] in
  let evs2 := [Unlink [1]; Open [1]; Write [1] [6]; Fsync [1]; Close [1]] in
  check_crash false [[1]] [([1], [5], evs1); ([1], [6], evs2)] = false /\
  check_crash false [[1]] [([1], [5], evs1); ([1], [6], evs2 ++ [FsyncDir []])] = true.
Proof. vm_compute. split; reflexivity. Qed.

Definition evs_of (sets : list (name * bytes * list ev)) : list (list ev) := map (fun x => snd x) sets.

(* R11 (fixed 94454e7): without f.flush() a payload that fits the buffer is written at close, after the fsync *)
Theorem C17_small_refuted_without_flush :
  let sets := sets_trace true false true true 4 empty_state [([1], [7; 8; 9])] in
  evs_of sets = [[Open [1]; Fsync [1]; Write [1] [7; 8; 9]; Close [1]; FsyncDir []]] /\
  check_crash true [[1]] sets = false /\
  In (Some []) (cands_of (run true empty_state (concat (evs_of sets))) [1]).
Proof. vm_compute. repeat split; auto. Qed.

(* strict variant (fixed b99ea56): without the directory syncs the completed first set of a key can vanish *)
Theorem C17_newkey_refuted_strict_without_dir_sync :
  let sets := sets_trace false true true false 4 empty_state [([1; 2], [7; 8; 9])] in
  check_crash false [[1; 2]] sets = false /\
  In None (cands_of (run false empty_state (concat (evs_of sets))) [1; 2]).
Proof. vm_compute. split; auto. Qed.

(* syncing only the file's own directory is not enough when makedirs created its parent *)
Theorem C17_newdir_needs_the_whole_chain :
  let evs := [Mkdir [1]; Open [1; 2]; Write [1; 2] [7]; Fsync [1; 2]; Close [1; 2]; FsyncDir [1]] in
  In None (cands_of (run false empty_state evs) [1; 2]) /\
  cands_of (run false empty_state (evs ++ [FsyncDir []])) [1; 2] = [Some [7]].
Proof. vm_compute. split; auto. Qed.

(* without use_fsync=True nothing is durable *)
Theorem C17_refuted_without_fsync :
  check_crash true [[1]] (sets_trace true true false true 4 empty_state [([1], [7; 8; 9; 10; 11])]) = false.
Proof. vm_compute. reflexivity. Qed.

(* ---- non-vacuity ---- *)
Example C17_example :
  let sets := sets_trace false true true true 4 empty_state
                [([1], [7; 8]); ([2; 3], [1; 2; 3; 4; 5; 6]); ([1], [9]); ([2; 4], []); ([5; 6; 7], [1])] in
  evs_of sets =
    [[Open [1]; Write [1] [7; 8]; Fsync [1]; Close [1]; FsyncDir []];
     [Mkdir [2]; Open [2; 3]; Write [2; 3] [1; 2; 3; 4; 5; 6]; Fsync [2; 3]; Close [2; 3]; FsyncDir [2]; FsyncDir []];
     [Open [1]; Write [1] [9]; Fsync [1]; Close [1]];
     [Open [2; 4]; Fsync [2; 4]; Close [2; 4]; FsyncDir [2]];
     [Mkdir [5]; Mkdir [5; 6]; Open [5; 6; 7]; Write [5; 6; 7] [1]; Fsync [5; 6; 7]; Close [5; 6; 7];
      FsyncDir [5; 6]; FsyncDir [5]; FsyncDir []]] /\
  check_crash false [[1]; [2; 3]; [2; 4]; [5; 6; 7]; [9]] sets = true /\
  check_crash true [[1]; [2; 3]; [2; 4]; [5; 6; 7]; [9]] sets = true.
Proof. vm_compute. repeat split; reflexivity. Qed.

(* the key in flight during an overwrite of [5;6] by [7;8;9]: after open+write and before fsync *)
Example C17_example_inflight :
  let st := run false empty_state [Open [1]; Write [1] [5; 6]; Fsync [1]; Close [1]; FsyncDir []] in
  cands_of (run false st [Open [1]; Write [1] [7; 8; 9]]) [1]
  = [Some [5; 6]; Some []; Some [7]; Some [7; 8]; Some [7; 8; 9]; Some [5; 6]; Some [7; 6]; Some [7; 8]; Some [7; 8; 9]].
Proof. vm_compute. reflexivity. Qed.
