(* C17/Properties.v — property theorems only: statement, `exact`, Print Assumptions. *)
From Coq Require Import ZArith List Bool.
From C17 Require Import Generated Model Proofs.
Import ListNotations.
Open Scope Z_scope.

(* T17.sound — the verified checker: if check_crash accepts a (recorded or generated) trace of a sequence of
   sets, then at every crash point and for every allowed loss of unsynced data (durable content, or any byte
   prefix of the volatile content, chosen per file) every key of ks reads its last completed value before and
   after each set, and every key other than the one in flight does so at every instant inside a set. *)
Theorem C17_check_crash_sound : forall jr ks sets,
  check_crash jr ks sets = true -> safe_from jr ks [] [] sets.
Proof. exact (fun jr ks sets => check_from_sound jr ks sets [] []). Qed.
Print Assumptions C17_check_crash_sound.

(* T17.isolation — for ALL flags, both persistence variants, all payloads, all states and all instants j of a
   set on key n: the crash candidates of every other key are untouched. *)
Theorem C17_isolation : forall jr fl uf bs dirs n b st j k, k <> n ->
  cands_of (run jr st (firstn j (set_trace fl uf bs dirs n b))) k = cands_of st k.
Proof. exact isolation. Qed.
Print Assumptions C17_isolation.

(* T17.durable — the code as it is now (flags regenerated from the source: use_fsync=True at the call site,
   f.flush() before os.fsync): every sequence of sets of any payloads on any keys, any buffer size, is crash
   safe in the journalled variant: a completed set is durable, an interrupted one harms no other key. *)
Theorem C17_completed_sets_durable : forall bs ks dirs sets,
  safe_from true ks [] [] (sets_trace flush_before_fsync kvs_use_fsync bs dirs sets).
Proof. exact (journalled_safe_flag kvs_use_fsync flush_before_fsync eq_refl eq_refl). Qed.
Print Assumptions C17_completed_sets_durable.

(* T17.durable_large — payloads larger than the buffer are durable whether or not the code flushes *)
Theorem C17_large_payload_durable : forall fl bs ks dirs sets,
  Forall (fun nb => direct bs (snd nb) = true) sets ->
  safe_from true ks [] [] (sets_trace fl kvs_use_fsync bs dirs sets).
Proof. exact (large_safe_flag kvs_use_fsync eq_refl). Qed.
Print Assumptions C17_large_payload_durable.

(* strict variant: keys that already have a durable directory entry *)
Theorem C17_strict_existing_keys_durable : forall bs ks dirs st e sets, settled st e ->
  Forall (fun nb => exists f d, assoc st (fst nb) = Some f /\ f_dur f = Some d) sets ->
  safe_from false ks st e (sets_trace flush_before_fsync kvs_use_fsync bs dirs sets).
Proof. exact (strict_safe_flag kvs_use_fsync flush_before_fsync eq_refl eq_refl). Qed.
Print Assumptions C17_strict_existing_keys_durable.

(* the trace the theorems are about has the shape the translator recognised in _write_file *)
Theorem C17_write_file_shape : write_file_shape_ok = true.
Proof. exact eq_refl. Qed.
Print Assumptions C17_write_file_shape.

(* ---- refutations ---- *)
(* R11 (fixed): without f.flush() a payload that fits the buffer is written at close, after the fsync:
   trace open, fsync, write, close; after the set has returned a crash may leave the empty file. *)
Theorem C17_small_refuted_without_flush :
  let sets := sets_trace false true 4 [] [([1], [7; 8; 9])] in
  map (fun x => snd x) sets = [[Open [1]; Fsync [1]; Write [1] [7; 8; 9]; Close [1]]] /\
  check_crash true [[1]] sets = false /\
  In (Some []) (cands_of (run true [] (concat (map (fun x => snd x) sets))) [1]).
Proof. vm_compute. repeat split; auto. Qed.

(* strict variant, first-time key: no directory is ever synced, the completed set can vanish *)
Theorem C17_newkey_refuted_strict :
  let sets := sets_trace true true 4 [] [([1; 2], [7; 8; 9])] in
  check_crash false [[1; 2]] sets = false /\
  In None (cands_of (run false [] (concat (map (fun x => snd x) sets))) [1; 2]).
Proof. vm_compute. split; auto. Qed.

(* without use_fsync=True nothing is durable *)
Theorem C17_refuted_without_fsync :
  check_crash true [[1]] (sets_trace true false 4 [] [([1], [7; 8; 9; 10; 11])]) = false.
Proof. vm_compute. reflexivity. Qed.

(* ---- non-vacuity ---- *)
Example C17_example :
  let sets := sets_trace true true 4 [] [([1], [7; 8]); ([2; 3], [1; 2; 3; 4; 5; 6]); ([1], [9]); ([2; 4], [])] in
  map (fun x => snd x) sets =
    [[Open [1]; Write [1] [7; 8]; Fsync [1]; Close [1]];
     [Mkdir [2]; Open [2; 3]; Write [2; 3] [1; 2; 3; 4; 5; 6]; Fsync [2; 3]; Close [2; 3]];
     [Open [1]; Write [1] [9]; Fsync [1]; Close [1]];
     [Open [2; 4]; Fsync [2; 4]; Close [2; 4]]] /\
  check_crash true [[1]; [2; 3]; [2; 4]; [5]] sets = true.
Proof. vm_compute. split; reflexivity. Qed.
