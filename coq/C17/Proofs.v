(* C17/Proofs.v — lemmas about the crash model. *)
From Coq Require Import ZArith List Bool Lia.
From C17 Require Import Model.
Import ListNotations.
Open Scope Z_scope.

Lemma name_eqb_refl a : name_eqb a a = true.
Proof. induction a as [|x a IH]; simpl; [reflexivity|]. rewrite Z.eqb_refl, IH. reflexivity. Qed.

Lemma name_eqb_eq a : forall b, name_eqb a b = true <-> a = b.
Proof.
  induction a as [|x a IH]; intros [|y b]; simpl; split; intros H; try reflexivity; try discriminate.
  - apply andb_true_iff in H. destruct H as [H1 H2]. apply Z.eqb_eq in H1. apply IH in H2. congruence.
  - inversion H; subst. rewrite Z.eqb_refl, name_eqb_refl. reflexivity.
Qed.

Lemma name_eqb_neq a b : name_eqb a b = false <-> a <> b.
Proof.
  split; intros H.
  - intros E. apply name_eqb_eq in E. congruence.
  - destruct (name_eqb a b) eqn:E; [|reflexivity]. apply name_eqb_eq in E. contradiction.
Qed.

Lemma bytes_eqb_eq a : forall b, bytes_eqb a b = true <-> a = b.
Proof.
  induction a as [|x a IH]; intros [|y b]; simpl; split; intros H; try reflexivity; try discriminate.
  - apply andb_true_iff in H. destruct H as [H1 H2]. apply Z.eqb_eq in H1. apply IH in H2. congruence.
  - inversion H; subst. rewrite Z.eqb_refl. apply IH. reflexivity.
Qed.

Lemma obytes_eqb_eq a b : obytes_eqb a b = true <-> a = b.
Proof.
  destruct a as [x|], b as [y|]; simpl; split; intros H; try reflexivity; try discriminate.
  - apply bytes_eqb_eq in H. congruence.
  - inversion H; subst. apply bytes_eqb_eq. reflexivity.
Qed.

Section Assoc.
  Context {V : Type}.
  Lemma assoc_aset_same (l : list (name * V)) n v : assoc (aset l n v) n = Some v.
  Proof.
    induction l as [|[m w] l IH]; simpl; [rewrite name_eqb_refl; reflexivity|].
    destruct (name_eqb m n) eqn:E; simpl; rewrite E; [reflexivity | exact IH].
  Qed.
  Lemma assoc_aset_other (l : list (name * V)) n k v : k <> n -> assoc (aset l n v) k = assoc l k.
  Proof.
    intros Hne. induction l as [|[m w] l IH]; simpl.
    - destruct (name_eqb n k) eqn:E; [apply name_eqb_eq in E; congruence | reflexivity].
    - destruct (name_eqb m n) eqn:E; simpl.
      + apply name_eqb_eq in E. subst m. destruct (name_eqb n k) eqn:E2; [apply name_eqb_eq in E2; congruence | reflexivity].
      + destruct (name_eqb m k); [reflexivity | exact IH].
  Qed.
End Assoc.

(* ---------------------------------------------------------------- the specification *)
Section Spec.
  Variable jr : bool.

  Definition agree (ks : list name) (st : pstate) (e : expect) : Prop :=
    forall k, In k ks -> forall c, In c (cands_of st k) -> c = exp_of e k.

  (* crash safety of a sequence of sets from persistent state st with expectations e:
       before and after every set, every crash image reads the last completed value of every key
       (so a completed set is durable), and at every instant inside a set every OTHER key does. *)
  Fixpoint safe_from (ks : list name) (st : pstate) (e : expect) (sets : list (name * bytes * list ev)) : Prop :=
    match sets with
    | [] => agree ks st e
    | (n, b, evs) :: rest =>
        agree ks st e /\
        (forall j, (j <= length evs)%nat -> forall k, In k ks -> k <> n ->
           forall c, In c (cands_of (run jr st (firstn j evs)) k) -> c = exp_of e k) /\
        safe_from ks (run jr st evs) (aset e n (Some b)) rest
    end.

  Lemma all_ok_agree ks st e : all_ok ks st e = true -> agree ks st e.
  Proof.
    unfold all_ok, key_ok, agree. rewrite forallb_forall. intros H k Hk c Hc.
    specialize (H k Hk). rewrite forallb_forall in H. apply obytes_eqb_eq. apply H. exact Hc.
  Qed.

  Theorem check_from_sound ks : forall sets st e, check_from jr ks st e sets = true -> safe_from ks st e sets.
  Proof.
    induction sets as [|[[n b] evs] rest IH]; intros st e H; cbn [check_from safe_from] in *.
    - apply all_ok_agree. exact H.
    - apply andb_true_iff in H. destruct H as [H H3]. apply andb_true_iff in H. destruct H as [H1 H2].
      split; [apply all_ok_agree; exact H1|]. split; [|apply IH; exact H3].
      intros j Hj k Hk Hkn c Hc. rewrite forallb_forall in H2.
      assert (Hin : In j (seq 0 (S (length evs)))) by (apply in_seq; lia).
      specialize (H2 j Hin). rewrite forallb_forall in H2. specialize (H2 k Hk).
      apply orb_true_iff in H2. destruct H2 as [H2|H2]; [apply name_eqb_eq in H2; contradiction|].
      unfold key_ok in H2. rewrite forallb_forall in H2. apply obytes_eqb_eq. apply H2. exact Hc.
  Qed.

  (* ---------------------------------------------------------------- non-interference *)
  Definition on_file (n : name) (e : ev) : Prop :=
    match e with Mkdir _ => True | Open m | Write m _ | Fsync m | Close m => m = n end.

  Lemma apply_other st e n k : on_file n e -> k <> n -> assoc (apply_ev jr st e) k = assoc st k.
  Proof.
    intros Ho Hne. destruct e as [p|m|m d|m|m]; simpl in *; try reflexivity; subst m.
    - destruct (assoc st n); apply assoc_aset_other; exact Hne.
    - destruct (assoc st n); [apply assoc_aset_other; exact Hne | reflexivity].
    - destruct (assoc st n) as [f|]; [|reflexivity]. destruct (f_dur f); [apply assoc_aset_other; exact Hne|].
      destruct jr; apply assoc_aset_other; exact Hne.
  Qed.

  Lemma run_other n k : k <> n -> forall evs st, Forall (on_file n) evs -> assoc (run jr st evs) k = assoc st k.
  Proof.
    intros Hne. induction evs as [|e evs IH]; intros st H; simpl; [reflexivity|].
    inversion H; subst. rewrite IH by assumption. apply (apply_other st e n k); assumption.
  Qed.

  Lemma forall_firstn {A} (P : A -> Prop) j : forall l, Forall P l -> Forall P (firstn j l).
  Proof. induction j as [|j IH]; intros [|x l] H; simpl; try constructor; inversion H; subst; [assumption | apply IH; assumption]. Qed.

  Lemma core_on_file fl uf bs n b : Forall (on_file n) (core_trace fl uf bs n b).
  Proof.
    unfold core_trace. repeat (apply Forall_app; split);
      repeat match goal with |- context [if ?c then _ else _] => destruct c end;
      repeat (apply Forall_app; split); repeat constructor.
  Qed.

  Lemma set_on_file fl uf bs dirs n b : Forall (on_file n) (set_trace fl uf bs dirs n b).
  Proof.
    unfold set_trace. apply Forall_app. split; [|apply core_on_file].
    apply Forall_forall. intros e He. apply in_map_iff in He. destruct He as (p & <- & _). exact I.
  Qed.

  (* T17.isolation: whatever the flags, the variant, the payload and the instant, the events of a set on
     key n leave every crash candidate of every other key exactly as it was *)
  Theorem isolation fl uf bs dirs n b st j k : k <> n ->
    cands_of (run jr st (firstn j (set_trace fl uf bs dirs n b))) k = cands_of st k.
  Proof.
    intros Hne. unfold cands_of. rewrite (run_other n k Hne); [reflexivity|].
    apply forall_firstn. apply set_on_file.
  Qed.

  (* ---------------------------------------------------------------- durability of the model's traces *)
  Lemma run_app a : forall st b, run jr st (a ++ b) = run jr (run jr st a) b.
  Proof. induction a as [|e a IH]; intros st b; simpl; [reflexivity | apply IH]. Qed.

  Lemma run_mkdirs l : forall st, run jr st (map Mkdir l) = st.
  Proof. induction l as [|p l IH]; intros st; simpl; [reflexivity | apply IH]. Qed.

  Definition good_payload (fl : bool) (bs : Z) (b : bytes) : Prop := fl = true \/ direct bs b = true \/ b = [].

  (* the directory entry of n gets durable at fsync: always when journalled, else only if it already is *)
  Definition entry_ok (st : pstate) (n : name) : Prop :=
    jr = true \/ exists f d, assoc st n = Some f /\ f_dur f = Some d.

  Lemma core_final fl bs n b st : good_payload fl bs b -> entry_ok st n ->
    assoc (run jr st (core_trace fl true bs n b)) n = Some (mkF b (Some b) false).
  Proof.
    intros Hg He.
    assert (Hopen : exists d, assoc (apply_ev jr st (Open n)) n = Some (mkF [] d true) /\ (jr = true \/ exists x, d = Some x)).
    { simpl. destruct He as [He|(f & d & Hf & Hd)].
      - destruct (assoc st n) as [f|]; rewrite assoc_aset_same; eexists; split; try reflexivity; left; exact He.
      - rewrite Hf, assoc_aset_same. eexists. split; [reflexivity|]. right. exists d. exact Hd. }
    destruct Hopen as (d & Ho & Hd).
    set (st1 := apply_ev jr st (Open n)) in *.
    assert (Hsync : forall s v, assoc s n = Some (mkF v d true) ->
              assoc (apply_ev jr s (Fsync n)) n = Some (mkF v (Some v) false)).
    { intros s v Hs. simpl. rewrite Hs. cbn [f_dur f_vol].
      destruct d as [x|]; [apply assoc_aset_same|].
      destruct Hd as [->|(x & Hx)]; [apply assoc_aset_same | discriminate]. }
    assert (Hwrite : forall s, assoc s n = Some (mkF [] d true) -> assoc (apply_ev jr s (Write n b)) n = Some (mkF b d true)).
    { intros s Hs. simpl. rewrite Hs. cbn [f_vol f_dur]. simpl. apply assoc_aset_same. }
    unfold core_trace, buffered. cbn [andb].
    destruct (direct bs b) eqn:Ed; cbn [negb andb app].
    - (* Open; Write; Fsync; Close *)
      cbn [run]. fold st1. apply Hsync. apply Hwrite. exact Ho.
    - destruct (0 <? zlen b) eqn:Ez; cbn [andb].
      + destruct Hg as [->|[Hg|Hg]]; [| congruence | subst b; discriminate].
        cbn [negb app run]. fold st1. apply Hsync. apply Hwrite. exact Ho.
      + assert (b = []) as ->.
        { apply Z.ltb_ge in Ez. unfold zlen in Ez. destruct b; [reflexivity | simpl in Ez; lia]. }
        destruct fl; cbn [negb andb app run]; fold st1; apply Hsync; exact Ho.
  Qed.

  Lemma set_final fl bs dirs n b st : good_payload fl bs b -> entry_ok st n ->
    assoc (run jr st (set_trace fl true bs dirs n b)) n = Some (mkF b (Some b) false).
  Proof. intros Hg He. unfold set_trace. rewrite run_app, run_mkdirs. apply core_final; assumption. Qed.

  Lemma exp_aset_same e n v : exp_of (aset e n v) n = v.
  Proof. unfold exp_of. rewrite assoc_aset_same. reflexivity. Qed.
  Lemma exp_aset_other e n k v : k <> n -> exp_of (aset e n v) k = exp_of e k.
  Proof. intros H. unfold exp_of. rewrite assoc_aset_other by exact H. reflexivity. Qed.

  (* every key reads exactly its expected value in every crash image *)
  Definition settled (st : pstate) (e : expect) : Prop := forall k, cands_of st k = [exp_of e k].

  Lemma settled_agree ks st e : settled st e -> agree ks st e.
  Proof. intros H k _ c Hc. rewrite H in Hc. destruct Hc as [<-|[]]. reflexivity. Qed.

  Theorem sets_safe fl bs ks : forall sets dirs st e,
    settled st e ->
    Forall (fun nb => good_payload fl bs (snd nb) /\ entry_ok st (fst nb)) sets ->
    safe_from ks st e (sets_trace fl true bs dirs sets).
  Proof.
    induction sets as [|[n b] sets IH]; intros dirs st e Hs Hall; cbn [sets_trace safe_from].
    - apply settled_agree. exact Hs.
    - inversion Hall as [|? ? [Hg He] Hrest]; subst. cbn [fst snd] in *.
      split; [apply settled_agree; exact Hs|]. split.
      + intros j _ k _ Hkn c Hc. rewrite isolation in Hc by exact Hkn. rewrite Hs in Hc. destruct Hc as [<-|[]]. reflexivity.
      + apply IH.
        * intros k. destruct (name_eqb k n) eqn:E.
          -- apply name_eqb_eq in E. subst k. unfold cands_of. rewrite set_final by assumption.
             rewrite exp_aset_same. reflexivity.
          -- apply name_eqb_neq in E. rewrite exp_aset_other by exact E.
             pose proof (isolation fl true bs dirs n b st (length (set_trace fl true bs dirs n b)) k E) as Hi.
             rewrite firstn_all in Hi. rewrite Hi. apply Hs.
        * apply Forall_forall. intros [m c] Hm. rewrite Forall_forall in Hrest. destruct (Hrest _ Hm) as [Hg' He'].
          split; [exact Hg'|]. cbn [fst snd] in *. destruct He' as [He'|(f & d & Hf & Hd)]; [left; exact He'|].
          destruct (name_eqb m n) eqn:E.
          -- apply name_eqb_eq in E. subst m. right. eexists. exists b. split; [apply set_final; assumption | reflexivity].
          -- apply name_eqb_neq in E. right. exists f, d. split; [|exact Hd].
             rewrite (run_other n m E); [exact Hf | apply set_on_file].
  Qed.

  Lemma settled_empty : settled [] [].
  Proof. intros k. reflexivity. Qed.
End Spec.

(* ---------------------------------------------------------------- closing over the regenerated flags *)
Lemma journalled_safe_flag (uf fl : bool) : uf = true -> fl = true ->
  forall bs ks dirs sets, safe_from true ks [] [] (sets_trace fl uf bs dirs sets).
Proof.
  intros -> -> bs ks dirs sets. apply sets_safe; [apply settled_empty|].
  apply Forall_forall. intros nb _. split; [left; reflexivity | left; reflexivity].
Qed.

Lemma large_safe_flag (uf : bool) : uf = true ->
  forall fl bs ks dirs sets, Forall (fun nb => direct bs (snd nb) = true) sets ->
  safe_from true ks [] [] (sets_trace fl uf bs dirs sets).
Proof.
  intros -> fl bs ks dirs sets H. apply sets_safe; [apply settled_empty|].
  apply Forall_forall. intros nb Hnb. rewrite Forall_forall in H. split; [right; left; apply H; exact Hnb | left; reflexivity].
Qed.

Lemma strict_safe_flag (uf fl : bool) : uf = true -> fl = true ->
  forall bs ks dirs st e sets, settled st e ->
  Forall (fun nb => exists f d, assoc st (fst nb) = Some f /\ f_dur f = Some d) sets ->
  safe_from false ks st e (sets_trace fl uf bs dirs sets).
Proof.
  intros -> -> bs ks dirs st e sets Hs H. apply sets_safe; [exact Hs|].
  apply Forall_forall. intros nb Hnb. rewrite Forall_forall in H. split; [left; reflexivity | right; apply H; exact Hnb].
Qed.
