(* C17/Proofs.v — lemmas about the crash model. *)
From Coq Require Import ZArith List Bool Lia.
From C17 Require Import Model.
Import ListNotations.
Open Scope Z_scope.

Lemma name_eqb_refl a : name_eqb a a = true.
Proof. induction a as [|x a IH]; simpl; [reflexivity|]. rewrite Z.eqb_refl, IH. reflexivity. Qed.

Lemma name_eqb_eq a : forall b, name_eqb a b = true <-> a = b.
Proof.
  induction a as [|x a IH]; intros [|y b]; simpl; split; intros H; try reflexivity; try discriminate.
  - apply andb_true_iff in H. destruct H as [H1 H2]. apply Z.eqb_eq in H1. apply IH in H2. congruence.
  - inversion H; subst. rewrite Z.eqb_refl, name_eqb_refl. reflexivity.
Qed.

Lemma name_eqb_neq a b : name_eqb a b = false <-> a <> b.
Proof.
  split; intros H.
  - intros E. apply name_eqb_eq in E. congruence.
  - destruct (name_eqb a b) eqn:E; [|reflexivity]. apply name_eqb_eq in E. contradiction.
Qed.

Lemma bytes_eqb_eq a : forall b, bytes_eqb a b = true <-> a = b.
Proof.
  induction a as [|x a IH]; intros [|y b]; simpl; split; intros H; try reflexivity; try discriminate.
  - apply andb_true_iff in H. destruct H as [H1 H2]. apply Z.eqb_eq in H1. apply IH in H2. congruence.
  - inversion H; subst. rewrite Z.eqb_refl. apply IH. reflexivity.
Qed.

Lemma obytes_eqb_eq a b : obytes_eqb a b = true <-> a = b.
Proof.
  destruct a as [x|], b as [y|]; simpl; split; intros H; try reflexivity; try discriminate.
  - apply bytes_eqb_eq in H. congruence.
  - inversion H; subst. apply bytes_eqb_eq. reflexivity.
Qed.

Section Assoc.
  Context {V : Type}.
  Lemma assoc_aset_same (l : list (name * V)) n v : assoc (aset l n v) n = Some v.
  Proof.
    induction l as [|[m w] l IH]; simpl; [rewrite name_eqb_refl; reflexivity|].
    destruct (name_eqb m n) eqn:E; simpl; rewrite E; [reflexivity | exact IH].
  Qed.
  Lemma assoc_aset_other (l : list (name * V)) n k v : k <> n -> assoc (aset l n v) k = assoc l k.
  Proof.
    intros Hne. induction l as [|[m w] l IH]; simpl.
    - destruct (name_eqb n k) eqn:E; [apply name_eqb_eq in E; congruence | reflexivity].
    - destruct (name_eqb m n) eqn:E; simpl.
      + apply name_eqb_eq in E. subst m. destruct (name_eqb n k) eqn:E2; [apply name_eqb_eq in E2; congruence | reflexivity].
      + destruct (name_eqb m k); [reflexivity | exact IH].
  Qed.
  Lemma assoc_aremove_other (l : list (name * V)) n k : k <> n -> assoc (aremove l n) k = assoc l k.
  Proof.
    intros Hne. induction l as [|[m w] l IH]; simpl; [reflexivity|].
    destruct (name_eqb m n) eqn:E.
    - apply name_eqb_eq in E. subst m. destruct (name_eqb n k) eqn:E2; [apply name_eqb_eq in E2; congruence | exact IH].
    - simpl. destruct (name_eqb m k); [reflexivity | exact IH].
  Qed.
End Assoc.

Lemma name_eqb_sym a b : name_eqb a b = name_eqb b a.
Proof.
  destruct (name_eqb a b) eqn:E.
  - apply name_eqb_eq in E. subst. symmetry. apply name_eqb_refl.
  - apply name_eqb_neq in E. symmetry. apply name_eqb_neq. congruence.
Qed.

Lemma name_eq_dec (a b : name) : {a = b} + {a <> b}.
Proof. destruct (name_eqb a b) eqn:E; [left; apply name_eqb_eq; exact E | right; apply name_eqb_neq; exact E]. Qed.

(* keyed map over an association list *)
Lemma assoc_map_keyed {V} (P : name -> bool) (g : V -> V) (l : list (name * V)) k :
  assoc (map (fun kv => if P (fst kv) then (fst kv, g (snd kv)) else kv) l) k
  = option_map (fun v => if P k then g v else v) (assoc l k).
Proof.
  induction l as [|[m v] l IH]; simpl; [reflexivity|].
  destruct (P m) eqn:Ep; simpl; destruct (name_eqb m k) eqn:E; try exact IH;
    apply name_eqb_eq in E; subst; rewrite Ep; reflexivity.
Qed.

(* ---------------------------------------------------------------- the specification *)
Section Spec.
  Variable jr : bool.

  Definition agree (ks : list name) (st : pstate) (e : expect) : Prop :=
    forall k, In k ks -> forall c, In c (cands_of st k) -> c = exp_of e k.

  (* crash safety of a sequence of sets from persistent state st with expectations e:
       before and after every set, every crash image reads the last completed value of every key
       (so a completed set is durable), and at every instant inside a set every OTHER key does. *)
  Fixpoint safe_from (ks : list name) (st : pstate) (e : expect) (sets : list (name * bytes * list ev)) : Prop :=
    match sets with
    | [] => agree ks st e
    | (n, b, evs) :: rest =>
        agree ks st e /\
        (forall j, (j <= length evs)%nat -> forall k, In k ks -> k <> n ->
           forall c, In c (cands_of (run jr st (firstn j evs)) k) -> c = exp_of e k) /\
        safe_from ks (run jr st evs) (aset e n (Some b)) rest
    end.

  Lemma all_ok_agree ks st e : all_ok ks st e = true <-> agree ks st e.
  Proof.
    unfold all_ok, key_ok, agree. rewrite forallb_forall. split.
    - intros H k Hk c Hc. specialize (H k Hk). rewrite forallb_forall in H. apply obytes_eqb_eq. apply H. exact Hc.
    - intros H k Hk. apply forallb_forall. intros c Hc. apply obytes_eqb_eq. apply H; assumption.
  Qed.

  (* soundness AND completeness of the checker *)
  Theorem check_from_iff ks : forall sets st e, check_from jr ks st e sets = true <-> safe_from ks st e sets.
  Proof.
    induction sets as [|[[n b] evs] rest IH]; intros st e; cbn [check_from safe_from].
    - apply all_ok_agree.
    - rewrite !andb_true_iff, all_ok_agree, IH. split.
      + intros [[H1 H2] H3]. split; [exact H1|]. split; [|exact H3].
        intros j Hj k Hk Hkn c Hc. rewrite forallb_forall in H2.
        assert (Hin : In j (seq 0 (S (length evs)))) by (apply in_seq; lia).
        specialize (H2 j Hin). rewrite forallb_forall in H2. specialize (H2 k Hk).
        apply orb_true_iff in H2. destruct H2 as [H2|H2]; [apply name_eqb_eq in H2; contradiction|].
        unfold key_ok in H2. rewrite forallb_forall in H2. apply obytes_eqb_eq. apply H2. exact Hc.
      + intros (H1 & H2 & H3). split; [split; [exact H1|] | exact H3].
        apply forallb_forall. intros j Hj. apply in_seq in Hj. apply forallb_forall. intros k Hk.
        destruct (name_eqb k n) eqn:E; [reflexivity|]. apply name_eqb_neq in E. simpl.
        apply forallb_forall. intros c Hc. apply obytes_eqb_eq. apply (H2 j ltac:(lia) k Hk E c Hc).
  Qed.

  (* ---------------------------------------------------------------- what a set can do to OTHER keys *)
  Definition on_file (n : name) (e : ev) : Prop :=
    match e with Mkdir _ | FsyncDir _ => True | Open m | Write m _ | Fsync m | Close m | Unlink m => m = n end.

  Definition content (f : fstate) := (f_vol f, f_synced f, f_dirty f).

  Definition stable (k : name) (st st' : pstate) : Prop :=
    (match assoc (p_files st) k, assoc (p_files st') k with
     | None, None => True
     | Some f, Some f' => content f' = content f /\ (f_entry f = true -> f_entry f' = true)
     | _, _ => False
     end) /\
    (forall q b, assoc (p_dirs st) q = Some b -> exists b', assoc (p_dirs st') q = Some b' /\ (b = true -> b' = true)).

  Lemma stable_refl k st : stable k st st.
  Proof. split; [destruct (assoc (p_files st) k); auto | intros q b H; exists b; auto]. Qed.

  Lemma stable_trans k a b c : stable k a b -> stable k b c -> stable k a c.
  Proof.
    intros [F1 D1] [F2 D2]. split.
    - destruct (assoc (p_files a) k) as [fa|], (assoc (p_files b) k) as [fb|], (assoc (p_files c) k) as [fc|]; try tauto.
      destruct F1 as [E1 M1], F2 as [E2 M2]. split; [congruence | auto].
    - intros q x Hq. destruct (D1 q x Hq) as (y & Hy & My). destruct (D2 q y Hy) as (z & Hz & Mz). exists z. auto.
  Qed.

  Lemma dirs_same_stable k st st' : p_dirs st' = p_dirs st -> assoc (p_files st') k = assoc (p_files st) k -> stable k st st'.
  Proof. intros Hd Hf. split; [rewrite Hf; destruct (assoc (p_files st) k); auto | rewrite Hd; intros q b H; exists b; auto]. Qed.

  Lemma apply_stable st e n k : on_file n e -> k <> n -> stable k st (apply_ev jr st e).
  Proof.
    intros Ho Hne. destruct e as [p|m|m d|m|m|p|m]; simpl in *; try subst m.
    - destruct (assoc (p_dirs st) p) eqn:E; [apply stable_refl|]. split; cbn [p_files p_dirs].
      + destruct (assoc (p_files st) k); auto.
      + intros q b Hq. exists b. split; [|auto]. rewrite assoc_aset_other; [exact Hq|]. intros ->. congruence.
    - destruct (assoc (p_files st) n); apply dirs_same_stable; cbn [p_files p_dirs]; try reflexivity; apply assoc_aset_other; exact Hne.
    - destruct (assoc (p_files st) n); [|apply stable_refl]. apply dirs_same_stable; cbn [p_files p_dirs]; [reflexivity | apply assoc_aset_other; exact Hne].
    - destruct (assoc (p_files st) n) as [f|]; [|apply stable_refl].
      destruct jr; [|apply dirs_same_stable; cbn [p_files p_dirs]; [reflexivity | apply assoc_aset_other; exact Hne]].
      unfold sync_ancestors. cbn [p_files p_dirs]. split; cbn [p_files p_dirs].
      + rewrite assoc_aset_other by exact Hne. destruct (assoc (p_files st) k); auto.
      + intros q b Hq. rewrite (assoc_map_keyed (fun q => existsb (name_eqb q) (ancestors n)) (fun _ => true)), Hq. simpl.
        destruct (existsb (name_eqb q) (ancestors n)); eexists; split; try reflexivity; auto.
    - apply stable_refl.
    - unfold sync_children. split; cbn [p_files p_dirs].
      + rewrite (assoc_map_keyed (fun k => name_eqb (parent k) p) set_entry).
        destruct (assoc (p_files st) k) as [f|]; simpl; [|exact I].
        destruct (name_eqb (parent k) p); [split; [reflexivity | reflexivity] | auto].
      + intros q b Hq. rewrite (assoc_map_keyed (fun q => name_eqb (parent q) p) (fun _ => true)), Hq. simpl.
        destruct (name_eqb (parent q) p); eexists; split; try reflexivity; auto.
    - apply dirs_same_stable; cbn [p_files p_dirs]; [reflexivity | apply assoc_aremove_other; exact Hne].
  Qed.

  Lemma run_stable n k : k <> n -> forall evs st, Forall (on_file n) evs -> stable k st (run jr st evs).
  Proof.
    intros Hne. induction evs as [|e evs IH]; intros st H; simpl; [apply stable_refl|].
    inversion H; subst. eapply stable_trans; [apply (apply_stable st e n k); assumption | apply IH; assumption].
  Qed.

  Lemma forall_firstn {A} (P : A -> Prop) j : forall l, Forall P l -> Forall P (firstn j l).
  Proof. induction j as [|j IH]; intros [|x l] H; simpl; try constructor; inversion H; subst; [assumption | apply IH; assumption]. Qed.

  Lemma core_on_file fl uf bs n b : Forall (on_file n) (core_trace fl uf bs n b).
  Proof.
    unfold core_trace. repeat (apply Forall_app; split);
      repeat match goal with |- context [if ?c then _ else _] => destruct c end;
      repeat (apply Forall_app; split); repeat constructor.
  Qed.

  Lemma set_on_file fl uf sd bs st n b : Forall (on_file n) (set_trace fl uf sd bs st n b).
  Proof.
    unfold set_trace. apply Forall_app. split; [|apply Forall_app; split; [apply core_on_file|]].
    - apply Forall_forall. intros e He. apply in_map_iff in He. destruct He as (p & <- & _). exact I.
    - match goal with |- context [if ?c then _ else _] => destruct c end; [|constructor].
      apply Forall_forall. intros e He. apply in_map_iff in He. destruct He as (p & <- & _). exact I.
  Qed.

  (* every ancestor directory of every file is a known directory *)
  Definition dirs_closed (st : pstate) : Prop :=
    forall k f, assoc (p_files st) k = Some f -> forall p, In p (ancestors k) -> assoc (p_dirs st) p <> None.

  Lemma stable_reachable k st st' f f' :
    stable k st st' -> assoc (p_files st) k = Some f -> assoc (p_files st') k = Some f' ->
    (forall p, In p (ancestors k) -> assoc (p_dirs st) p <> None) ->
    reachable st k f = true -> reachable st' k f' = true.
  Proof.
    intros [F D] Hf Hf' Hcl Hr. rewrite Hf, Hf' in F. destruct F as [_ Me].
    unfold reachable in *. apply andb_true_iff in Hr. destruct Hr as [He Hd]. apply andb_true_iff. split; [auto|].
    rewrite forallb_forall in *. intros p Hp. specialize (Hd p Hp). unfold dir_durable in *.
    destruct (assoc (p_dirs st) p) as [b|] eqn:Eb; [|exfalso; exact (Hcl p Hp Eb)].
    destruct (D p b Eb) as (b' & Hb' & Mb). rewrite Hb'. auto.
  Qed.

  (* T17.isolation: whatever the flags, the variant, the payload and the instant, the events of a set on key n
     add no crash outcome to any other key (they can only remove the outcome "name lost") *)
  Theorem isolation fl uf sd bs st st0 n b j k : k <> n -> dirs_closed st ->
    incl (cands_of (run jr st (firstn j (set_trace fl uf sd bs st0 n b))) k) (cands_of st k).
  Proof.
    intros Hne Hcl.
    pose proof (run_stable n k Hne _ st (forall_firstn _ j _ (set_on_file fl uf sd bs st0 n b))) as Hs.
    set (st' := run jr st (firstn j (set_trace fl uf sd bs st0 n b))) in *.
    unfold cands_of. pose proof Hs as Hs2. destruct Hs as [F D].
    destruct (assoc (p_files st) k) as [f|] eqn:Ef, (assoc (p_files st') k) as [f'|] eqn:Ef'; try tauto; [|apply incl_refl].
    destruct F as [Ec Me].
    assert (Hcc : content_cands f' = content_cands f).
    { unfold content_cands. unfold content in Ec. inversion Ec as [[E1 E2 E3]]. rewrite E1, E2, E3. reflexivity. }
    rewrite Hcc. destruct (reachable st k f) eqn:Er.
    - rewrite (stable_reachable k st st' f f' Hs2 Ef Ef' (Hcl k f Ef) Er). apply incl_refl.
    - destruct (reachable st' k f'); [apply incl_appr, incl_refl | apply incl_refl].
  Qed.
End Spec.

(* ---------------------------------------------------------------- durability of the model's traces *)
Section Durable.
  Variable jr : bool.
  Notation run := (run jr).
  Notation apply_ev := (apply_ev jr).

  Lemma run_app a : forall st b, run st (a ++ b) = run (run st a) b.
  Proof. induction a as [|e a IH]; intros st b; simpl; [reflexivity | apply IH]. Qed.

  Lemma existsb_name l q : existsb (name_eqb q) l = true <-> In q l.
  Proof.
    rewrite existsb_exists. split.
    - intros (x & Hx & E). apply name_eqb_eq in E. subst. exact Hx.
    - intros H. exists q. split; [exact H | apply name_eqb_refl].
  Qed.

  (* mkdir of directories that do not exist yet *)
  Lemma mkdirs_spec : forall miss st,
    p_files (run st (map Mkdir miss)) = p_files st /\
    forall q, assoc (p_dirs (run st (map Mkdir miss))) q =
              match assoc (p_dirs st) q with
              | Some b => Some b
              | None => if existsb (name_eqb q) miss then Some false else None
              end.
  Proof.
    induction miss as [|p miss IH]; intros st; simpl.
    - split; [reflexivity|]. intros q. destruct (assoc (p_dirs st) q); reflexivity.
    - destruct (IH (apply_ev st (Mkdir p))) as [Hf Hd]. simpl in Hf, Hd. split.
      + rewrite Hf. destruct (assoc (p_dirs st) p); reflexivity.
      + intros q. rewrite Hd. destruct (assoc (p_dirs st) p) as [bp|] eqn:Ep; cbn [p_dirs].
        * destruct (assoc (p_dirs st) q) eqn:Eq; [reflexivity|].
          destruct (name_eqb q p) eqn:E; [apply name_eqb_eq in E; subst; congruence | reflexivity].
        * destruct (name_eq_dec q p) as [->|Hne].
          -- rewrite assoc_aset_same, Ep, name_eqb_refl. reflexivity.
          -- rewrite assoc_aset_other by exact Hne. apply name_eqb_neq in Hne. rewrite Hne. reflexivity.
  Qed.

  (* fsync of a list of directories *)
  Lemma chain_spec : forall ch st,
    (forall k, match assoc (p_files st) k, assoc (p_files (run st (map FsyncDir ch))) k with
               | None, None => True
               | Some f, Some f' => content f' = content f /\
                                    f_entry f' = f_entry f || existsb (name_eqb (parent k)) ch
               | _, _ => False
               end) /\
    (forall q, assoc (p_dirs (run st (map FsyncDir ch))) q =
               option_map (fun b => b || existsb (name_eqb (parent q)) ch) (assoc (p_dirs st) q)).
  Proof.
    induction ch as [|p ch IH]; intros st; simpl.
    - split; [intros k; destruct (assoc (p_files st) k); [rewrite orb_false_r; auto | exact I]|].
      intros q. destruct (assoc (p_dirs st) q); simpl; [rewrite orb_false_r|]; reflexivity.
    - destruct (IH (sync_children st p)) as [Hf Hd]. split.
      + intros k. specialize (Hf k). unfold sync_children in Hf at 1. cbn [p_files] in Hf.
        rewrite (assoc_map_keyed (fun k => name_eqb (parent k) p) set_entry) in Hf.
        destruct (assoc (p_files st) k) as [f|]; simpl in Hf; [|exact Hf].
        destruct (assoc (p_files (run (sync_children st p) (map FsyncDir ch))) k) as [f'|]; [|exact Hf].
        destruct Hf as [Hc He].
        destruct (name_eqb (parent k) p); simpl in *; split; auto. rewrite He, orb_true_r. reflexivity.
      + intros q. rewrite Hd. unfold sync_children. cbn [p_dirs].
        rewrite (assoc_map_keyed (fun q => name_eqb (parent q) p) (fun _ => true)).
        destruct (assoc (p_dirs st) q) as [b|]; simpl; [|reflexivity].
        destruct (name_eqb (parent q) p); simpl; [rewrite orb_true_r; reflexivity | reflexivity].
  Qed.

  Definition good_payload (fl : bool) (bs : Z) (b : bytes) : Prop := fl = true \/ direct bs b = true \/ b = [].

  (* open/write/fsync/close of file n: its final state, and what happens to the directories *)
  Lemma core_final fl bs n b st : good_payload fl bs b ->
    let st' := run st (core_trace fl true bs n b) in
    let e0 := match assoc (p_files st) n with Some f => f_entry f | None => false end in
    assoc (p_files st') n = Some (mkF b (Some b) false (e0 || jr)) /\
    (forall q, assoc (p_dirs st') q =
               option_map (fun x => if jr && existsb (name_eqb q) (ancestors n) then true else x) (assoc (p_dirs st) q)).
  Proof.
    intros Hg. cbn zeta.
    set (e0 := match assoc (p_files st) n with Some f => f_entry f | None => false end).
    assert (Hopen : exists s0, assoc (p_files (apply_ev st (Open n))) n = Some (mkF [] s0 true e0) /\
                               p_dirs (apply_ev st (Open n)) = p_dirs st).
    { unfold e0. simpl. destruct (assoc (p_files st) n) as [f|]; cbn [p_files p_dirs]; rewrite assoc_aset_same; eexists; split; reflexivity. }
    destruct Hopen as (s0 & Ho & Hod).
    set (st1 := apply_ev st (Open n)) in *.
    assert (Hwrite : forall s, assoc (p_files s) n = Some (mkF [] s0 true e0) ->
              assoc (p_files (apply_ev s (Write n b))) n = Some (mkF b s0 true e0) /\ p_dirs (apply_ev s (Write n b)) = p_dirs s).
    { intros s Hs. simpl. rewrite Hs. cbn [p_files p_dirs f_vol f_synced f_entry]. rewrite assoc_aset_same. auto. }
    assert (Hsync : forall s v, assoc (p_files s) n = Some (mkF v s0 true e0) ->
              assoc (p_files (apply_ev s (Fsync n))) n = Some (mkF v (Some v) false (e0 || jr)) /\
              (forall q, assoc (p_dirs (apply_ev s (Fsync n))) q =
                         option_map (fun x => if jr && existsb (name_eqb q) (ancestors n) then true else x) (assoc (p_dirs s) q))).
    { intros s v Hs. simpl. rewrite Hs. cbn [f_vol f_entry]. destruct jr; cbn [andb].
      - unfold sync_ancestors. cbn [p_files p_dirs]. rewrite assoc_aset_same. split; [reflexivity|].
        intros q. apply (assoc_map_keyed (fun q => existsb (name_eqb q) (ancestors n)) (fun _ => true)).
      - cbn [p_files p_dirs]. rewrite assoc_aset_same. split; [reflexivity|]. intros q. destruct (assoc (p_dirs s) q); reflexivity. }
    unfold core_trace, buffered. cbn [andb].
    destruct (direct bs b) eqn:Ed; cbn [negb andb app].
    - cbn [Model.run]. fold st1. destruct (Hwrite st1 Ho) as [Hw Hwd]. destruct (Hsync _ b Hw) as [Hs Hsd].
      split; [exact Hs|]. intros q. rewrite Hsd, Hwd, Hod. reflexivity.
    - destruct (0 <? zlen b) eqn:Ez; cbn [andb].
      + destruct Hg as [->|[Hg|Hg]]; [| congruence | subst b; discriminate].
        cbn [negb app Model.run]. fold st1. destruct (Hwrite st1 Ho) as [Hw Hwd]. destruct (Hsync _ b Hw) as [Hs Hsd].
        split; [exact Hs|]. intros q. rewrite Hsd, Hwd, Hod. reflexivity.
      + assert (b = []) as ->.
        { apply Z.ltb_ge in Ez. unfold zlen in Ez. destruct b; [reflexivity | simpl in Ez; lia]. }
        destruct fl; cbn [negb andb app Model.run]; fold st1; destruct (Hsync _ [] Ho) as [Hs Hsd];
          (split; [exact Hs|]); intros q; rewrite Hsd, Hod; reflexivity.
  Qed.

  (* ---- the chain of directories ---- *)
  Lemma from_top_self x : forall l, In x l -> In x (from_top x l).
  Proof.
    induction l as [|y l IH]; intros H; [destruct H|]. simpl.
    destruct (name_eqb y x) eqn:E; [exact H|]. destruct H as [->|H]; [rewrite name_eqb_refl in E; discriminate | apply IH; exact H].
  Qed.

  Lemma from_top_filter (P : name -> bool) top rest : forall l, filter P l = top :: rest ->
    forall x, In x (filter P l) -> In x (from_top top l).
  Proof.
    induction l as [|y l IH]; simpl; intros H x Hx; [discriminate|].
    destruct (P y) eqn:Ep.
    - inversion H; subst. rewrite name_eqb_refl. destruct Hx as [->|Hx]; [left; reflexivity|].
      right. apply filter_In in Hx. tauto.
    - destruct (name_eqb y top) eqn:E.
      + apply name_eqb_eq in E. subst y. assert (In top (filter P l)) by (rewrite H; left; reflexivity).
        apply filter_In in H0. destruct H0 as [_ H0]. congruence.
      + apply IH; assumption.
  Qed.

  Lemma from_top_app_l top x : forall l1 l2, In x (from_top top l1) -> In x (from_top top (l1 ++ l2)).
  Proof.
    induction l1 as [|y l1 IH]; intros l2 H; [destruct H|]. simpl in *.
    destruct (name_eqb y top); [|apply IH; exact H]. destruct H as [->|H]; [left; reflexivity | right; apply in_or_app; left; exact H].
  Qed.

  Lemma from_top_app_r top y : forall l1 l2, In top l1 -> In y l2 -> In y (from_top top (l1 ++ l2)).
  Proof.
    induction l1 as [|z l1 IH]; intros l2 H Hy; [destruct H|]. simpl.
    destruct (name_eqb z top) eqn:E; [right; apply in_or_app; right; exact Hy|].
    destruct H as [->|H]; [rewrite name_eqb_refl in E; discriminate | apply IH; assumption].
  Qed.

  Lemma chain_covers n top x : In x (from_top top (path n)) -> existsb (name_eqb (parent x)) (sync_chain n top) = true.
  Proof. intros H. apply existsb_name. unfold sync_chain. apply in_rev. rewrite rev_involutive. apply in_map. exact H. Qed.

  Lemma missing_in_ancestors dirs n q : In q (missing_dirs dirs n) -> In q (ancestors n) /\ ~ In q dirs.
  Proof.
    unfold missing_dirs. intros H. apply filter_In in H. destruct H as [H1 H2]. split; [exact H1|].
    intros Hin. apply existsb_name in Hin. rewrite Hin in H2. discriminate.
  Qed.

  Lemma ancestor_missing_or_known dirs n q : In q (ancestors n) -> In q (missing_dirs dirs n) \/ In q dirs.
  Proof.
    intros H. destruct (existsb (name_eqb q) dirs) eqn:E; [right; apply existsb_name; exact E|].
    left. unfold missing_dirs. apply filter_In. split; [exact H | rewrite E; reflexivity].
  Qed.

  (* ---- the settled states ---- *)
  Definition clean (st : pstate) : Prop :=
    (forall k f, assoc (p_files st) k = Some f -> f_dirty f = false /\ (exists c, f_synced f = Some c) /\ f_entry f = true) /\
    (forall q b, assoc (p_dirs st) q = Some b -> b = true) /\
    dirs_closed st.

  Definition value_of (st : pstate) (k : name) : option bytes :=
    match assoc (p_files st) k with Some f => f_synced f | None => None end.

  Lemma clean_cands st k : clean st -> cands_of st k = [value_of st k].
  Proof.
    intros (Hf & Hd & _). unfold cands_of, value_of. destruct (assoc (p_files st) k) as [f|] eqn:E; [|reflexivity].
    destruct (Hf k f E) as (H1 & (c & H2) & H3).
    assert (Hr : reachable st k f = true).
    { unfold reachable. rewrite H3. simpl. apply forallb_forall. intros p _. unfold dir_durable.
      destruct (assoc (p_dirs st) p) as [b|] eqn:Eb; [apply (Hd p b Eb) | reflexivity]. }
    rewrite Hr. unfold content_cands. rewrite H1, H2. reflexivity.
  Qed.

  Lemma in_keys_assoc {V} (l : list (name * V)) q : In q (map fst l) <-> assoc l q <> None.
  Proof.
    induction l as [|[m v] l IH]; simpl; [split; [tauto | congruence]|].
    destruct (name_eqb m q) eqn:E.
    - apply name_eqb_eq in E. split; [congruence | auto].
    - apply name_eqb_neq in E. rewrite <- IH. split; [intros [H|H]; [contradiction | exact H] | auto].
  Qed.

  (* one completed set from a settled state gives a settled state holding the new value *)
  Lemma set_keeps_clean fl sd bs st n b :
    good_payload fl bs b -> (jr = true \/ sd = true) -> clean st ->
    let st' := run st (set_trace fl true sd bs st n b) in
    clean st' /\ value_of st' n = Some b /\ forall k, k <> n -> value_of st' k = value_of st k.
  Proof.
    intros Hg Hv (Cf & Cd & Cc). cbn zeta.
    pose proof (run_stable jr n) as Hstab.
    set (T := set_trace fl true sd bs st n b).
    assert (Hon : Forall (on_file n) T) by apply set_on_file.
    (* decompose the run *)
    unfold T, set_trace. set (miss := missing_dirs (map fst (p_dirs st)) n).
    set (newfile := match assoc (p_files st) n with None => true | Some _ => false end).
    set (chain := if sd && true && (newfile || negb (match miss with [] => true | _ => false end))
                  then map FsyncDir (sync_chain n (match miss with top :: _ => top | [] => n end)) else []).
    assert (Hmiss : miss = missing_dirs (map fst (p_dirs st)) n) by reflexivity. clearbody miss.
    rewrite !run_app.
    destruct (mkdirs_spec miss st) as [Mf Md].
    set (st1 := run st (map Mkdir miss)) in *.
    destruct (core_final fl bs n b st1 Hg) as [Kf Kd]. cbn zeta in Kf, Kd. rewrite Mf in Kf.
    set (st2 := run st1 (core_trace fl true bs n b)) in *.
    set (e0 := match assoc (p_files st) n with Some f => f_entry f | None => false end) in *.
    (* the final state in terms of st2 *)
    assert (Hfin : exists ch, run st2 chain = run st2 (map FsyncDir ch) /\
              (sd = true -> (newfile = true \/ miss <> []) ->
               (forall q, In q miss -> existsb (name_eqb (parent q)) ch = true) /\ existsb (name_eqb (parent n)) ch = true)).
    { unfold chain. destruct sd; cbn [andb].
      - destruct (newfile || negb (match miss with [] => true | _ => false end)) eqn:Ec.
        + eexists. split; [reflexivity|]. intros _ _. split.
          * intros q Hq. apply chain_covers. destruct miss as [|top rest]; [destruct Hq|].
            apply from_top_app_l.
            apply (from_top_filter (fun p => negb (existsb (name_eqb p) (map fst (p_dirs st)))) top rest);
              [symmetry; exact Hmiss | change (In q (missing_dirs (map fst (p_dirs st)) n)); rewrite <- Hmiss; exact Hq].
          * apply chain_covers. destruct miss as [|top rest].
            -- apply from_top_self. unfold path. apply in_or_app. right. left. reflexivity.
            -- apply from_top_app_r; [|left; reflexivity].
               assert (In top (missing_dirs (map fst (p_dirs st)) n)) by (rewrite <- Hmiss; left; reflexivity).
               apply missing_in_ancestors in H. tauto.
        + exists []. split; [reflexivity|]. intros _ [H|H].
          * rewrite H in Ec. discriminate.
          * destruct miss; [contradiction | rewrite orb_true_r in Ec; discriminate].
      - exists []. split; [reflexivity|]. intros H. discriminate. }
    destruct Hfin as (ch & Hrun & Hcov). rewrite Hrun.
    destruct (chain_spec ch st2) as [Xf Xd].
    set (st3 := run st2 (map FsyncDir ch)) in *.
    (* stability of the other keys over the whole trace *)
    assert (Hst : forall k, k <> n -> stable k st st3).
    { intros k Hk. rewrite <- Hrun. unfold st2, st1. rewrite <- !run_app. apply Hstab; [exact Hk|].
      apply Forall_app; split; [apply Forall_forall; intros e He; apply in_map_iff in He; destruct He as (p & <- & _); exact I|].
      apply Forall_app; split; [apply core_on_file|]. unfold chain.
      match goal with |- context [if ?c then _ else _] => destruct c end; [|constructor].
      apply Forall_forall; intros e He; apply in_map_iff in He; destruct He as (p & <- & _); exact I. }
    (* file n at the end *)
    assert (Hn : exists f, assoc (p_files st3) n = Some f /\ content f = (b, Some b, false) /\ f_entry f = true).
    { specialize (Xf n). rewrite Kf in Xf. destruct (assoc (p_files st3) n) as [f|]; [|contradiction].
      destruct Xf as [Xc Xe]. exists f. split; [reflexivity|]. split; [exact Xc|]. rewrite Xe. cbn [f_entry].
      destruct jr; [rewrite orb_true_r; reflexivity|]. rewrite orb_false_r.
      destruct (assoc (p_files st) n) as [f0|] eqn:E0.
      - unfold e0. destruct (Cf n f0 E0) as (_ & _ & He). rewrite He. reflexivity.
      - destruct Hv as [Hv|Hv]; [discriminate|]. destruct (Hcov Hv) as [_ Hp]; [left; unfold newfile; reflexivity|].
        rewrite Hp. apply orb_true_r. }
    (* directories at the end *)
    assert (Hdirs : forall q, assoc (p_dirs st3) q =
              match assoc (p_dirs st) q with
              | Some x => Some ((if jr && existsb (name_eqb q) (ancestors n) then true else x) || existsb (name_eqb (parent q)) ch)
              | None => if existsb (name_eqb q) miss
                        then Some ((if jr && existsb (name_eqb q) (ancestors n) then true else false) || existsb (name_eqb (parent q)) ch)
                        else None
              end).
    { intros q. rewrite Xd, Kd, Md. destruct (assoc (p_dirs st) q); [reflexivity|]. destruct (existsb (name_eqb q) miss); reflexivity. }
    split; [split; [|split]|split].
    - (* files clean *)
      intros k f Hk. destruct (name_eq_dec k n) as [->|Hne].
      + destruct Hn as (f1 & H1 & H2 & H3). rewrite H1 in Hk. inversion Hk; subst f1. unfold content in H2. injection H2 as E1 E2 E3.
        split; [exact E3|]. split; [exists b; exact E2 | exact H3].
      + destruct (Hst k Hne) as [F _]. rewrite Hk in F. destruct (assoc (p_files st) k) as [f0|] eqn:E0; [|contradiction].
        destruct F as [Ec Me]. destruct (Cf k f0 E0) as (D1 & (c & D2) & D3). unfold content in Ec. injection Ec as E1 E2 E3.
        split; [congruence|]. split; [exists c; congruence | auto].
    - (* directories durable *)
      intros q x Hq. rewrite Hdirs in Hq. destruct (assoc (p_dirs st) q) as [y|] eqn:Ey.
      + inversion Hq. rewrite (Cd q y Ey). destruct (jr && existsb (name_eqb q) (ancestors n)); reflexivity.
      + destruct (existsb (name_eqb q) miss) eqn:Em; [|discriminate]. inversion Hq. apply existsb_name in Em.
        pose proof Em as Em2. rewrite Hmiss in Em2. destruct (missing_in_ancestors _ _ _ Em2) as [Ha _]. destruct Hv as [->|Hv].
        * cbn [andb]. rewrite (proj2 (existsb_name _ _) Ha). reflexivity.
        * destruct (Hcov Hv) as [Hq' _]; [right; intros E; rewrite E in Em; destruct Em|]. rewrite (Hq' q Em). apply orb_true_r.
    - (* closure *)
      intros k f Hk p Hp. rewrite Hdirs. destruct (name_eq_dec k n) as [->|Hne].
      + destruct (ancestor_missing_or_known (map fst (p_dirs st)) n p Hp) as [H|H].
        * rewrite <- Hmiss in H. destruct (assoc (p_dirs st) p); [discriminate|]. rewrite (proj2 (existsb_name _ _) H). discriminate.
        * apply in_keys_assoc in H. destruct (assoc (p_dirs st) p); [discriminate | contradiction].
      + destruct (Hst k Hne) as [F _]. rewrite Hk in F. destruct (assoc (p_files st) k) as [f0|] eqn:E0; [|contradiction].
        pose proof (Cc k f0 E0 p Hp) as H. destruct (assoc (p_dirs st) p); [discriminate | contradiction].
    - unfold value_of. destruct Hn as (f1 & H1 & H2 & _). rewrite H1. unfold content in H2. injection H2 as E1 E2 E3. exact E2.
    - intros k Hne. unfold value_of. destruct (Hst k Hne) as [F _].
      destruct (assoc (p_files st) k) as [f0|], (assoc (p_files st3) k) as [f3|]; try tauto.
      destruct F as [Ec _]. unfold content in Ec. injection Ec as E1 E2 E3. exact E2.
  Qed.
End Durable.

Section Main.
  Variable jr : bool.

  Lemma exp_aset_same e n v : exp_of (aset e n v) n = v.
  Proof. unfold exp_of. rewrite assoc_aset_same. reflexivity. Qed.
  Lemma exp_aset_other e n k v : k <> n -> exp_of (aset e n v) k = exp_of e k.
  Proof. intros H. unfold exp_of. rewrite assoc_aset_other by exact H. reflexivity. Qed.

  (* T17.durable: every sequence of sets (any keys, any payloads) from a settled state is crash safe *)
  Theorem sets_safe fl sd bs ks : forall sets st e,
    clean st -> (forall k, exp_of e k = value_of st k) -> (jr = true \/ sd = true) ->
    Forall (fun nb => good_payload fl bs (snd nb)) sets ->
    safe_from jr ks st e (sets_trace jr fl true sd bs st sets).
  Proof.
    induction sets as [|[n b] sets IH]; intros st e Hc Hm Hv Hall; cbn [sets_trace safe_from].
    - intros k _ c Hin. rewrite (clean_cands st k Hc) in Hin. destruct Hin as [<-|[]]. symmetry. apply Hm.
    - inversion Hall as [|? ? Hg Hrest]; subst. cbn [snd] in Hg.
      split; [intros k _ c Hin; rewrite (clean_cands st k Hc) in Hin; destruct Hin as [<-|[]]; symmetry; apply Hm|].
      split.
      + intros j _ k _ Hkn c Hin.
        apply (isolation jr fl true sd bs st st n b j k Hkn (proj2 (proj2 Hc))) in Hin.
        rewrite (clean_cands st k Hc) in Hin. destruct Hin as [<-|[]]. symmetry. apply Hm.
      + destruct (set_keeps_clean jr fl sd bs st n b Hg Hv Hc) as (Hc' & Hn & Ho).
        apply IH; [exact Hc' | | exact Hv | exact Hrest].
        intros k. destruct (name_eq_dec k n) as [->|Hne].
        * rewrite exp_aset_same. symmetry. exact Hn.
        * rewrite exp_aset_other by exact Hne. rewrite Ho by exact Hne. apply Hm.
  Qed.

  Lemma clean_empty : clean empty_state.
  Proof. split; [|split]; intros k f H; discriminate. Qed.
End Main.

(* ---------------------------------------------------------------- closing over the regenerated flags *)
Lemma all_good_flush bs (sets : list (name * bytes)) : Forall (fun nb => good_payload true bs (snd nb)) sets.
Proof. apply Forall_forall. intros nb _. left. reflexivity. Qed.

(* both persistence variants, first-time keys included: needs use_fsync, the flush and the directory syncs *)
Lemma safe_flag (uf fl sd : bool) : uf = true -> fl = true -> sd = true ->
  forall jr bs ks sets, safe_from jr ks empty_state [] (sets_trace jr fl uf sd bs empty_state sets).
Proof.
  intros -> -> -> jr bs ks sets. apply sets_safe; [apply clean_empty | intros k; reflexivity | right; reflexivity | apply all_good_flush].
Qed.

(* from any settled state (a directory found at opening whose contents are durable) *)
Lemma safe_from_state_flag (uf fl sd : bool) : uf = true -> fl = true -> sd = true ->
  forall jr bs ks st e sets, clean st -> (forall k, exp_of e k = value_of st k) ->
  safe_from jr ks st e (sets_trace jr fl uf sd bs st sets).
Proof.
  intros -> -> -> jr bs ks st e sets Hc Hm. apply sets_safe; [exact Hc | exact Hm | right; reflexivity | apply all_good_flush].
Qed.

(* journalled variant without the directory syncs *)
Lemma journalled_safe_flag (uf fl : bool) : uf = true -> fl = true ->
  forall sd bs ks sets, safe_from true ks empty_state [] (sets_trace true fl uf sd bs empty_state sets).
Proof.
  intros -> -> sd bs ks sets. apply sets_safe; [apply clean_empty | intros k; reflexivity | left; reflexivity | apply all_good_flush].
Qed.

Lemma large_safe_flag (uf : bool) : uf = true ->
  forall fl sd bs ks sets, Forall (fun nb => direct bs (snd nb) = true) sets ->
  safe_from true ks empty_state [] (sets_trace true fl uf sd bs empty_state sets).
Proof.
  intros -> fl sd bs ks sets H. apply sets_safe; [apply clean_empty | intros k; reflexivity | left; reflexivity|].
  apply Forall_forall. intros nb Hnb. rewrite Forall_forall in H. right. left. apply H. exact Hnb.
Qed.

(* ---------------------------------------------------------------- what can happen to the key in flight *)
Lemma prefixes_spec : forall v p, In p (prefixes v) -> exists r, v = p ++ r.
Proof.
  induction v as [|x v IH]; intros p H; simpl in H.
  - destruct H as [<-|[]]. exists []. reflexivity.
  - destruct H as [<-|H]; [exists (x :: v); reflexivity|].
    apply in_map_iff in H. destruct H as (q & <- & Hq). destruct (IH q Hq) as (r & ->). exists r. reflexivity.
Qed.

(* the content a crash can leave of a file whose name survives: the content last fsynced, or a byte prefix of what
   has been written since the truncation, or (torn in-place overwrite) such a prefix laid over the fsynced content *)
Theorem content_cands_shape f x : In x (content_cands f) ->
  f_synced f = Some x \/
  exists p r, f_vol f = p ++ r /\ (x = p \/ exists old, f_synced f = Some old /\ x = overlay p old).
Proof.
  unfold content_cands. intros H. apply in_app_or in H. destruct H as [H|H].
  - destruct (f_synced f) as [c|]; [|destruct H]. destruct H as [<-|[]]. left. reflexivity.
  - destruct (f_dirty f); [|destruct H]. apply in_app_or in H. destruct H as [H|H].
    + destruct (prefixes_spec _ _ H) as (r & Hr). right. exists x, r. auto.
    + destruct (f_synced f) as [old|]; [|destruct H]. apply in_map_iff in H. destruct H as (p & <- & Hp).
      destruct (prefixes_spec _ _ Hp) as (r & Hr). right. exists p, r. split; [exact Hr|]. right. exists old. auto.
Qed.
