From Coq Require Import ZArith List Bool Lia.
From C17 Require Import Model Proofs.
Import ListNotations.
Open Scope Z_scope.

Section Inflight.
  Variable jr : bool.
  Notation run := (run jr).
  Notation apply_ev := (apply_ev jr).

  (* names never lose durability, whatever the event *)
  Definition mono (k : name) (st st' : pstate) : Prop :=
    (forall f, assoc (p_files st) k = Some f -> f_entry f = true ->
               exists f', assoc (p_files st') k = Some f' /\ f_entry f' = true) /\
    (forall q b, assoc (p_dirs st) q = Some b -> exists b', assoc (p_dirs st') q = Some b' /\ (b = true -> b' = true)).

  Lemma mono_refl k st : mono k st st.
  Proof. split; [intros f H E; exists f; auto | intros q b H; exists b; auto]. Qed.

  Lemma mono_trans k a b c : mono k a b -> mono k b c -> mono k a c.
  Proof.
    intros [F1 D1] [F2 D2]. split.
    - intros f H E. destruct (F1 f H E) as (f1 & H1 & E1). apply (F2 f1 H1 E1).
    - intros q x Hq. destruct (D1 q x Hq) as (y & Hy & My). destruct (D2 q y Hy) as (z & Hz & Mz). exists z. auto.
  Qed.

  Definition no_unlink (e : ev) : Prop := match e with Unlink _ => False | _ => True end.

  Lemma apply_mono k st e : no_unlink e -> mono k st (apply_ev st e).
  Proof.
    intros Hnu. destruct e as [p|m|m d|m|m|p|m]; simpl; [| | | | | |contradiction].
    - destruct (assoc (p_dirs st) p) eqn:E; [apply mono_refl|]. split; cbn [p_files p_dirs].
      + intros f H He. exists f. auto.
      + intros q b Hq. exists b. split; [|auto]. rewrite assoc_aset_other; [exact Hq|]. intros ->. congruence.
    - destruct (assoc (p_files st) m) as [fm|] eqn:Em; split; cbn [p_files p_dirs]; try (intros q b Hq; exists b; auto).
      + intros f H He. destruct (name_eq_dec k m) as [->|Hne].
        * rewrite assoc_aset_same. eexists. split; [reflexivity|]. cbn [f_entry]. congruence.
        * rewrite assoc_aset_other by exact Hne. exists f. auto.
      + intros f H He. destruct (name_eq_dec k m) as [->|Hne]; [congruence|].
        rewrite assoc_aset_other by exact Hne. exists f. auto.
    - destruct (assoc (p_files st) m) as [fm|] eqn:Em; [|apply mono_refl]. split; cbn [p_files p_dirs]; try (intros q b Hq; exists b; auto).
      intros f H He. destruct (name_eq_dec k m) as [->|Hne].
      + rewrite assoc_aset_same. eexists. split; [reflexivity|]. cbn [f_entry]. congruence.
      + rewrite assoc_aset_other by exact Hne. exists f. auto.
    - destruct (assoc (p_files st) m) as [fm|] eqn:Em; [|apply mono_refl].
      assert (Hf : forall f, assoc (p_files st) k = Some f -> f_entry f = true ->
                exists f', assoc (aset (p_files st) m (mkF (f_vol fm) (Some (f_vol fm)) false (f_entry fm || jr))) k = Some f' /\ f_entry f' = true).
      { intros f H He. destruct (name_eq_dec k m) as [->|Hne].
        - rewrite assoc_aset_same. eexists. split; [reflexivity|]. cbn [f_entry]. rewrite Em in H. inversion H; subst. rewrite He. reflexivity.
        - rewrite assoc_aset_other by exact Hne. exists f. auto. }
      destruct jr; [|split; cbn [p_files p_dirs]; [exact Hf | intros q b Hq; exists b; auto]].
      unfold sync_ancestors. split; cbn [p_files p_dirs]; [exact Hf|].
      intros q b Hq. rewrite (assoc_map_keyed (fun q => existsb (name_eqb q) (ancestors m)) (fun _ => true)), Hq. simpl.
      destruct (existsb (name_eqb q) (ancestors m)); eexists; split; try reflexivity; auto.
    - apply mono_refl.
    - unfold sync_children. split; cbn [p_files p_dirs].
      + intros f H He. rewrite (assoc_map_keyed (fun k => name_eqb (parent k) p) set_entry), H. simpl.
        destruct (name_eqb (parent k) p); eexists; split; try reflexivity; auto.
      + intros q b Hq. rewrite (assoc_map_keyed (fun q => name_eqb (parent q) p) (fun _ => true)), Hq. simpl.
        destruct (name_eqb (parent q) p); eexists; split; try reflexivity; auto.
  Qed.

  Lemma run_mono k : forall evs st, Forall no_unlink evs -> mono k st (run st evs).
  Proof.
    induction evs as [|e evs IH]; intros st H; simpl; [apply mono_refl|]. inversion H; subst.
    apply (mono_trans k st (apply_ev st e)); [apply apply_mono; assumption | apply IH; assumption].
  Qed.

  Lemma no_unlink_firstn j : forall l, Forall no_unlink l -> Forall no_unlink (firstn j l).
  Proof. induction j as [|j IH]; intros [|x l] H; simpl; try constructor; inversion H; subst; [assumption | apply IH; assumption]. Qed.

  Lemma set_no_unlink fl uf sd bs st n b : Forall no_unlink (set_trace fl uf sd bs st n b).
  Proof.
    unfold set_trace, core_trace. repeat (apply Forall_app; split);
      repeat match goal with |- context [if ?c then _ else _] => destruct c end;
      repeat (apply Forall_app; split); repeat constructor;
      try (apply Forall_forall; intros e He; apply in_map_iff in He; destruct He as (p & <- & _); exact I).
  Qed.

  (* the content of file n is touched only by its own open / write / fsync *)
  Definition content_of (st : pstate) (n : name) : option (bytes * option bytes * bool) :=
    option_map content (assoc (p_files st) n).

  Definition silent (e : ev) : Prop := match e with Mkdir _ | FsyncDir _ | Close _ => True | _ => False end.

  Lemma silent_content n e st : silent e -> content_of (apply_ev st e) n = content_of st n.
  Proof.
    destruct e as [p|m|m d|m|m|p|m]; simpl; intros H; try contradiction; try reflexivity.
    - destruct (assoc (p_dirs st) p); reflexivity.
    - unfold content_of, sync_children. cbn [p_files].
      rewrite (assoc_map_keyed (fun k => name_eqb (parent k) p) set_entry).
      destruct (assoc (p_files st) n) as [f|]; simpl; [|reflexivity]. destruct (name_eqb (parent n) p); reflexivity.
  Qed.

  Lemma silent_run n : forall evs st, Forall silent evs -> content_of (run st evs) n = content_of st n.
  Proof.
    induction evs as [|e evs IH]; intros st H; simpl; [reflexivity|]. inversion H; subst.
    rewrite IH by assumption. apply silent_content. assumption.
  Qed.

  (* the contents file n goes through during open; [write b]; fsync; close, starting from content c0 *)
  Definition phases (c0 : option (bytes * option bytes * bool)) (b : bytes) : list (option (bytes * option bytes * bool)) :=
    let s0 := match c0 with Some (_, s, _) => s | None => None end in
    [c0; Some ([], s0, true); Some (b, s0, true); Some (b, Some b, false); Some ([], Some [], false)].

  Lemma content_open n st : content_of (apply_ev st (Open n)) n =
    Some ([], match content_of st n with Some (_, s, _) => s | None => None end, true).
  Proof.
    unfold content_of. simpl. destruct (assoc (p_files st) n) as [f|]; cbn [p_files]; rewrite assoc_aset_same; reflexivity.
  Qed.

  Lemma content_write n st v s d : content_of st n = Some (v, s, true) ->
    content_of (apply_ev st (Write n d)) n = Some (v ++ d, s, true).
  Proof.
    unfold content_of. simpl. destruct (assoc (p_files st) n) as [f|] eqn:E; simpl; [|discriminate].
    intros H. inversion H; subst. cbn [p_files]. rewrite assoc_aset_same. reflexivity.
  Qed.

  Lemma content_fsync n st v s d : content_of st n = Some (v, s, d) ->
    content_of (apply_ev st (Fsync n)) n = Some (v, Some v, false).
  Proof.
    unfold content_of. simpl. destruct (assoc (p_files st) n) as [f|] eqn:E; simpl; [|discriminate].
    intros H. inversion H; subst. destruct jr; unfold sync_ancestors; cbn [p_files]; rewrite assoc_aset_same; reflexivity.
  Qed.

  Lemma firstn_in_phases fl bs n b st j : good_payload fl bs b ->
    In (content_of (run st (firstn j (core_trace fl true bs n b))) n) (phases (content_of st n) b).
  Proof.
    intros Hg. unfold phases.
    set (s0 := match content_of st n with Some (_, s, _) => s | None => None end).
    pose proof (content_open n st) as Ho. fold s0 in Ho.
    assert (Shape : core_trace fl true bs n b = [Open n; Write n b; Fsync n; Close n] \/
                    (b = [] /\ core_trace fl true bs n b = [Open n; Fsync n; Close n])).
    { unfold core_trace, buffered. destruct (direct bs b) eqn:Ed; cbn [negb andb app]; [left; reflexivity|].
      destruct (0 <? zlen b) eqn:Ez; cbn [andb].
      - destruct Hg as [->|[Hg|Hg]]; [left; reflexivity | congruence | subst b; discriminate].
      - right. assert (b = []) as ->.
        { apply Z.ltb_ge in Ez. unfold zlen in Ez. destruct b; [reflexivity | simpl in Ez; lia]. }
        split; [reflexivity|]. destruct fl; reflexivity. }
    destruct Shape as [-> | [-> ->]].
    - pose proof (content_write n _ [] s0 b Ho) as Hw. simpl app in Hw.
      pose proof (content_fsync n _ _ _ _ Hw) as Hs.
      destruct j as [|[|[|[|j]]]]; cbn [firstn Model.run In].
      + left. reflexivity.
      + right. left. symmetry. exact Ho.
      + right. right. left. symmetry. exact Hw.
      + right. right. right. left. symmetry. exact Hs.
      + right. right. right. left. rewrite firstn_nil. cbn [Model.run].
        rewrite (silent_content n (Close n)) by exact I. symmetry. exact Hs.
    - pose proof (content_fsync n _ _ _ _ Ho) as Hs.
      destruct j as [|[|[|j]]]; cbn [firstn Model.run In].
      + left. reflexivity.
      + right. left. symmetry. exact Ho.
      + right. right. right. right. left. symmetry. exact Hs.
      + right. right. right. right. left. rewrite firstn_nil. cbn [Model.run].
        rewrite (silent_content n (Close n)) by exact I. symmetry. exact Hs.
  Qed.

  Lemma silent_mkdirs l : Forall silent (map Mkdir l).
  Proof. apply Forall_forall. intros e He. apply in_map_iff in He. destruct He as (p & <- & _). exact I. Qed.
  Lemma silent_chain l : Forall silent (map FsyncDir l).
  Proof. apply Forall_forall. intros e He. apply in_map_iff in He. destruct He as (p & <- & _). exact I. Qed.
  Lemma silent_firstn j : forall l, Forall silent l -> Forall silent (firstn j l).
  Proof. induction j as [|j IH]; intros [|x l] H; simpl; try constructor; inversion H; subst; [assumption | apply IH; assumption]. Qed.

  Lemma set_prefix_phases fl sd bs st n b j : good_payload fl bs b ->
    In (content_of (run st (firstn j (set_trace fl true sd bs st n b))) n) (phases (content_of st n) b).
  Proof.
    intros Hg. unfold set_trace.
    set (M := map Mkdir (missing_dirs (map fst (p_dirs st)) n)).
    match goal with |- context [core_trace fl true bs n b ++ ?c] => set (Ch := c) end.
    assert (HM : Forall silent M) by apply silent_mkdirs.
    assert (HC : Forall silent Ch).
    { unfold Ch. match goal with |- context [if ?c then _ else _] => destruct c end; [apply silent_chain | constructor]. }
    rewrite firstn_app, run_app, firstn_app, run_app.
    rewrite (silent_run n _ _ (silent_firstn _ _ HC)).
    set (st1 := run st (firstn j M)).
    assert (E1 : content_of st1 n = content_of st n) by (apply silent_run; apply silent_firstn; exact HM).
    rewrite <- E1. apply firstn_in_phases. exact Hg.
  Qed.

  Lemma some_inj {A} (a b : A) : Some a = Some b -> a = b.
  Proof. congruence. Qed.

  Definition allowed (old : option bytes) (b : bytes) (c : option bytes) : Prop :=
    c = old \/ exists p r, b = p ++ r /\ (c = Some p \/ exists o, old = Some o /\ c = Some (overlay p o)).

  Lemma content_cands_of f v s d : content f = (v, s, d) ->
    content_cands f = (match s with Some c => [c] | None => [] end)
                      ++ (if d then prefixes v ++ (match s with Some old => map (fun p => overlay p old) (prefixes v) | None => [] end) else []).
  Proof. unfold content, content_cands. intros H. injection H as -> -> ->. reflexivity. Qed.

  (* T17.torn — what a crash at ANY instant of a set on key n (payload b) can leave of key n itself: its previous
     completed value (None if it had none), a byte prefix of b (the empty file included, so the previous value can be
     lost), or such a prefix laid over the previous value (torn in-place overwrite).  Nothing else. *)
  Theorem inflight_outcomes fl sd bs st n b j c :
    good_payload fl bs b -> clean st ->
    In c (cands_of (run st (firstn j (set_trace fl true sd bs st n b))) n) ->
    allowed (value_of st n) b c.
  Proof.
    intros Hg (Cf & Cd & Cc) Hin.
    pose proof (set_prefix_phases fl sd bs st n b j Hg) as Hph.
    pose proof (run_mono n (firstn j (set_trace fl true sd bs st n b)) st (no_unlink_firstn _ _ (set_no_unlink fl true sd bs st n b))) as [Mf Md].
    set (st' := run st (firstn j (set_trace fl true sd bs st n b))) in *.
    unfold cands_of in Hin. unfold content_of in Hph.
    destruct (assoc (p_files st') n) as [f|] eqn:Ef.
    - apply in_app_or in Hin. destruct Hin as [Hin|Hin].
      + (* name lost *)
        destruct (reachable st' n f) eqn:Er; [destruct Hin|]. destruct Hin as [<-|[]]. left. unfold value_of.
        destruct (assoc (p_files st) n) as [f0|] eqn:E0; [|reflexivity]. exfalso.
        destruct (Cf n f0 E0) as (_ & _ & He). destruct (Mf f0 eq_refl He) as (f1 & H1 & He1).
        inversion H1; subst f1.
        unfold reachable in Er. rewrite He1 in Er. simpl in Er.
        assert (forallb (dir_durable st') (ancestors n) = true); [|congruence].
        apply forallb_forall. intros p Hp. unfold dir_durable.
        pose proof (Cc n f0 E0 p Hp) as Hd. destruct (assoc (p_dirs st) p) as [x|] eqn:Ex; [|contradiction].
        destruct (Md p x Ex) as (x' & Hx' & Mx). rewrite Hx'. apply Mx. apply (Cd p x Ex).
      + apply in_map_iff in Hin. destruct Hin as (x & <- & Hx).
        unfold value_of. simpl option_map in Hph.
        assert (Hold : forall v s d, option_map content (assoc (p_files st) n) = Some (v, s, d) ->
                  s = match assoc (p_files st) n with Some f0 => f_synced f0 | None => None end /\ d = false).
        { intros v s d H. destruct (assoc (p_files st) n) as [f0|] eqn:E0; [|discriminate]. simpl in H.
          unfold content in H. injection H as _ <- <-. destruct (Cf n f0 E0) as (D & _ & _). auto. }
        set (old := match assoc (p_files st) n with Some f0 => f_synced f0 | None => None end) in *.
        assert (Hs0 : match option_map content (assoc (p_files st) n) with Some (_, s, _) => s | None => None end = old).
        { unfold old. destruct (assoc (p_files st) n) as [f0|]; reflexivity. }
        unfold phases in Hph. rewrite Hs0 in Hph. cbn [In] in Hph.
        destruct Hph as [H|[H|[H|[H|[H|[]]]]]].
        * (* untouched *)
          destruct (assoc (p_files st) n) as [f0|] eqn:E0; [|discriminate]. simpl in H. apply some_inj in H.
          destruct (Cf n f0 E0) as (D1 & (o & D2) & _).
          rewrite (content_cands_of f (f_vol f0) (f_synced f0) (f_dirty f0) (eq_sym H)) in Hx.
          rewrite D1, D2 in Hx. simpl in Hx. destruct Hx as [<-|[]]. left. unfold old. rewrite D2. reflexivity.
        * apply some_inj in H. rewrite (content_cands_of f _ _ _ (eq_sym H)) in Hx.
          apply in_app_or in Hx. destruct Hx as [Hx|Hx].
          -- destruct old as [o|]; [|destruct Hx]. destruct Hx as [<-|[]]. left. reflexivity.
          -- right. simpl in Hx. destruct Hx as [<-|Hx]; [exists [], b; auto|].
             destruct old as [o|]; [|destruct Hx]. simpl in Hx. destruct Hx as [<-|[]].
             exists [], b. split; [reflexivity|]. right. exists o. auto.
        * apply some_inj in H. rewrite (content_cands_of f _ _ _ (eq_sym H)) in Hx.
          apply in_app_or in Hx. destruct Hx as [Hx|Hx].
          -- destruct old as [o|]; [|destruct Hx]. destruct Hx as [<-|[]]. left. reflexivity.
          -- right. apply in_app_or in Hx. destruct Hx as [Hx|Hx].
             ++ destruct (prefixes_spec _ _ Hx) as (r & Hr). exists x, r. auto.
             ++ destruct old as [o|]; [|destruct Hx]. apply in_map_iff in Hx. destruct Hx as (p & <- & Hp).
                destruct (prefixes_spec _ _ Hp) as (r & Hr). exists p, r. split; [exact Hr|]. right. exists o. auto.
        * apply some_inj in H. rewrite (content_cands_of f _ _ _ (eq_sym H)) in Hx. simpl in Hx. destruct Hx as [<-|[]].
          right. exists b, []. split; [symmetry; apply app_nil_r | left; reflexivity].
        * apply some_inj in H. rewrite (content_cands_of f _ _ _ (eq_sym H)) in Hx. simpl in Hx. destruct Hx as [<-|[]].
          right. exists [], b. split; [reflexivity | left; reflexivity].
    - destruct Hin as [<-|[]]. left. unfold value_of. simpl in Hph. unfold phases in Hph. cbn [In] in Hph.
      destruct Hph as [H|[H|[H|[H|[H|[]]]]]]; try discriminate.
      destruct (assoc (p_files st) n); [discriminate | reflexivity].
  Qed.
End Inflight.
