(* C08/Single.v — T8.single: forward error of evaluating the + * core (reductions are folds of + / * ) of
   non-negative data with a rounding after every operation, against exact evaluation.
   Standard (1+u)^k argument over an ABSTRACT rounding operator: no floating-point library is used; rationals
   are Coq's Q (axiom-free).  For binary32 round-to-nearest u = 2^-24 (no overflow / underflow). *)
From Coq Require Import QArith Lqa List Lia.
Import ListNotations.
Open Scope Q_scope.

Inductive ex := Leaf (q : Q) | Add (a b : ex) | Mul (a b : ex).

Fixpoint ev (e : ex) : Q :=
  match e with Leaf q => q | Add a b => ev a + ev b | Mul a b => ev a * ev b end.

Fixpoint nonneg (e : ex) : Prop :=
  match e with Leaf q => 0 <= q | Add a b | Mul a b => nonneg a /\ nonneg b end.

(* number of roundings a value has gone through, at worst *)
Fixpoint rk (e : ex) : nat :=
  match e with Leaf _ => 1%nat | Add a b => S (Nat.max (rk a) (rk b)) | Mul a b => S (rk a + rk b) end.

Fixpoint pw (x : Q) (n : nat) : Q := match n with O => 1 | S k => x * pw x k end.

Section Rounding.
  Variable u : Q.
  Hypothesis u_ge0 : 0 <= u.
  Hypothesis u_le1 : u <= 1.
  Variable rnd : Q -> Q.
  (* |rnd x - x| <= u |x|, stated for the non-negative x it is used on *)
  Hypothesis rnd_rel : forall x, 0 <= x -> x * (1 - u) <= rnd x /\ rnd x <= x * (1 + u).

  Fixpoint evr (e : ex) : Q :=
    match e with
    | Leaf q => rnd q                      (* the operand itself is stored rounded *)
    | Add a b => rnd (evr a + evr b)
    | Mul a b => rnd (evr a * evr b)
    end.

  Lemma pw_up_ge1 : forall n, 1 <= pw (1 + u) n.
  Proof. induction n; cbn; [lra | nra]. Qed.

  Lemma pw_dn_bounds : forall n, 0 <= pw (1 - u) n /\ pw (1 - u) n <= 1.
  Proof. induction n; cbn; [lra | nra]. Qed.

  Lemma pw_up_mono : forall n m, (n <= m)%nat -> pw (1 + u) n <= pw (1 + u) m.
  Proof.
    intros n m H. induction H; [lra |]. cbn. pose proof (pw_up_ge1 m). pose proof (pw_up_ge1 n). nra.
  Qed.

  Lemma pw_dn_anti : forall n m, (n <= m)%nat -> pw (1 - u) m <= pw (1 - u) n.
  Proof.
    intros n m H. induction H; [lra |]. cbn. pose proof (pw_dn_bounds m). pose proof (pw_dn_bounds n). nra.
  Qed.

  Lemma pw_add : forall x n m, pw x (n + m) == pw x n * pw x m.
  Proof. intros x n m. induction n; cbn; [ring | rewrite IHn; ring]. Qed.

  Theorem single_bound : forall e, nonneg e ->
    0 <= ev e /\ ev e * pw (1 - u) (rk e) <= evr e /\ evr e <= ev e * pw (1 + u) (rk e).
  Proof.
    induction e as [q | a IHa b IHb | a IHa b IHb]; cbn [ev evr rk nonneg]; intro N.
    - destruct (rnd_rel q N) as [L U]. cbn [pw]. split; [exact N |]. split; nra.
    - destruct N as [Na Nb]. destruct (IHa Na) as [A0 [AL AU]]. destruct (IHb Nb) as [B0 [BL BU]].
      pose proof (pw_dn_bounds (rk a)) as [Da0 Da1]. pose proof (pw_dn_bounds (rk b)) as [Db0 Db1].
      set (m := Nat.max (rk a) (rk b)).
      assert (Ma : (rk a <= m)%nat) by apply Nat.le_max_l. assert (Mb : (rk b <= m)%nat) by apply Nat.le_max_r.
      pose proof (pw_up_mono _ _ Ma) as UA. pose proof (pw_up_mono _ _ Mb) as UB.
      pose proof (pw_dn_anti _ _ Ma) as LA. pose proof (pw_dn_anti _ _ Mb) as LB.
      pose proof (pw_dn_bounds m) as [Dm0 Dm1]. pose proof (pw_up_ge1 m) as Um.
      assert (S0 : 0 <= evr a + evr b) by nra.
      destruct (rnd_rel _ S0) as [L U]. cbn [pw].
      assert (SL : (ev a + ev b) * pw (1 - u) m <= evr a + evr b) by nra.
      assert (SU : evr a + evr b <= (ev a + ev b) * pw (1 + u) m) by nra.
      split; [lra |]. split; nra.
    - destruct N as [Na Nb]. destruct (IHa Na) as [A0 [AL AU]]. destruct (IHb Nb) as [B0 [BL BU]].
      pose proof (pw_dn_bounds (rk a)) as [Da0 Da1]. pose proof (pw_dn_bounds (rk b)) as [Db0 Db1].
      pose proof (pw_up_ge1 (rk a)) as Ua. pose proof (pw_up_ge1 (rk b)) as Ub.
      assert (Ea0 : 0 <= evr a) by nra. assert (Eb0 : 0 <= evr b) by nra.
      assert (P0 : 0 <= evr a * evr b) by nra.
      destruct (rnd_rel _ P0) as [L U]. cbn [pw].
      assert (PL : ev a * ev b * (pw (1 - u) (rk a) * pw (1 - u) (rk b)) <= evr a * evr b).
      { assert (0 <= ev a * pw (1 - u) (rk a)) by nra. assert (0 <= ev b * pw (1 - u) (rk b)) by nra. nra. }
      assert (PU : evr a * evr b <= ev a * ev b * (pw (1 + u) (rk a) * pw (1 + u) (rk b))).
      { assert (0 <= ev a * pw (1 + u) (rk a)) by nra. assert (0 <= ev b * pw (1 + u) (rk b)) by nra. nra. }
      rewrite !pw_add.
      assert (Q0 : 0 <= ev a * ev b) by nra.
      assert (D : 0 <= pw (1 - u) (rk a) * pw (1 - u) (rk b)) by nra.
      split; [exact Q0 |]. split; nra.
  Qed.
End Rounding.
