(* C08/Model.v — executable model of klongpy's expression compiler and of the two
   ways an expression is run.  NO proofs here.

     compiler.py            _ast_to_ir            ->  ast_to_ir
     backends/base.py       _collect_params       ->  collect_params (walk)
     backends/*_backend.py  _ir_to_source         ->  ir_to_source   (string; op texts and f-string
                                                       templates are the regenerated tables)
                            compile_expr_ir       ->  compile
     interpreter.py         _compiled_args        ->  guard_ok / fetch_args
                            "try compiled, on exception fall back" (3 call sites) -> site
     the meaning of the emitted Python text under Python/NumPy operator semantics -> eval_ir
     dyads.py / monads.py / adverbs.py (+ - * % < > = ^, negate, Over, Scan-Over
     with + * | &) as the tree walker applies them                               -> interp

   Numbers: integers are unbounded Z (int64 wrap-around is not modelled), reals are
   binary64 as Coq.Floats.SpecFloat (bit exact for + - * / compare, negate, int->real).
   A scalar carries a flag saying whether it is a Python int/float (np = false) or a
   NumPy scalar (np = true): the flag decides `type(val) is int`, ZeroDivisionError
   versus inf, and nothing else; results are compared modulo the flag. *)
From Coq Require Import ZArith List String Bool SpecFloat DecimalString.
Import ListNotations.
Open Scope string_scope.
Open Scope list_scope.
Open Scope Z_scope.
Notation "a +s b" := (String.append a b) (at level 60, right associativity).

(* ------------------------------------------------------------------ numbers *)
Definition sf := spec_float.
Definition fadd := SFadd 53 1024.
Definition fsub := SFsub 53 1024.
Definition fmul := SFmul 53 1024.
Definition fdiv := SFdiv 53 1024.
Definition z2f (z : Z) : sf := binary_normalize 53 1024 z 0 false.

Inductive num := NI (z : Z) | NR (f : sf).

Definition to_f (x : num) : sf := match x with NI z => z2f z | NR f => f end.

Definition n_add (x y : num) : num :=
  match x, y with NI a, NI b => NI (a + b) | _, _ => NR (fadd (to_f x) (to_f y)) end.
Definition n_sub (x y : num) : num :=
  match x, y with NI a, NI b => NI (a - b) | _, _ => NR (fsub (to_f x) (to_f y)) end.
Definition n_mul (x y : num) : num :=
  match x, y with NI a, NI b => NI (a * b) | _, _ => NR (fmul (to_f x) (to_f y)) end.
(* true division: always real; x/0 = +-inf, 0/0 = nan (NumPy); Python raises instead, see py_binop *)
Definition n_div (x y : num) : num := NR (fdiv (to_f x) (to_f y)).
Definition n_neg (x : num) : num := match x with NI a => NI (- a) | NR f => NR (SFopp f) end.
Definition n_eqb (x y : num) : bool :=
  match x, y with NI a, NI b => Z.eqb a b | _, _ => SFeqb (to_f x) (to_f y) end.
Definition n_ltb (x y : num) : bool :=
  match x, y with NI a, NI b => Z.ltb a b | _, _ => SFltb (to_f x) (to_f y) end.
Definition is_nan (x : num) : bool := match x with NR S754_nan => true | _ => false end.
Definition b2n (b : bool) : num := NI (if b then 1 else 0).
Definition n_eq (x y : num) : num := b2n (n_eqb x y).
Definition n_lt (x y : num) : num := b2n (n_ltb x y).
Definition n_gt (x y : num) : num := b2n (n_ltb y x).
(* result kind of np.maximum / np.minimum follows the usual promotion *)
Definition promote (x y r : num) : num :=
  match x, y with NI _, NI _ => r | _, _ => NR (to_f r) end.
(* np.maximum(a,b): a if a > b or a is nan, else b  (so maximum(0.0,-0.0) = -0.0 as observed) *)
Definition n_max (x y : num) : num := promote x y (if is_nan x then x else if n_ltb y x then x else y).
Definition n_min (x y : num) : num := promote x y (if is_nan x then x else if n_ltb x y then x else y).
Definition is_zero (x : num) : bool := n_eqb x (NI 0).
Definition sf_finite (f : sf) : bool := match f with S754_zero _ | S754_finite _ _ _ => true | _ => false end.

(* x ** n for a non-negative integer n, by repeated multiplication (exact for integers; for reals
   exact whenever every intermediate product is representable) *)
Definition n_one_like (x : num) : num := match x with NI _ => NI 1 | NR _ => NR (z2f 1) end.
Fixpoint n_pow_nat (x : num) (n : nat) : num :=
  match n with O => n_one_like x | S O => x | S k => n_mul (n_pow_nat x k) x end.
Definition is_integral (x : num) : bool :=
  match x with
  | NI _ => true
  | NR (S754_zero _) => true
  | NR (S754_finite _ m e) => if (0 <=? e) then true else Z.eqb (Z.land (Zpos m) (Z.ones (- e))) 0
  | NR _ => false
  end.
Definition trunc_to_int (x : num) : num :=
  match x with
  | NI z => NI z
  | NR (S754_zero _) => NI 0
  | NR (S754_finite s m e) =>
      let a := if 0 <=? e then Z.shiftl (Zpos m) e else Z.shiftr (Zpos m) (- e) in NI (if s then - a else a)
  | NR f => NR f
  end.

(* ------------------------------------------------------------------ values *)
Inductive val :=
| VS (np : bool) (x : num)          (* scalar: Python int/float (np=false) or NumPy scalar (np=true) *)
| V1 (l : list num)                 (* rank-1 numeric ndarray (int64 or float64; [] is float64) *)
| V2 (rows : list (list num))       (* rank-2 numeric ndarray *)
| VUndef                            (* :undefined *)
| VStr (s : list Z)                 (* a Python str (string, character, symbol) *)
| VObj                              (* an object-dtype ndarray: nested or mixed list — not modelled *)
| VHi                               (* any other numeric ndarray (rank >= 3, a zero dimension) — not modelled *)
| VOther.                           (* anything else: dictionary, function, ... *)

Inductive res (A : Type) := Ok (a : A) | Err | Unm.   (* Err = a Python exception; Unm = outside this model *)
Arguments Ok {A} a. Arguments Err {A}. Arguments Unm {A}.

Definition bind {A B} (r : res A) (f : A -> res B) : res B :=
  match r with Ok a => f a | Err => Err | Unm => Unm end.

Definition norm (v : val) : val := match v with VS _ x => VS false x | _ => v end.
(* equal in structure, elements and integer/real kind *)
Definition veq (a b : val) : Prop := norm a = norm b.

(* ------------------------------------------------------------------ NumPy broadcasting (shared) *)
Fixpoint map2 {A B C} (f : A -> B -> C) (a : list A) (b : list B) : list C :=
  match a, b with x :: a', y :: b' => f x y :: map2 f a' b' | _, _ => [] end.

Definition bc1 (f : num -> num -> num) (a b : list num) : res (list num) :=
  if Nat.eqb (List.length a) (List.length b) then Ok (map2 f a b) else
  match a, b with
  | [x], _ => Ok (map (f x) b)
  | _, [y] => Ok (map (fun x => f x y) a)
  | _, _ => Err
  end.

Definition rect (rows : list (list num)) : bool :=
  match rows with
  | [] => false
  | r :: rs => negb (Nat.eqb (List.length r) 0) && forallb (fun q => Nat.eqb (List.length q) (List.length r)) rs
  end.
Definition ncols (rows : list (list num)) : nat := match rows with r :: _ => List.length r | [] => O end.

(* f applied by a NumPy ufunc / operator on ndarrays, with at least one operand not a Python scalar *)
Definition np_lift2 (f : num -> num -> num) (a b : val) : res val :=
  match a, b with
  | VS _ x, VS _ y => Ok (VS true (f x y))
  | VS _ x, V1 l => Ok (V1 (map (f x) l))
  | V1 l, VS _ y => Ok (V1 (map (fun x => f x y) l))
  | V1 l, V1 m => bind (bc1 f l m) (fun r => Ok (V1 r))
  | VS _ x, V2 r => if rect r then Ok (V2 (map (map (f x)) r)) else Unm
  | V2 r, VS _ y => if rect r then Ok (V2 (map (map (fun x => f x y)) r)) else Unm
  | V2 r, V2 q =>
      if rect r && rect q && Nat.eqb (List.length r) (List.length q) && Nat.eqb (ncols r) (ncols q)
      then Ok (V2 (map2 (map2 f) r q)) else Unm
  | V1 l, V2 r =>
      if rect r && Nat.eqb (List.length l) (ncols r) then Ok (V2 (map (map2 f l) r)) else Unm
  | V2 r, V1 l =>
      if rect r && Nat.eqb (List.length l) (ncols r) then Ok (V2 (map (fun row => map2 f row l) r)) else Unm
  | _, _ => Unm
  end.

Definition np_lift1 (f : num -> num) (a : val) : res val :=
  match a with
  | VS _ x => Ok (VS true (f x))
  | V1 l => Ok (V1 (map f l))
  | V2 r => if rect r then Ok (V2 (map (map f) r)) else Unm
  | _ => Unm
  end.

Definition fold1 (f : num -> num -> num) (l : list num) : option num :=
  match l with [] => None | x :: r => Some (fold_left f r x) end.
Fixpoint scan_from (f : num -> num -> num) (acc : num) (l : list num) : list num :=
  match l with [] => [] | x :: r => let a := f acc x in a :: scan_from f a r end.
Definition scan1 (f : num -> num -> num) (l : list num) : list num :=
  match l with [] => [] | x :: r => x :: scan_from f x r end.
Definition fold_rows (f : num -> num -> num) (rows : list (list num)) : list num :=
  match rows with [] => [] | r :: rs => fold_left (map2 f) rs r end.
Fixpoint scan_rows_from (f : num -> num -> num) (acc : list num) (rows : list (list num)) : list (list num) :=
  match rows with [] => [] | r :: rs => let a := map2 f acc r in a :: scan_rows_from f a rs end.
Definition scan_rows (f : num -> num -> num) (rows : list (list num)) : list (list num) :=
  match rows with [] => [] | r :: rs => r :: scan_rows_from f r rs end.

(* ufunc.reduce(x) along the first axis; `ident` is the ufunc's identity (None: maximum, minimum) *)
Definition ufunc_reduce (f : num -> num -> num) (ident : option num) (a : val) : res val :=
  match a with
  | VS _ x => Ok (VS true x)
  | V1 l => match fold1 f l with
            | Some r => Ok (VS true r)
            | None => match ident with Some i => Ok (VS true i) | None => Err end
            end
  | V2 r => if rect r then Ok (V1 (fold_rows f r)) else Unm
  | _ => Unm
  end.
(* ufunc.accumulate(x): first axis; "cannot accumulate on a scalar" *)
Definition ufunc_accumulate (f : num -> num -> num) (a : val) : res val :=
  match a with
  | VS _ _ => Err
  | V1 l => Ok (V1 (scan1 f l))
  | V2 r => if rect r then Ok (V2 (scan_rows f r)) else Unm
  | _ => Unm
  end.
(* np.cumsum / np.cumprod (the pinned tree's scan): flattens *)
Definition np_cum (f : num -> num -> num) (a : val) : res val :=
  match a with
  | VS _ x => Ok (V1 [x])
  | V1 l => Ok (V1 (scan1 f l))
  | V2 r => if rect r then Ok (V1 (scan1 f (List.concat r))) else Unm
  | _ => Unm
  end.

(* ------------------------------------------------------------------ syntax *)
(* klongpy's syntax tree, as far as _ast_to_ir looks at it *)
Inductive expr :=
| ELitI (z : Z)                          (* type(node) is int *)
| ELitR (f : sf) (repr : string)         (* type(node) is float; repr = Python's repr(node) *)
| ESym (s : string)                      (* KGSym *)
| EDyad (op : string) (a b : expr)       (* KGFn, is_op, arity 2, two arguments *)
| EMonad (op : string) (a : expr)        (* KGFn, is_op, arity 1 *)
| EAdv (op adv : string) (a : expr)      (* KGCall adverb chain [KGAdverb(KGOp op), KGAdverb adv, a] *)
| EMonadCond (op : string) (c : expr)    (* KGFn, is_op, arity 1, whose args IS a conditional :[c;t;e] (KGCond, a list subclass) *)
| EOther.                                (* every other node: list/string literal, call, cond, ... *)

Inductive ir :=
| ILitI (z : Z) | ILitR (f : sf) (repr : string)
| IVar (name : string)
| IBin (op : string) (l r : ir)
| ICmp (op : string) (l r : ir)
| INeg (c : ir)
| IRed (op : string) (a : ir)
| IScan (op : string) (a : ir).

(* the literal tables the translator regenerates from /repo *)
Inductive tpart := TL (s : string) | TH (hole : string).     (* f-string: literal text | {name} *)
Record tables := {
  arith_ops : list string; cmp_ops : list string; redscan_ops : list string;
  t_bin : list (string * string); t_cmp : list (string * string);
  t_red : list (string * string); t_scan : list (string * string);
  t_call : list (string * string);      (* binary verbs emitted as a call of a helper: {'%': '_div', '^': '_pow'} *)
  unwrap_exact : bool;  (* the operand of a monad is unwrapped with `type(arg) is list` (a conditional is NOT a list) *)
  helpers_bound : bool; (* the exec namespace binds _div to compiled_divide and _pow to eval_dyad_power *)
  adm_obj : bool;       (* does _ast_to_ir admit object-dtype arrays? *)
  f_bin : list tpart; f_cmp : list tpart; f_neg : list tpart; f_red : list tpart; f_scan : list tpart;
  f_call : list tpart
}.

Definition mem (s : string) (l : list string) : bool := existsb (String.eqb s) l.
Fixpoint assoc {A} (s : string) (l : list (string * A)) : option A :=
  match l with [] => None | (k, v) :: r => if String.eqb s k then Some v else assoc s r end.

Definition env := string -> option val.

(* what `type(val) is int / float / isinstance(val, np.ndarray)` accepts *)
Definition admit_compile (T : tables) (v : val) : bool :=
  match v with VS false _ | V1 _ | V2 _ | VHi => true | VObj => adm_obj T | _ => false end.

Fixpoint find_idx (s : string) (vr : list string) : option nat :=
  match vr with
  | [] => None
  | x :: r => if String.eqb s x then Some O else option_map S (find_idx s r)
  end.
Definition vname (k : nat) : string := "_v" +s NilEmpty.string_of_uint (Nat.to_uint k).

(* var_refs: insertion-ordered symbols; the name of the k-th is f'_v{k}' *)
Fixpoint ast_to_ir (T : tables) (rho : env) (e : expr) (vr : list string) : option (ir * list string) :=
  match e with
  | ELitI z => Some (ILitI z, vr)
  | ELitR f r => Some (ILitR f r, vr)
  | ESym s =>
      match rho s with
      | None => None
      | Some v =>
          if admit_compile T v then
            match find_idx s vr with
            | Some k => Some (IVar (vname k), vr)
            | None => Some (IVar (vname (List.length vr)), vr ++ [s])
            end
          else None
      end
  | EDyad op a b =>
      match ast_to_ir T rho a vr with
      | None => None
      | Some (l, vr1) =>
          match ast_to_ir T rho b vr1 with
          | None => None
          | Some (r, vr2) =>
              if mem op (arith_ops T) then Some (IBin op l r, vr2)
              else if mem op (cmp_ops T) then Some (ICmp op l r, vr2) else None
          end
      end
  | EMonad op a =>
      if String.eqb op "-" then
        match ast_to_ir T rho a vr with Some (c, vr1) => Some (INeg c, vr1) | None => None end
      else None
  | EAdv op adv a =>
      if mem op (redscan_ops T) then
        match ast_to_ir T rho a vr with
        | None => None
        | Some (c, vr1) =>
            if String.eqb adv "/" then Some (IRed op c, vr1)
            else if String.eqb adv "\" then Some (IScan op c, vr1) else None
        end
      else None
  | EMonadCond op c =>
      (* `isinstance(arg, list)` would take arg[0], the CONDITION, as the operand of the monad *)
      if String.eqb op "-" && negb (unwrap_exact T) then
        match ast_to_ir T rho c vr with Some (ci, vr1) => Some (INeg ci, vr1) | None => None end
      else None                           (* a conditional is not compilable *)
  | EOther => None
  end.

(* BackendProvider._collect_params: names in order of first occurrence *)
Fixpoint walk (acc : list string) (i : ir) : list string :=
  match i with
  | IVar n => if mem n acc then acc else acc ++ [n]
  | IBin _ l r | ICmp _ l r => walk (walk acc l) r
  | INeg c => walk acc c
  | IRed _ a | IScan _ a => walk acc a
  | _ => acc
  end.
Definition collect_params (i : ir) : list string := walk [] i.

Fixpoint fill (t : list tpart) (b : list (string * string)) : string :=
  match t with
  | [] => ""
  | TL s :: r => s +s fill r b
  | TH h :: r => match assoc h b with Some s => s | None => "{" +s h +s "}" end +s fill r b
  end.

Definition repr_int (z : Z) : string := NilZero.string_of_int (Z.to_int z).

Fixpoint ir_to_source (T : tables) (i : ir) : option string :=
  match i with
  | ILitI z => Some (repr_int z)
  | ILitR _ r => Some r
  | IVar n => Some n
  | IBin op l r =>
      match ir_to_source T l, ir_to_source T r with
      | Some ls, Some rs =>
          match assoc op (t_call T) with
          | Some c => Some (fill (f_call T) [("call", c); ("l", ls); ("r", rs)])
          | None =>
              match assoc op (t_bin T) with
              | Some o => Some (fill (f_bin T) [("l", ls); ("py_op", o); ("r", rs)])
              | None => None
              end
          end
      | _, _ => None
      end
  | ICmp op l r =>
      match ir_to_source T l, ir_to_source T r with
      | Some ls, Some rs =>
          match assoc op (t_cmp T) with
          | Some o => Some (fill (f_cmp T) [("l", ls); ("py_cmp", o); ("r", rs)])
          | None => None
          end
      | _, _ => None
      end
  | INeg c =>
      match ir_to_source T c with Some cs => Some (fill (f_neg T) [("child", cs)]) | None => None end
  | IRed op a =>
      match ir_to_source T a with
      | Some s => match assoc op (t_red T) with
                  | Some m => Some (fill (f_red T) [("method", m); ("arg_src", s)])
                  | None => None
                  end
      | None => None
      end
  | IScan op a =>
      match ir_to_source T a with
      | Some s => match assoc op (t_scan T) with
                  | Some m => Some (fill (f_scan T) [("method", m); ("arg_src", s)])
                  | None => None
                  end
      | None => None
      end
  end.

Fixpoint join (sep : string) (l : list string) : string :=
  match l with [] => "" | [x] => x | x :: r => x +s sep +s join sep r end.

Record compiled := { c_ir : ir; c_params : list string; c_syms : list string; c_source : string }.

(* compiler.compile_expr + <backend>.compile_expr_ir *)
Definition compile (T : tables) (rho : env) (e : expr) : option compiled :=
  match ast_to_ir T rho e [] with
  | None => None
  | Some (i, vr) =>
      match vr with
      | [] => None                                      (* pure constant: not compiled *)
      | _ =>
          match ir_to_source T i with
          | None => None
          | Some src =>
              let ps := collect_params i in
              Some {| c_ir := i; c_params := ps; c_syms := vr;
                      c_source := "def _expr(" +s join ", " ps +s "): return " +s src |}
          end
      end
  end.

(* ------------------------------------------------------------------ the emitted text, run by Python *)
Definition pyscalar (v : val) : bool := match v with VS false _ => true | _ => false end.

Definition nat_of_num (x : num) : option nat :=
  match x with NI z => if 0 <=? z then Some (Z.to_nat z) else None | NR _ => None end.

(* numeric operators on (Python scalar | NumPy scalar | ndarray) *)
Definition py_arith (f : num -> num -> num) (a b : val) : res val :=
  match a, b with
  | VS false x, VS false y => Ok (VS false (f x y))
  | _, _ => np_lift2 f a b
  end.

Fixpoint repeat_str (s : list Z) (n : nat) : list Z :=
  match n with O => [] | S k => s ++ repeat_str s k end.

(* the binary operator whose source text is `o` *)
Definition py_binop (o : string) (a b : val) : res val :=
  if String.eqb o "+" then py_arith n_add a b else
  if String.eqb o "-" then py_arith n_sub a b else
  if String.eqb o "*" then
    match a, b with
    | VStr s, VS false (NI n) => Ok (VStr (repeat_str s (Z.to_nat n)))      (* sequence repetition *)
    | VS false (NI n), VStr s => Ok (VStr (repeat_str s (Z.to_nat n)))
    | _, _ => py_arith n_mul a b
    end else
  if String.eqb o "/" then
    match a, b with
    | VS false x, VS false y => if is_zero y then Err (* ZeroDivisionError *) else Ok (VS false (n_div x y))
    | _, _ => np_lift2 n_div a b
    end else
  if String.eqb o "**" then
    match b with
    | VS false e =>
        match nat_of_num e with
        | Some n => match a with
                    | VS false x => Ok (VS false (n_pow_nat x n))
                    | V1 _ | V2 _ => np_lift1 (fun x => n_pow_nat x n) a
                    | _ => Unm
                    end
        | None => Unm
        end
    | _ => Unm
    end else Unm.

(* _e_dyad_power on one pair: float power, then integers when the result is whole *)
Definition kg_power (a b : val) : res val :=
  match b with
  | VS _ e =>
      match nat_of_num e with
      | Some n =>
          match a with
          | VS _ x => let r := NR (to_f (n_pow_nat (NR (to_f x)) n)) in
                      Ok (if is_integral r then VS false (trunc_to_int r)    (* to_int_array: int(r), a Python int *)
                          else VS true r)
          | V1 l => let r := map (fun x => n_pow_nat x n) l in
                    Ok (V1 (if forallb is_integral r then map trunc_to_int r else r))
          | _ => Unm
          end
      | None => Unm
      end
  | _ => Unm
  end.

(* backends/base.py compiled_divide: a scalar divisor equal to 0 raises, else a / b *)
Definition py_div_guarded (a b : val) : res val :=
  match b with
  | VS _ y => if is_zero y then Err else
              match a with VS false x => if pyscalar b then Ok (VS false (n_div x y)) else np_lift2 n_div a b
                         | _ => np_lift2 n_div a b end
  | _ => np_lift2 n_div a b
  end.

(* the helper a binary verb is emitted as a call of: _div = compiled_divide, _pow = eval_dyad_power *)
Definition py_helper (c : string) (a b : val) : res val :=
  if String.eqb c "_div" then py_div_guarded a b else
  if String.eqb c "_pow" then kg_power a b else Unm.

(* `((l <cmp> r)*1)` *)
Definition py_cmp (o : string) (a b : val) : res val :=
  if String.eqb o "==" then py_arith n_eq a b else
  if String.eqb o "<" then py_arith n_lt a b else
  if String.eqb o ">" then py_arith n_gt a b else Unm.

Definition py_neg (a : val) : res val :=
  match a with VS false x => Ok (VS false (n_neg x)) | _ => np_lift1 n_neg a end.

(* a call `m(x)` with m the text from the reduce / scan table *)
Definition py_call (m : string) (a : val) : res val :=
  if String.eqb m "np.add.reduce" then ufunc_reduce n_add (Some (NR (z2f 0))) a else
  if String.eqb m "np.multiply.reduce" then ufunc_reduce n_mul (Some (NR (z2f 1))) a else
  if String.eqb m "np.maximum.reduce" then ufunc_reduce n_max None a else
  if String.eqb m "np.minimum.reduce" then ufunc_reduce n_min None a else
  if String.eqb m "np.add.accumulate" then ufunc_accumulate n_add a else
  if String.eqb m "np.multiply.accumulate" then ufunc_accumulate n_mul a else
  if String.eqb m "np.cumsum" then np_cum n_add a else
  if String.eqb m "np.cumprod" then np_cum n_mul a else Unm.

Fixpoint eval_ir (T : tables) (args : string -> option val) (i : ir) : res val :=
  match i with
  | ILitI z => Ok (VS false (NI z))
  | ILitR f _ => if sf_finite f then Ok (VS false (NR f))
                 else Err           (* repr(inf) / repr(nan) is the bare name inf / nan: NameError *)
  | IVar n => match args n with Some v => Ok v | None => Err (* NameError *) end
  | IBin op l r =>
      bind (eval_ir T args l) (fun a => bind (eval_ir T args r) (fun b =>
        match assoc op (t_call T) with
        | Some c => if helpers_bound T then py_helper c a b else Unm
        | None => match assoc op (t_bin T) with Some o => py_binop o a b | None => Unm end
        end))
  | ICmp op l r =>
      bind (eval_ir T args l) (fun a => bind (eval_ir T args r) (fun b =>
        match assoc op (t_cmp T) with Some o => py_cmp o a b | None => Unm end))
  | INeg c => bind (eval_ir T args c) py_neg
  | IRed op a => bind (eval_ir T args a) (fun v =>
        match assoc op (t_red T) with Some m => py_call m v | None => Unm end)
  | IScan op a => bind (eval_ir T args a) (fun v =>
        match assoc op (t_scan T) with Some m => py_call m v | None => Unm end)
  end.

(* KlongInterpreter._compiled_args: the admission test repeated at call time (guard = the
   regenerated flag saying the three call sites go through it) *)
Definition admit_call (v : val) : bool :=
  match v with
  | VS false _ => true
  | V1 l => negb (Nat.eqb (List.length l) 0)
  | V2 r => negb (Nat.eqb (List.length (List.concat r)) 0)
  | VHi => true
  | _ => false
  end.

Fixpoint fetch_args (rho : env) (syms : list string) : option (list val) :=
  match syms with
  | [] => Some []
  | s :: r => match rho s, fetch_args rho r with Some v, Some vs => Some (v :: vs) | _, _ => None end
  end.

Fixpoint bind_params (ps : list string) (vs : list val) (n : string) : option val :=
  match ps, vs with
  | p :: ps', v :: vs' => if String.eqb n p then Some v else bind_params ps' vs' n
  | _, _ => None
  end.

(* the call fn( *args ) *)
Definition run_compiled (T : tables) (guard : bool) (c : compiled) (rho : env) : res val :=
  match fetch_args rho (c_syms c) with
  | None => Err                                           (* KeyError *)
  | Some vs =>
      if guard && negb (forallb admit_call vs) then Err   (* TypeError raised by _compiled_args *)
      else if negb (Nat.eqb (List.length vs) (List.length (c_params c))) then Err
      else eval_ir T (bind_params (c_params c) vs) (c_ir c)
  end.

(* ------------------------------------------------------------------ the tree-walking interpreter *)
(* a ufunc called by a verb: Python scalars become NumPy scalars *)
Definition isnum (v : val) : bool := match v with VS _ _ | V1 _ | V2 _ => true | _ => false end.
Definition isarr (v : val) : bool := match v with V1 _ | V2 _ | VObj | VHi => true | _ => false end.
Definition isempty (v : val) : bool := match v with V1 [] => true | _ => false end.
Definition isstr (v : val) : bool := match v with VStr _ => true | _ => false end.
Definition isobj (v : val) : bool := match v with VObj | VHi => true | _ => false end.
Definition kg_arith (f : num -> num -> num) (a b : val) : res val :=
  if isnum a && isnum b then np_lift2 f a b
  else if isobj a || isobj b then Unm
  else if isstr a && isstr b then Unm
  else if isempty a || isempty b then Unm                  (* a ufunc over no elements calls nothing *)                      (* NumPy 2 has string ufunc loops: not modelled *)
  else Err.                                                (* UFuncTypeError / TypeError *)

Definition isscalar (v : val) : bool := match v with VS _ _ => true | _ => false end.

Definition kg_dyad (op : string) (a b : val) : res val :=
  if String.eqb op "+" then kg_arith n_add a b else
  if String.eqb op "-" then kg_arith n_sub a b else
  if String.eqb op "*" then kg_arith n_mul a b else
  if String.eqb op "%" then
    match b with                       (* not is_list(a), not is_list(b), b a number equal to 0 *)
    | VS _ y => if is_zero y && negb (isarr a) then Ok VUndef else kg_arith n_div a b
    | _ => kg_arith n_div a b
    end else
  if String.eqb op "=" then
    (if isnum a && isnum b then np_lift2 n_eq a b else Unm) else
  if String.eqb op "<" then kg_arith n_lt a b else
  if String.eqb op ">" then kg_arith n_gt a b else
  if String.eqb op "^" then kg_power a b else Unm.

Definition kg_negate (a : val) : res val :=
  match a with VS _ _ | V1 _ | V2 _ => np_lift1 n_neg a | VObj | VHi => Unm | _ => Err end.

Definition red_fn (op : string) : option (num -> num -> num) :=
  if String.eqb op "+" then Some n_add else if String.eqb op "*" then Some n_mul else
  if String.eqb op "|" then Some n_max else if String.eqb op "&" then Some n_min else None.

(* eval_adverb_over *)
Definition kg_over (op : string) (a : val) : res val :=
  match red_fn op with
  | None => Unm
  | Some f =>
      match a with
      | VS _ _ | VUndef | VOther => Ok a                   (* is_atom *)
      | V1 [] => Ok a                                       (* is_atom: the empty list *)
      | V1 [x] => Ok (VS true x)                            (* len(a) == 1 -> a[0] *)
      | V1 l => match fold1 f l with Some r => Ok (VS true r) | None => Unm end
      | V2 r => if rect r then match r with [row] => Ok (V1 row) | _ => Ok (V1 (fold_rows f r)) end else Unm
      | _ => Unm
      end
  end.

(* eval_adverb_scan_over *)
Definition kg_scan (op : string) (a : val) : res val :=
  match red_fn op with
  | None => Unm
  | Some f =>
      match a with
      | V1 [] => Ok a                                       (* is_empty *)
      | VS _ x => Ok (V1 [x])                               (* an atom is returned in a list: kg_asarray([a]) *)
      | V1 l => Ok (V1 (scan1 f l))
      | V2 r => if rect r then Ok (V2 (scan_rows f r)) else Unm
      | _ => Unm
      end
  end.

Fixpoint interp (rho : env) (e : expr) : res val :=
  match e with
  | ELitI z => Ok (VS false (NI z))
  | ELitR f _ => Ok (VS false (NR f))
  | ESym s => match rho s with Some v => Ok v | None => Unm end
  | EDyad op a b =>                                         (* the right operand is evaluated first *)
      bind (interp rho b) (fun vb => bind (interp rho a) (fun va => kg_dyad op va vb))
  | EMonad op a => if String.eqb op "-" then bind (interp rho a) kg_negate else Unm
  | EAdv op adv a =>
      bind (interp rho a) (fun v =>
        if String.eqb adv "/" then kg_over op v else if String.eqb adv "\" then kg_scan op v else Unm)
  | EMonadCond _ _ => Unm                 (* conditionals are outside this model of the interpreter *)
  | EOther => Unm
  end.

(* ------------------------------------------------------------------ one evaluation site *)
(* "try compiled, on exception fall back": memo = what compile_expr returned when the node was
   first evaluated (under whatever bindings held then) *)
Definition site (T : tables) (guard catch_all : bool) (memo : option compiled) (rho : env) (e : expr) : res val :=
  match memo with
  | None => interp rho e
  | Some c => match run_compiled T guard c rho with
              | Ok v => Ok v
              | Err => if catch_all then interp rho e
                       else Err     (* `except <some classes>`: an exception the clause does not name propagates *)
              | Unm => Unm
              end
  end.

(* a rebinding history: the node is compiled at its first evaluation and the memo is kept.  compile is a
   function of (tables, bindings, expression) only: sound iff compile_expr keeps no state across calls
   (regenerated flag compile_is_stateless, consumed in Properties.v) *)
Fixpoint run_history (T : tables) (guard catch_all : bool) (memo : option (option compiled)) (e : expr)
         (h : list env) : list (res val) :=
  match h with
  | [] => []
  | rho :: h' =>
      let m := match memo with Some m => m | None => compile T rho e end in
      site T guard catch_all m rho e :: run_history T guard catch_all (Some m) e h'
  end.

(* ------------------------------------------------------------------ the domain of the equivalence theorem *)
Definition numeric (v : val) : bool :=
  match v with VS _ _ | V1 _ => true | V2 r => rect r | _ => false end.

(* D5: variables bound to numeric scalars / rank-1 / rank-2 arrays *)
Fixpoint d5 (rho : env) (e : expr) : bool :=
  match e with
  | ELitI _ | ELitR _ _ => true
  | ESym s => match rho s with Some v => numeric v | None => false end
  | EDyad _ a b => d5 rho a && d5 rho b
  | EMonad _ a => d5 rho a
  | EAdv _ _ a => d5 rho a
  | EMonadCond _ _ => false
  | EOther => false
  end.
