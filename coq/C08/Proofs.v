(* C08/Proofs.v — acceptance of every emittable IR by both backends' tables; kinds and shapes. *)
From Coq Require Import ZArith List String Bool SpecFloat Lia.
From C08 Require Import Model.
Import ListNotations.
Open Scope string_scope.
Open Scope list_scope.

(* the IRs _ast_to_ir can emit: operators drawn from the three op sets *)
Fixpoint emittable (T : tables) (i : ir) : bool :=
  match i with
  | IBin op l r => mem op (arith_ops T) && emittable T l && emittable T r
  | ICmp op l r => mem op (cmp_ops T) && emittable T l && emittable T r
  | INeg c => emittable T c
  | IRed op a | IScan op a => mem op (redscan_ops T) && emittable T a
  | _ => true
  end.

(* no scan with an operator from `gap` *)
Fixpoint scans_avoid (gap : list string) (i : ir) : bool :=
  match i with
  | IBin _ l r | ICmp _ l r => scans_avoid gap l && scans_avoid gap r
  | INeg c => scans_avoid gap c
  | IRed _ a => scans_avoid gap a
  | IScan op a => negb (mem op gap) && scans_avoid gap a
  | _ => true
  end.

Definition has (tbl : list (string * string)) (o : string) : bool :=
  match assoc o tbl with Some _ => true | None => false end.
Definition covers (ops : list string) (tbl : list (string * string)) : bool := forallb (has tbl) ops.

(* the finite check over the regenerated tables *)
Definition full_tables (T : tables) (gap : list string) : bool :=
  covers (arith_ops T) (t_call T ++ t_bin T) && covers (cmp_ops T) (t_cmp T) && covers (redscan_ops T) (t_red T) &&
  covers (filter (fun o => negb (mem o gap)) (redscan_ops T)) (t_scan T).

Lemma mem_In : forall s l, mem s l = true -> In s l.
Proof.
  intros s l H. unfold mem in H. apply existsb_exists in H. destruct H as [x [Hi He]].
  apply String.eqb_eq in He. subst. exact Hi.
Qed.

Lemma covers_has : forall ops tbl o, covers ops tbl = true -> mem o ops = true -> exists t, assoc o tbl = Some t.
Proof.
  intros ops tbl o C M. unfold covers in C. rewrite forallb_forall in C.
  specialize (C o (mem_In _ _ M)). unfold has in C. destruct (assoc o tbl) as [t |]; [exists t; reflexivity | discriminate].
Qed.

Lemma assoc_app_none : forall (l1 l2 : list (string * string)) o, assoc o l1 = None -> assoc o (l1 ++ l2) = assoc o l2.
Proof.
  induction l1 as [| [k v] r IH]; intros l2 o H; cbn in *; [reflexivity |].
  destruct (String.eqb o k); [discriminate | apply IH; exact H].
Qed.

Lemma accept : forall T gap, full_tables T gap = true ->
  forall i, emittable T i = true -> scans_avoid gap i = true -> ir_to_source T i <> None.
Proof.
  intros T gap F. unfold full_tables in F.
  apply andb_true_iff in F. destruct F as [F Fs]. apply andb_true_iff in F. destruct F as [F Fr].
  apply andb_true_iff in F. destruct F as [Fb Fc].
  induction i as [z | f r | n | op l IHl r IHr | op l IHl r IHr | c IHc | op a IHa | op a IHa]; intros E S; cbn in *; try discriminate.
  - apply andb_true_iff in E. destruct E as [E Er]. apply andb_true_iff in E. destruct E as [Eo El].
    apply andb_true_iff in S. destruct S as [Sl Sr].
    destruct (ir_to_source T l); [| exfalso; exact (IHl El Sl eq_refl)].
    destruct (ir_to_source T r); [| exfalso; exact (IHr Er Sr eq_refl)].
    destruct (assoc op (t_call T)) as [c |] eqn:AC; [discriminate |].
    destruct (covers_has _ _ _ Fb Eo) as [t Ht]. rewrite (assoc_app_none _ _ _ AC) in Ht. rewrite Ht. discriminate.
  - apply andb_true_iff in E. destruct E as [E Er]. apply andb_true_iff in E. destruct E as [Eo El].
    apply andb_true_iff in S. destruct S as [Sl Sr].
    destruct (ir_to_source T l); [| exfalso; exact (IHl El Sl eq_refl)].
    destruct (ir_to_source T r); [| exfalso; exact (IHr Er Sr eq_refl)].
    destruct (covers_has _ _ _ Fc Eo) as [t ->]. discriminate.
  - destruct (ir_to_source T c); [discriminate | exact (IHc E S)].
  - apply andb_true_iff in E. destruct E as [Eo Ea].
    destruct (ir_to_source T a); [| exfalso; exact (IHa Ea S eq_refl)].
    destruct (covers_has _ _ _ Fr Eo) as [t ->]. discriminate.
  - apply andb_true_iff in E. destruct E as [Eo Ea]. apply andb_true_iff in S. destruct S as [Sg Sa].
    destruct (ir_to_source T a); [| exfalso; exact (IHa Ea Sa eq_refl)].
    assert (M : mem op (filter (fun o => negb (mem o gap)) (redscan_ops T)) = true).
    { unfold mem. apply existsb_exists. exists op. split; [| apply String.eqb_refl].
      apply filter_In. split; [apply mem_In; exact Eo | exact Sg]. }
    destruct (covers_has _ _ _ Fs M) as [t ->]. discriminate.
Qed.

(* everything _ast_to_ir returns is emittable *)
Lemma ast_to_ir_emittable : forall T rho e vr i vr',
  ast_to_ir T rho e vr = Some (i, vr') -> emittable T i = true.
Proof.
  intros T rho e. induction e as [z | f r | s | op a IHa b IHb | op a IHa | op adv a IHa | op c IHc |]; intros vr i vr' H; cbn in H.
  - injection H as <- _. reflexivity.
  - injection H as <- _. reflexivity.
  - destruct (rho s) as [v |]; [| discriminate]. destruct (admit_compile T v); [| discriminate].
    destruct (find_idx s vr); injection H as <- _; reflexivity.
  - destruct (ast_to_ir T rho a vr) as [[l vr1] |] eqn:A; [| discriminate].
    destruct (ast_to_ir T rho b vr1) as [[r vr2] |] eqn:B; [| discriminate].
    destruct (mem op (arith_ops T)) eqn:M.
    + injection H as <- _. cbn. rewrite M, (IHa _ _ _ A), (IHb _ _ _ B). reflexivity.
    + destruct (mem op (cmp_ops T)) eqn:M2; [| discriminate].
      injection H as <- _. cbn. rewrite M2, (IHa _ _ _ A), (IHb _ _ _ B). reflexivity.
  - destruct (String.eqb op "-"); [| discriminate].
    destruct (ast_to_ir T rho a vr) as [[c vr1] |] eqn:A; [| discriminate].
    injection H as <- _. cbn. exact (IHa _ _ _ A).
  - destruct (mem op (redscan_ops T)) eqn:M; [| discriminate].
    destruct (ast_to_ir T rho a vr) as [[c vr1] |] eqn:A; [| discriminate].
    destruct (String.eqb adv "/").
    + injection H as <- _. cbn. rewrite M, (IHa _ _ _ A). reflexivity.
    + destruct (String.eqb adv "\"); [| discriminate]. injection H as <- _. cbn. rewrite M, (IHa _ _ _ A). reflexivity.
  - destruct (String.eqb op "-" && negb (unwrap_exact T)); [| discriminate].
    destruct (ast_to_ir T rho c vr) as [[ci vr1] |] eqn:A; [| discriminate].
    injection H as <- _. cbn. exact (IHc _ _ _ A).
  - discriminate.
Qed.

Lemma gap_scan_rejected : forall T op a, assoc op (t_scan T) = None -> ir_to_source T (IScan op a) = None.
Proof. intros T op a H. cbn. destruct (ir_to_source T a); [rewrite H |]; reflexivity. Qed.

(* ------------------------------------------------------------------ kinds and shapes *)
Definition n_kind (x : num) : bool := match x with NI _ => false | NR _ => true end.   (* true = real *)

Lemma kind_arith : forall x y,
  n_kind (n_add x y) = n_kind x || n_kind y /\ n_kind (n_sub x y) = n_kind x || n_kind y /\
  n_kind (n_mul x y) = n_kind x || n_kind y /\ n_kind (n_div x y) = true /\
  n_kind (n_eq x y) = false /\ n_kind (n_lt x y) = false /\ n_kind (n_gt x y) = false /\
  n_kind (n_neg x) = n_kind x /\ n_kind (n_max x y) = n_kind x || n_kind y /\ n_kind (n_min x y) = n_kind x || n_kind y.
Proof.
  intros [a | a] [b | b]; cbn; repeat split; try reflexivity;
    unfold n_max, n_min, promote; cbn;
    repeat match goal with |- context [if ?c then _ else _] => destruct c end; reflexivity.
Qed.

Definition shape (v : val) : option (list nat) :=
  match v with
  | VS _ _ => Some []
  | V1 l => Some [List.length l]
  | V2 r => Some [List.length r; ncols r]
  | _ => None
  end.

Lemma map2_length : forall (f : num -> num -> num) a b, List.length (map2 f a b) = Nat.min (List.length a) (List.length b).
Proof. intros f. induction a as [| x a IH]; intros [| y b]; cbn; auto. Qed.

(* rank <= 1: whether an element-wise operation succeeds, and the shape of its result, depend on the
   shapes of the operands only — not on the element values, nor on the operation *)
Lemma lift2_shape_rank1 : forall f g a b,
  (match a with VS _ _ | V1 _ => True | _ => False end) ->
  (match b with VS _ _ | V1 _ => True | _ => False end) ->
  match np_lift2 f a b, np_lift2 g a b with
  | Ok v, Ok w => shape v = shape w /\
                  (shape v = match shape a, shape b with
                             | Some [], s | s, Some [] => s
                             | Some [n], Some [m] => if Nat.eqb n m then Some [n] else if Nat.eqb n 1 then Some [m] else Some [n]
                             | _, _ => None end)
  | Err, Err => True
  | _, _ => False
  end.
Proof.
  intros f g a b Ha Hb.
  destruct a as [na x | l | r | | | | |]; try tauto; destruct b as [nb y | m | q | | | | |]; try tauto; cbn.
  - split; reflexivity.
  - rewrite !map_length. split; reflexivity.
  - rewrite !map_length. split; reflexivity.
  - unfold bc1. destruct (Nat.eqb (List.length l) (List.length m)) eqn:E; cbn.
    + rewrite !map2_length. apply Nat.eqb_eq in E. rewrite E, Nat.min_id. split; reflexivity.
    + destruct l as [| x [| x2 l]]; destruct m as [| y [| y2 m]]; cbn in *; try discriminate; try exact I;
        rewrite ?map_length; cbn; try (split; reflexivity).
Qed.

(* ------------------------------------------------------------------ rank 2 *)
Lemma ncols_map : forall (f : num -> num) r, ncols (map (map f) r) = ncols r.
Proof. intros f [| r0 r]; cbn; [reflexivity | apply map_length]. Qed.

Lemma ncols_map_row : forall (h : list num -> list num) r n,
  (forall row, List.length (h row) = Nat.min n (List.length row)) -> n = ncols r -> r <> [] ->
  ncols (map h r) = ncols r.
Proof. intros h [| r0 r] n H E N; [congruence |]. cbn in *. rewrite H, E. apply Nat.min_id. Qed.

Lemma rect_nonempty : forall r, rect r = true -> r <> [].
Proof. intros [| r0 r] H; [discriminate | discriminate]. Qed.

Definition bshape (sa sb : option (list nat)) : option (list nat) :=
  match sa, sb with
  | Some [], s | s, Some [] => s
  | Some [n], Some [m] => if Nat.eqb n m then Some [n] else if Nat.eqb n 1 then Some [m] else Some [n]
  | Some [r; c], Some [r'; c'] => if Nat.eqb r r' && Nat.eqb c c' then Some [r; c] else None
  | Some [n], Some [r; c] => if Nat.eqb n c then Some [r; c] else None
  | Some [r; c], Some [n] => if Nat.eqb n c then Some [r; c] else None
  | _, _ => None
  end.

Definition rclass (r : res val) : nat := match r with Ok _ => 0 | Err => 1 | Unm => 2 end.
Definition rshape (r : res val) : option (list nat) := match r with Ok v => shape v | _ => None end.
Definition wf2 (v : val) : Prop := match v with VS _ _ | V1 _ => True | V2 r => rect r = true | _ => False end.

(* scalars, vectors and matrices: whether an element-wise operation succeeds, is refused by NumPy, or is one of
   the rank-2 broadcasts this model does not cover, and the shape of the result, depend on the operand SHAPES
   only; where it succeeds the shape is bshape *)
Lemma lift2_shape : forall f g a b, wf2 a -> wf2 b ->
  rclass (np_lift2 f a b) = rclass (np_lift2 g a b) /\ rshape (np_lift2 f a b) = rshape (np_lift2 g a b) /\
  (forall v, np_lift2 f a b = Ok v -> shape v = bshape (shape a) (shape b)).
Proof.
  intros f g a b Ha Hb.
  destruct a as [na x | l | r | | | | |]; try (cbn in Ha; tauto); destruct b as [nb y | m | q | | | | |]; try (cbn in Hb; tauto).
  - cbn. repeat split. intros v H. injection H as <-. reflexivity.
  - cbn. rewrite !map_length. repeat split. intros v H. injection H as <-. cbn. rewrite map_length. reflexivity.
  - cbn in Hb. cbn. rewrite Hb. cbn. rewrite !ncols_map, !map_length. repeat split.
    intros v H. injection H as <-. cbn. rewrite ncols_map, map_length. reflexivity.
  - cbn. rewrite !map_length. repeat split. intros v H. injection H as <-. cbn. rewrite map_length. destruct l; reflexivity.
  - pose proof (lift2_shape_rank1 f g (V1 l) (V1 m) I I) as R. cbn in R |- *.
    destruct (bc1 f l m) as [rf | |] eqn:Bf, (bc1 g l m) as [rg | |] eqn:Bg; cbn in R |- *; try tauto; try (exfalso; exact R).
    + destruct R as [R1 R2]. repeat split; [exact R1 |]. intros v H. injection H as <-. exact R2.
    + repeat split. discriminate.
  - cbn in Hb. cbn. rewrite Hb. cbn [andb].
    destruct (Nat.eqb (List.length l) (ncols q)) eqn:E; cbn; [| repeat split; discriminate].
    apply Nat.eqb_eq in E.
    assert (N := rect_nonempty _ Hb).
    rewrite !(ncols_map_row _ q (List.length l)), !map_length; try assumption; try (intro row; apply map2_length).
    repeat split. intros v H. injection H as <-. cbn.
    rewrite (ncols_map_row _ q (List.length l)), map_length; try assumption; try (intro row; apply map2_length).
    try rewrite E; try rewrite Nat.eqb_refl; reflexivity.
  - cbn in Ha. cbn. rewrite Ha. cbn. rewrite !ncols_map, !map_length. repeat split.
    intros v H. injection H as <-. cbn. rewrite ncols_map, map_length. destruct r as [| r0 r]; [discriminate | reflexivity].
  - cbn in Ha. cbn. rewrite Ha. cbn [andb].
    destruct (Nat.eqb (List.length m) (ncols r)) eqn:E; cbn; [| repeat split; discriminate].
    apply Nat.eqb_eq in E.
    assert (N := rect_nonempty _ Ha).
    assert (HL : forall row, List.length (map2 f row m) = Nat.min (List.length m) (List.length row))
      by (intro row; rewrite map2_length; apply Nat.min_comm).
    assert (HG : forall row, List.length (map2 g row m) = Nat.min (List.length m) (List.length row))
      by (intro row; rewrite map2_length; apply Nat.min_comm).
    rewrite (ncols_map_row (fun row => map2 f row m) r (List.length m) HL E N),
            (ncols_map_row (fun row => map2 g row m) r (List.length m) HG E N), !map_length.
    repeat split. intros v H. injection H as <-. cbn.
    rewrite (ncols_map_row (fun row => map2 f row m) r (List.length m) HL E N), map_length.
    try rewrite E; try rewrite Nat.eqb_refl; reflexivity.
  - cbn in Ha, Hb. cbn. rewrite Ha, Hb. cbn [andb].
    destruct (Nat.eqb (List.length r) (List.length q)) eqn:E1; cbn [andb]; [| repeat split; try discriminate].
    destruct (Nat.eqb (ncols r) (ncols q)) eqn:E2; cbn; [| repeat split; try discriminate].
    apply Nat.eqb_eq in E1. apply Nat.eqb_eq in E2.
    assert (NC : forall h : num -> num -> num, ncols (map2 (map2 h) r q) = ncols r).
    { intro h. destruct r as [| r0 r]; [discriminate |]. destruct q as [| q0 q]; [discriminate |].
      cbn in *. rewrite map2_length, E2. apply Nat.min_id. }
    assert (NL : forall h : num -> num -> num, List.length (map2 (map2 h) r q) = List.length r).
    { intro h. clear - E1. revert q E1. induction r as [| r0 r IH]; intros [| q0 q] E; cbn in *; try congruence. f_equal. apply IH. congruence. }
    rewrite !NC, !NL. repeat split. intros v H. injection H as <-. cbn. rewrite NC, NL. try rewrite E1; try rewrite E2; try rewrite !Nat.eqb_refl; reflexivity.
Qed.
