(* C08/Properties.v — what is PROVED for C08 is about klongpy's own glue only (partial):
   acceptance of every compilable operation by both backends' op tables, and that kinds and
   shapes of results are functions of kinds and shapes of operands.  Equality of element values
   under torch is a differential test (harness/c08.py), not a theorem: torch kernels are not modelled. *)
From Coq Require Import ZArith List String Bool.
From Coq Require Import QArith.
From C08 Require Import Model Generated Proofs Single.
Import ListNotations.
Open Scope string_scope.
Open Scope list_scope.

(* T8.accept (torch): every IR the compiler can emit has a source text under the torch tables.
   The premise is a finite check over the regenerated tables, discharged by computation. *)
Theorem C08_accept_torch : forall rho e vr i vr',
  ast_to_ir torch_tables rho e vr = Some (i, vr') -> ir_to_source torch_tables i <> None.
Proof.
  exact (fun rho e vr i vr' H =>
    accept torch_tables [] (eq_refl : full_tables torch_tables [] = true) i
           (ast_to_ir_emittable torch_tables rho e vr i vr' H)
           ((fix no_gap (i : ir) : scans_avoid [] i = true :=
               match i with
               | IBin _ l r | ICmp _ l r => andb_true_intro (conj (no_gap l) (no_gap r))
               | INeg c => no_gap c
               | IRed _ a => no_gap a
               | IScan _ a => no_gap a
               | _ => eq_refl
               end) i)).
Qed.
Print Assumptions C08_accept_torch.

(* T8.accept (numpy): the same, except scans with | and & — for those (and only those) the numpy
   table has no entry, compile_expr returns None and the interpreter evaluates the expression. *)
Theorem C08_accept_numpy : forall rho e vr i vr',
  ast_to_ir np_tables rho e vr = Some (i, vr') -> scans_avoid ["|"; "&"] i = true ->
  ir_to_source np_tables i <> None.
Proof.
  exact (fun rho e vr i vr' H S =>
    accept np_tables ["|"; "&"] (eq_refl : full_tables np_tables ["|"; "&"] = true) i
           (ast_to_ir_emittable np_tables rho e vr i vr' H) S).
Qed.
Print Assumptions C08_accept_numpy.

Theorem C08_numpy_scan_gap_goes_to_interpreter : forall op a,
  In op ["|"; "&"] -> ir_to_source np_tables (IScan op a) = None.
Proof.
  intros op a [<- | [<- | []]]; apply gap_scan_rejected; reflexivity.
Qed.
Print Assumptions C08_numpy_scan_gap_goes_to_interpreter.

(* both backends compile from the same op sets *)
Theorem C08_same_op_sets :
  arith_ops np_tables = arith_ops torch_tables /\ cmp_ops np_tables = cmp_ops torch_tables /\
  redscan_ops np_tables = redscan_ops torch_tables /\ t_bin np_tables = t_bin torch_tables /\
  t_cmp np_tables = t_cmp torch_tables.
Proof. repeat split; reflexivity. Qed.
Print Assumptions C08_same_op_sets.

(* T8.kind (element level, all numbers): integer/real kind of the result of every numeric-core
   element operation is a function of the operand kinds *)
Theorem C08_kind_is_a_function_of_kinds : forall x y,
  n_kind (n_add x y) = n_kind x || n_kind y /\ n_kind (n_sub x y) = n_kind x || n_kind y /\
  n_kind (n_mul x y) = n_kind x || n_kind y /\ n_kind (n_div x y) = true /\
  n_kind (n_eq x y) = false /\ n_kind (n_lt x y) = false /\ n_kind (n_gt x y) = false /\
  n_kind (n_neg x) = n_kind x /\ n_kind (n_max x y) = n_kind x || n_kind y /\ n_kind (n_min x y) = n_kind x || n_kind y.
Proof. exact kind_arith. Qed.
Print Assumptions C08_kind_is_a_function_of_kinds.

(* T8.kind (shape level), scalars, vectors and matrices: whether an element-wise operation succeeds (Ok), is
   refused by NumPy (Err) or is one of the rank-2 broadcasts outside this model (Unm: a (r,1) or (1,c) matrix
   against another shape), and the shape of the result, depend on the operand SHAPES only — not on the element
   values, nor on which operation it is; where it succeeds the shape is `bshape` of the operand shapes
   (scalar op anything, equal-length / length-1 vectors, matrix op row vector, matrices of equal shape). *)
Theorem C08_shape_is_a_function_of_shapes : forall f g a b, wf2 a -> wf2 b ->
  rclass (np_lift2 f a b) = rclass (np_lift2 g a b) /\ rshape (np_lift2 f a b) = rshape (np_lift2 g a b) /\
  (forall v, np_lift2 f a b = Ok v -> shape v = bshape (shape a) (shape b)).
Proof. exact lift2_shape. Qed.
Print Assumptions C08_shape_is_a_function_of_shapes.

Example C08_shape_example :
  let m := V2 [[NI 1; NI 2; NI 3]; [NI 4; NI 5; NI 6]] in
  wf2 m /\ wf2 (V1 [NI 1; NI 2; NI 3]) /\
  rshape (np_lift2 n_add m (V1 [NI 1; NI 2; NI 3])) = Some [2; 3]%nat /\ rshape (np_lift2 n_mul m m) = Some [2; 3]%nat.
Proof. cbv zeta. repeat split; reflexivity. Qed.

(* Integer results are int64 on both backends: the model's integers are unbounded Z and the differential
   compares integer elements exactly, which presupposes that the torch wrappers behind np.less / greater /
   maximum ... never narrow an integer result (no .to(torch.int32), .int(), .short()).  Pinned fact regenerated from
   TorchBackend._wrap_torch_func; a narrowing makes this obligation fail. *)
Theorem C08_torch_wrappers_keep_int64 : torch_wrappers_keep_int64 = true.
Proof. reflexivity. Qed.
Print Assumptions C08_torch_wrappers_keep_int64.

(* T8.single — forward error of evaluating the + * core (a reduction +/ or */ is a fold of Add / Mul) on
   non-negative data with one rounding per stored operand and per operation, for ANY rounding operator of
   relative error u (binary32 round-to-nearest: u = 2^-24, barring overflow/underflow): the rounded value lies
   within [(1-u)^k, (1+u)^k] of the exact one, k = rk e.  The torch-vs-numpy comparison of harness/c08.py uses
   this interval (u32 = 2^-24 for torch, u64 = 2^-53 for numpy) as its tolerance on the programs of this domain. *)
Theorem C08_single_precision_bound : forall (u : Q), (0 <= u)%Q -> (u <= 1)%Q -> forall (rnd : Q -> Q),
  (forall x, (0 <= x)%Q -> (x * (1 - u) <= rnd x)%Q /\ (rnd x <= x * (1 + u))%Q) ->
  forall e, nonneg e ->
  (0 <= ev e)%Q /\ (ev e * pw (1 - u) (rk e) <= evr rnd e)%Q /\ (evr rnd e <= ev e * pw (1 + u) (rk e))%Q.
Proof. exact single_bound. Qed.
Print Assumptions C08_single_precision_bound.

(* hypotheses are satisfiable (exact arithmetic is a rounding with u = 0), on a non-trivial expression *)
Example C08_single_example :
  let e := Add (Mul (Leaf (1 # 10)) (Leaf 3)) (Add (Leaf (7 # 10)) (Leaf (13 # 10))) in
  nonneg e /\ rk e = 4%nat /\
  (forall x : Q, (0 <= x)%Q -> (x * (1 - 0) <= x)%Q /\ (x <= x * (1 + 0))%Q).
Proof. cbv zeta. split; [cbn; repeat split; discriminate |]. split; [reflexivity |]. intros x H. split; ring_simplify; apply Qle_refl. Qed.

(* Non-vacuity: a nested compilable expression is accepted by both tables, with different texts *)
Example C08_accept_example :
  let e := EAdv "|" "/" (EDyad "%" (EMonad "-" (ESym "a")) (EAdv "+" "\" (ESym "b"))) in
  let rho := fun n : string => Some (V1 [NI 1; NI 2]) in
  exists i vr, ast_to_ir np_tables rho e [] = Some (i, vr) /\ ast_to_ir torch_tables rho e [] = Some (i, vr) /\
    exists s t, ir_to_source np_tables i = Some s /\ ir_to_source torch_tables i = Some t /\ s <> t.
Proof.
  cbv zeta. eexists. eexists. split; [vm_compute; reflexivity |]. split; [vm_compute; reflexivity |].
  eexists. eexists. split; [vm_compute; reflexivity |]. split; [vm_compute; reflexivity |]. discriminate.
Qed.
