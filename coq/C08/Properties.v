(* C08/Properties.v — what is PROVED for C08 is about klongpy's own glue only (partial):
   acceptance of every compilable operation by both backends' op tables, and that kinds and
   shapes of results are functions of kinds and shapes of operands.  Equality of element values
   under torch is a differential test (harness/c08.py), not a theorem: torch kernels are not modelled. *)
From Coq Require Import ZArith List String Bool.
From C08 Require Import Model Generated Proofs.
Import ListNotations.
Open Scope string_scope.
Open Scope list_scope.

(* T8.accept (torch): every IR the compiler can emit has a source text under the torch tables.
   The premise is a finite check over the regenerated tables, discharged by computation. *)
Theorem C08_accept_torch : forall rho e vr i vr',
  ast_to_ir torch_tables rho e vr = Some (i, vr') -> ir_to_source torch_tables i <> None.
Proof.
  exact (fun rho e vr i vr' H =>
    accept torch_tables [] (eq_refl : full_tables torch_tables [] = true) i
           (ast_to_ir_emittable torch_tables rho e vr i vr' H)
           ((fix no_gap (i : ir) : scans_avoid [] i = true :=
               match i with
               | IBin _ l r | ICmp _ l r => andb_true_intro (conj (no_gap l) (no_gap r))
               | INeg c => no_gap c
               | IRed _ a => no_gap a
               | IScan _ a => no_gap a
               | _ => eq_refl
               end) i)).
Qed.
Print Assumptions C08_accept_torch.

(* T8.accept (numpy): the same, except scans with | and & — for those (and only those) the numpy
   table has no entry, compile_expr returns None and the interpreter evaluates the expression. *)
Theorem C08_accept_numpy : forall rho e vr i vr',
  ast_to_ir np_tables rho e vr = Some (i, vr') -> scans_avoid ["|"; "&"] i = true ->
  ir_to_source np_tables i <> None.
Proof.
  exact (fun rho e vr i vr' H S =>
    accept np_tables ["|"; "&"] (eq_refl : full_tables np_tables ["|"; "&"] = true) i
           (ast_to_ir_emittable np_tables rho e vr i vr' H) S).
Qed.
Print Assumptions C08_accept_numpy.

Theorem C08_numpy_scan_gap_goes_to_interpreter : forall op a,
  In op ["|"; "&"] -> ir_to_source np_tables (IScan op a) = None.
Proof.
  intros op a [<- | [<- | []]]; apply gap_scan_rejected; reflexivity.
Qed.
Print Assumptions C08_numpy_scan_gap_goes_to_interpreter.

(* both backends compile from the same op sets *)
Theorem C08_same_op_sets :
  arith_ops np_tables = arith_ops torch_tables /\ cmp_ops np_tables = cmp_ops torch_tables /\
  redscan_ops np_tables = redscan_ops torch_tables /\ t_bin np_tables = t_bin torch_tables /\
  t_cmp np_tables = t_cmp torch_tables.
Proof. repeat split; reflexivity. Qed.
Print Assumptions C08_same_op_sets.

(* T8.kind (element level, all numbers): integer/real kind of the result of every numeric-core
   element operation is a function of the operand kinds *)
Theorem C08_kind_is_a_function_of_kinds : forall x y,
  n_kind (n_add x y) = n_kind x || n_kind y /\ n_kind (n_sub x y) = n_kind x || n_kind y /\
  n_kind (n_mul x y) = n_kind x || n_kind y /\ n_kind (n_div x y) = true /\
  n_kind (n_eq x y) = false /\ n_kind (n_lt x y) = false /\ n_kind (n_gt x y) = false /\
  n_kind (n_neg x) = n_kind x /\ n_kind (n_max x y) = n_kind x || n_kind y /\ n_kind (n_min x y) = n_kind x || n_kind y.
Proof. exact kind_arith. Qed.
Print Assumptions C08_kind_is_a_function_of_kinds.

(* T8.kind (shape level) — partial: scalars and rank-1 operands only; rank 2 is covered by the
   differential test, not by this theorem *)
Theorem C08_shape_is_a_function_of_shapes_partial : forall f g a b,
  (match a with VS _ _ | V1 _ => True | _ => False end) ->
  (match b with VS _ _ | V1 _ => True | _ => False end) ->
  match np_lift2 f a b, np_lift2 g a b with
  | Ok v, Ok w => shape v = shape w /\
                  (shape v = match shape a, shape b with
                             | Some [], s | s, Some [] => s
                             | Some [n], Some [m] => if Nat.eqb n m then Some [n] else if Nat.eqb n 1 then Some [m] else Some [n]
                             | _, _ => None end)
  | Err, Err => True
  | _, _ => False
  end.
Proof. exact lift2_shape_rank1. Qed.
Print Assumptions C08_shape_is_a_function_of_shapes_partial.

(* Non-vacuity: a nested compilable expression is accepted by both tables, with different texts *)
Example C08_accept_example :
  let e := EAdv "|" "/" (EDyad "%" (EMonad "-" (ESym "a")) (EAdv "+" "\" (ESym "b"))) in
  let rho := fun n : string => Some (V1 [NI 1; NI 2]) in
  exists i vr, ast_to_ir np_tables rho e [] = Some (i, vr) /\ ast_to_ir torch_tables rho e [] = Some (i, vr) /\
    exists s t, ir_to_source np_tables i = Some s /\ ir_to_source torch_tables i = Some t /\ s <> t.
Proof.
  cbv zeta. eexists. eexists. split; [vm_compute; reflexivity |]. split; [vm_compute; reflexivity |].
  eexists. eexists. split; [vm_compute; reflexivity |]. split; [vm_compute; reflexivity |]. discriminate.
Qed.
