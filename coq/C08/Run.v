(* C08/Run.v — S-expression front end of the model, extracted to OCaml.
   request:  (case <expr> <env0> <env>)
     expr  (li z) | (lr bits (c ...)) | (sym (c ...)) | (dy (c ...) e e) | (mo (c ...) e) | (adv (c ...) (c ...) e) | (other)
     env   (((c ...) val) ...)
     val   (i z) | (r bits) | (ni z) | (nr bits) | (a1 x ...) | (a2 (x ...) ...) | (u) | (str c ...) | (obj) | (other)
           with x = (i z) | (r bits)
   answer:   ((np <comp>) (torch <comp>) (run <res>) (interp <res>) (site <res>) (d5 b) (guard b))
     comp  (none) | (some <ir> (params (c ...) ...) (syms (c ...) ...) (src c ...))
     res   (ok <v> <np-flag>) | (err) | (unm)
   Strings travel as lists of code points. *)
From Coq Require Import ZArith List String Ascii Bool SpecFloat.
From KB Require Import Sx.
From C08 Require Import Model Generated.
Import ListNotations.
Open Scope Z_scope.

(* ---- binary64 bit patterns *)
Definition sf_of_bits (b : Z) : sf :=
  let s := Z.testbit b 63 in
  let e := Z.land (Z.shiftr b 52) 2047 in
  let m := Z.land b (Z.ones 52) in
  if e =? 0 then match m with Zpos p => S754_finite s p (-1074) | _ => S754_zero s end
  else if e =? 2047 then (if m =? 0 then S754_infinity s else S754_nan)
  else match m + Z.shiftl 1 52 with Zpos p => S754_finite s p (e - 1075) | _ => S754_nan end.

Definition bits_of_sf (f : sf) : Z :=
  let sb (s : bool) := if s then Z.shiftl 1 63 else 0 in
  match f with
  | S754_zero s => 0          (* -0.0 is reported as 0.0: results are compared as numbers *)
  | S754_infinity s => sb s + Z.shiftl 2047 52
  | S754_nan => Z.shiftl 2047 52 + Z.shiftl 1 51
  | S754_finite s m e =>
      if Zpos m <? Z.shiftl 1 52 then sb s + Zpos m
      else sb s + Z.shiftl (e + 1075) 52 + (Zpos m - Z.shiftl 1 52)
  end.

(* ---- strings *)
Definition ascii_of_z (z : Z) : ascii := ascii_of_nat (Z.to_nat z).
Fixpoint string_of_zs (l : list Z) : string :=
  match l with [] => EmptyString | z :: r => String (ascii_of_z z) (string_of_zs r) end.
Definition sx_str (s : string) : sx := sx_zs (tag s).

Definition str_of_sx (x : sx) : option string := option_map string_of_zs (sx_as_zs x).

(* ---- decoding *)
Definition num_of_sx (x : sx) : option num :=
  match x with
  | SL [SS t; SZ z] => if is_tag "i" t then Some (NI z) else if is_tag "r" t then Some (NR (sf_of_bits z)) else None
  | _ => None
  end.
Fixpoint nums_of_sx (l : list sx) : option (list num) :=
  match l with
  | [] => Some []
  | x :: r => match num_of_sx x, nums_of_sx r with Some n, Some ns => Some (n :: ns) | _, _ => None end
  end.
Fixpoint rows_of_sx (l : list sx) : option (list (list num)) :=
  match l with
  | [] => Some []
  | SL row :: r => match nums_of_sx row, rows_of_sx r with Some n, Some ns => Some (n :: ns) | _, _ => None end
  | _ => None
  end.

Definition val_of_sx (x : sx) : option val :=
  match x with
  | SL (SS t :: rest) =>
      if is_tag "i" t then match rest with [SZ z] => Some (VS false (NI z)) | _ => None end else
      if is_tag "r" t then match rest with [SZ z] => Some (VS false (NR (sf_of_bits z))) | _ => None end else
      if is_tag "ni" t then match rest with [SZ z] => Some (VS true (NI z)) | _ => None end else
      if is_tag "nr" t then match rest with [SZ z] => Some (VS true (NR (sf_of_bits z))) | _ => None end else
      if is_tag "a1" t then option_map V1 (nums_of_sx rest) else
      if is_tag "a2" t then option_map V2 (rows_of_sx rest) else
      if is_tag "u" t then Some VUndef else
      if is_tag "str" t then option_map VStr (sx_get_zs rest) else
      if is_tag "obj" t then Some VObj else
      if is_tag "hi" t then Some VHi else
      if is_tag "other" t then Some VOther else None
  | _ => None
  end.

Fixpoint env_of_sx (l : list sx) : option (list (string * val)) :=
  match l with
  | [] => Some []
  | SL [k; v] :: r =>
      match str_of_sx k, val_of_sx v, env_of_sx r with
      | Some k', Some v', Some r' => Some ((k', v') :: r') | _, _, _ => None end
  | _ => None
  end.

Fixpoint expr_of_sx (fuel : nat) (x : sx) : option expr :=
  match fuel with O => None | S n =>
  match x with
  | SL (SS t :: rest) =>
      if is_tag "li" t then match rest with [SZ z] => Some (ELitI z) | _ => None end else
      if is_tag "lr" t then match rest with
                            | [SZ z; r] => option_map (ELitR (sf_of_bits z)) (str_of_sx r) | _ => None end else
      if is_tag "sym" t then match rest with [s] => option_map ESym (str_of_sx s) | _ => None end else
      if is_tag "dy" t then
        match rest with
        | [o; a; b] => match str_of_sx o, expr_of_sx n a, expr_of_sx n b with
                       | Some o', Some a', Some b' => Some (EDyad o' a' b') | _, _, _ => None end
        | _ => None end else
      if is_tag "mo" t then
        match rest with
        | [o; a] => match str_of_sx o, expr_of_sx n a with
                    | Some o', Some a' => Some (EMonad o' a') | _, _ => None end
        | _ => None end else
      if is_tag "adv" t then
        match rest with
        | [o; d; a] => match str_of_sx o, str_of_sx d, expr_of_sx n a with
                       | Some o', Some d', Some a' => Some (EAdv o' d' a') | _, _, _ => None end
        | _ => None end else
      if is_tag "mc" t then
        match rest with
        | [o; a] => match str_of_sx o, expr_of_sx n a with
                    | Some o', Some a' => Some (EMonadCond o' a') | _, _ => None end
        | _ => None end else
      if is_tag "other" t then Some EOther else None
  | _ => None
  end end.

(* ---- encoding *)
Definition sx_num (x : num) : sx :=
  match x with NI z => SL [sx_w "i"; SZ z] | NR f => SL [sx_w "r"; SZ (bits_of_sf f)] end.

Definition sx_val (v : val) : sx :=
  match v with
  | VS _ x => sx_num x
  | V1 l => SL (sx_w "l" :: map sx_num l)
  | V2 r => SL (sx_w "l" :: map (fun row => SL (sx_w "l" :: map sx_num row)) r)
  | VUndef => SL [sx_w "u"; SZ 1]
  | VStr s => SL (sx_w "s" :: map SZ s)
  | VObj => SL [sx_w "obj"]
  | VHi => SL [sx_w "hi"]
  | VOther => SL [sx_w "other"]
  end.
Definition np_flag (v : val) : Z := match v with VS true _ => 1 | _ => 0 end.

Definition sx_res (r : res val) : sx :=
  match r with
  | Ok v => SL [sx_w "ok"; sx_val v; SZ (np_flag v)]
  | Err => SL [sx_w "err"]
  | Unm => SL [sx_w "unm"]
  end.

Fixpoint sx_ir (i : ir) : sx :=
  match i with
  | ILitI z => SL [sx_w "literal"; SL [sx_w "i"; SZ z]]
  | ILitR f _ => SL [sx_w "literal"; SL [sx_w "r"; SZ (bits_of_sf f)]]
  | IVar n => SL [sx_w "var"; sx_str n]
  | IBin o l r => SL [sx_w "binop"; sx_str o; sx_ir l; sx_ir r]
  | ICmp o l r => SL [sx_w "cmp"; sx_str o; sx_ir l; sx_ir r]
  | INeg c => SL [sx_w "negate"; sx_ir c]
  | IRed o a => SL [sx_w "reduce"; sx_str o; sx_ir a]
  | IScan o a => SL [sx_w "scan"; sx_str o; sx_ir a]
  end.

Definition sx_comp (c : option compiled) : sx :=
  match c with
  | None => SL [sx_w "none"]
  | Some c => SL [sx_w "some"; sx_ir (c_ir c); SL (sx_w "params" :: map sx_str (c_params c));
                  SL (sx_w "syms" :: map sx_str (c_syms c)); SL (sx_w "src" :: map SZ (tag (c_source c)))]
  end.

Definition env_fn (l : list (string * val)) : env := fun s => assoc s l.

Definition dispatch (x : sx) : sx :=
  match x with
  | SL [SS t; e; SL e0; SL e1] =>
      if is_tag "case" t then
        match expr_of_sx 64 e, env_of_sx e0, env_of_sx e1 with
        | Some e', Some l0, Some l1 =>
            let rho0 := env_fn l0 in
            let rho := env_fn l1 in
            let c := compile np_tables rho0 e' in
            SL [SL [sx_w "np"; sx_comp c];
                SL [sx_w "torch"; sx_comp (compile torch_tables rho0 e')];
                SL [sx_w "run"; match c with Some c' => sx_res (run_compiled np_tables call_guard c' rho) | None => SL [sx_w "nocomp"] end];
                SL [sx_w "interp"; sx_res (interp rho e')];
                SL [sx_w "site"; sx_res (site np_tables call_guard fallback_catches_all c rho e')];
                SL [sx_w "d5"; sx_bool (d5 rho e')];
                SL [sx_w "guard"; sx_bool call_guard]]
        | _, _, _ => sx_err "decode"
        end
      else sx_err "op"
  | _ => sx_err "shape"
  end.

Require Import ExtrOcamlBasic.
Extraction Language OCaml.
Extraction "extracted.ml" dispatch drv_add drv_mul drv_opp drv_div_eucl drv_ltb drv_eqb.
