#!/usr/bin/env python3
"""Run every check claimed in MANIFEST.json (quick by default) and validate its evidence file.
usage: tools/run_all.py [quick|thorough] [-j N] [Cxx ...]"""
import json, os, subprocess, sys, time
from concurrent.futures import ThreadPoolExecutor
V = os.path.dirname(os.path.dirname(os.path.abspath(__file__)))
tier = "thorough" if "thorough" in sys.argv else "quick"
j = int(sys.argv[sys.argv.index("-j") + 1]) if "-j" in sys.argv else 4
only = [a for a in sys.argv[1:] if a.startswith("C")]
m = json.load(open(os.path.join(V, "MANIFEST.json")))
checks = [c for c in m["checks"] if not only or c["property_id"] in only]
def run(c):
    cmd = c["quick_cmd"] if tier == "quick" else c.get("thorough_cmd", c["quick_cmd"])
    ev = os.path.join(V, c["evidence_file"])
    if os.path.exists(ev): os.remove(ev)
    t = time.time()
    p = subprocess.run(cmd, shell=True, cwd=V, stdout=subprocess.PIPE, stderr=subprocess.STDOUT, env=dict(os.environ))
    out = p.stdout.decode("utf-8", "replace")
    val = "missing"
    if os.path.exists(ev):
        q = subprocess.run(["python3-vt", "-c", "import json,jsonschema,sys; jsonschema.validate(json.load(open(sys.argv[1])), json.load(open('/root/.vp/EVIDENCE.schema.json')))", ev],
                           stdout=subprocess.PIPE, stderr=subprocess.STDOUT)
        val = "valid" if q.returncode == 0 else "INVALID: " + q.stdout.decode()[-300:]
    lines = [l for l in out.split("\n") if l.startswith(("VIOLATION", "KNOWN-FINDING", "ERROR"))]
    return c["property_id"], p.returncode, round(time.time() - t, 1), val, lines, out[-600:] if p.returncode not in (0,) else ""
with ThreadPoolExecutor(j) as ex:
    for pid, rc, wall, val, lines, tail in ex.map(run, checks):
        print("%s exit=%d wall=%.0fs evidence=%s" % (pid, rc, wall, val), flush=True)
        for l in lines: print("    " + l[:220])
        if tail: print("    ..." + tail.replace("\n", "\n    "))
