#!/usr/bin/env python3
import json, sys
props = {json.loads(l)['id']: json.loads(l) for l in open('/verif/properties.jsonl')}
T = """You are helping to evaluate a verification effort by playing the adversary. The repository briangu/klongpy (a Python
interpreter for the Klong array language: NumPy backend, IPC, timers, file-backed stores, web hooks) is checked out at /repo.
Do NOT modify /repo itself and do NOT read or use anything under /verif (it must stay independent of your work).

Create your own scratch worktree:   git -C /repo worktree add /tmp/seed-{id} HEAD     and work only inside /tmp/seed-{id}.
Run code with:   cd /tmp/seed-{id} && PYTHONPATH=/tmp/seed-{id} PYTHONHASHSEED=0 /venv/bin/python -W ignore ...
(every shell command prints a harmless conda WARNING line). Full test-suite (~40 s):
   cd /tmp/seed-{id} && PYTHONPATH=/tmp/seed-{id} /venv/bin/python -m pytest -q -p no:cacheprovider --timeout=900
It must report the same result with your change as without (currently all pass: 711 passed, 49 skipped).

This semantic property of klongpy is supposed to hold:

  {id} - {title}
  {statement}
  (quantified over: {quant})
  (code it is anchored in: {files})

Your task: produce THREE independent, realistic source changes to klongpy (each a separate small patch against the worktree's
HEAD, of the kind a maintainer could plausibly make while refactoring, optimising or "fixing" something) such that each one
  (a) BREAKS the property above,
  (b) still imports/compiles and keeps the existing test-suite result unchanged (run the full suite for each patch),
  (c) needs something SPECIFIC to manifest - a particular interleaving, a crash or fault at a particular point, a multi-step
      sequence of operations, an unusual input, or two cooperating sites that each look fine alone - NOT something that
      ordinary use would expose at once,
and for each a small demonstration program demo.py (run as: PYTHONPATH=<checkout> /venv/bin/python -W ignore demo.py; exit 0 =
property observed to hold, exit 1 = property observed to fail) that FAILS with the change applied and PASSES without it.
Make the three changes differ in kind and in which code path they touch. Do not touch tests. Keep each patch minimal.

Deliver into /tmp/seed-{id}-out/1, /2, /3 (create them):  patch.diff (git diff against HEAD, applicable with `git apply`),
demo.py, meta.json = {{"property": "{id}", "summary": "...", "needs_to_manifest": "...", "files_touched": [...],
"suite_result_with_patch": "...", "demo_without_patch": "exit 0", "demo_with_patch": "exit 1"}}.
Verify each yourself: reset the worktree (git checkout -- .), run demo (must exit 0), apply patch, run demo (must exit 1), run
the full suite (must be unchanged), reset. When done, leave the worktree reset to HEAD and reply with a short summary of the
three changes. Do not remove /tmp/seed-{id}-out.
"""
i = sys.argv[1]; p = props[i]
print(T.format(id=i, title=p['title'], statement=p['statement'], quant=p['quantifier']['text'], files=", ".join(p['anchors']['files'])))
