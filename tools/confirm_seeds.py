#!/usr/bin/env python3
"""confirm staged seeds of one property: seeded/_unconfirmed/<P>-<i> -> seeded/<P>-<i> with confirmation recorded."""
import json, os, subprocess, sys, shutil
V = os.path.dirname(os.path.dirname(os.path.abspath(__file__)))
P = sys.argv[1]
FLAKY = ("tests/test_cli_exit.py", "test_timer_return_1_cancel")
for d in sorted(os.listdir(os.path.join(V, "seeded", "_unconfirmed"))):
    if not d.startswith(P + "-"):
        continue
    src = os.path.join(V, "seeded", "_unconfirmed", d)
    out = subprocess.run([sys.executable, os.path.join(V, "tools", "try_seed.py"), P, src] + sys.argv[2:], stdout=subprocess.PIPE, stderr=subprocess.STDOUT).stdout.decode()
    try:
        r = json.loads(out[out.index("{"):])
    except Exception:
        print(d, "try_seed failed:", out[-500:]); continue
    suite = r.get("suite") or {}
    suite_ok = ("suite" not in r) or (suite.get("passed", 0) >= 709 and all(any(f in t for f in FLAKY) for t in suite.get("failed_tests", [])) and suite.get("failed", 0) == len(suite.get("failed_tests", [])))
    confirmed = bool(r.get("patch_applies")) and r.get("demo_without_patch") == 0 and r.get("demo_with_patch") == 1 and suite_ok
    meta = json.load(open(os.path.join(src, "meta.json")))
    meta["confirmation"] = {"confirmed": confirmed, "ran": "tools/try_seed.py %s (scratch worktree of /repo HEAD; demo without/with patch; full pytest; VERIF_REPO=<wt> ./check %s quick)" % (P, P),
                            "demo_without_patch": r.get("demo_without_patch"), "demo_with_patch": r.get("demo_with_patch"), "suite": suite,
                            "check_exit": r.get("check_exit"), "caught": r.get("caught"), "caught_with_concrete_replay": r.get("with_replay"),
                            "check_lines": r.get("check_lines"), "check_wall_s": r.get("check_wall_s")}
    json.dump(meta, open(os.path.join(src, "meta.json"), "w"), indent=1)
    print(d, "confirmed" if confirmed else "NOT-confirmed", "caught" if r.get("caught") else "MISSED", "replay" if r.get("with_replay") else "", r.get("check_wall_s"), suite, "" if r.get("patch_applies") else r.get("apply_error", "")[:200])
    if confirmed:
        dst = os.path.join(V, "seeded", d)
        if os.path.exists(dst): shutil.rmtree(dst)
        shutil.move(src, dst)
