#!/usr/bin/env python3
"""Merge manifest_parts/*.json into MANIFEST.json (checks[]) and findings_parts/*.json into known_findings.json."""
import json, os, sys
V = os.path.dirname(os.path.dirname(os.path.abspath(__file__)))
m = json.load(open(os.path.join(V, "MANIFEST.json")))
only = set(sys.argv[1:])
checks = {c["property_id"]: c for c in m["checks"]}
for fn in sorted(os.listdir(os.path.join(V, "manifest_parts"))):
    if fn.endswith(".json"):
        c = json.load(open(os.path.join(V, "manifest_parts", fn)))
        if only and c["property_id"] not in only and c["property_id"] not in checks:
            continue
        checks[c["property_id"]] = c
m["checks"] = [checks[k] for k in sorted(checks)]
claimed = set(checks)
m["not_applicable"] = [n for n in m.get("not_applicable", []) if n["property_id"] not in claimed]
for e in m.get("engines", []):
    e["serves_properties"] = sorted(claimed)
json.dump(m, open(os.path.join(V, "MANIFEST.json"), "w"), indent=1)
kf = json.load(open(os.path.join(V, "known_findings.json")))
ids = {f["id"]: i for i, f in enumerate(kf["findings"])}
for fn in sorted(os.listdir(os.path.join(V, "findings_parts"))):
    if fn.endswith(".json"):
        for f in json.load(open(os.path.join(V, "findings_parts", fn))):
            if f["id"] in ids:
                kf["findings"][ids[f["id"]]] = f
            else:
                ids[f["id"]] = len(kf["findings"]); kf["findings"].append(f)
json.dump(kf, open(os.path.join(V, "known_findings.json"), "w"), indent=1)
print("checks:", sorted(claimed))
