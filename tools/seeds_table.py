#!/usr/bin/env python3
"""Write seeded/README.md: which check catches which independently seeded change."""
import json, os
V = os.path.dirname(os.path.dirname(os.path.abspath(__file__)))
rows = []
for d in sorted(os.listdir(os.path.join(V, "seeded"))):
    p = os.path.join(V, "seeded", d, "meta.json")
    if not os.path.exists(p):
        continue
    m = json.load(open(p)); c = m.get("confirmation", {})
    rows.append((d, m.get("property"), (m.get("summary") or "").replace("\n", " ")[:230], (m.get("needs_to_manifest") or "").replace("\n", " ")[:200],
                 "yes" if c.get("caught") else "NO", "concrete replay" if c.get("caught_with_concrete_replay") else ("no-failing-input-found" if c.get("caught") else "-"),
                 c.get("check_wall_s")))
with open(os.path.join(V, "seeded", "README.md"), "w") as f:
    f.write("# Seeded breaking changes (produced by independent sub-agents that saw only the property text)\n\n"
            "Each directory holds `patch.diff`, `demo.py` (exit 0 = property observed to hold, 1 = fails) and `meta.json`\n"
            "(with a `confirmation` block written by `tools/confirm_seeds.py`: demo passes without / fails with the patch in a scratch\n"
            "worktree of /repo HEAD, full pytest unchanged apart from two load-flaky tests, and the result of\n"
            "`VERIF_REPO=<worktree> ./check <id> quick`). Regenerate this table with `tools/seeds_table.py`.\n\n"
            "| seed | property | change | needs | caught by ./check quick | how | wall s |\n|---|---|---|---|---|---|---|\n")
    for r in rows:
        f.write("| %s | %s | %s | %s | %s | %s | %s |\n" % r)
    n = len(rows); c = sum(1 for r in rows if r[4] == "yes"); cr = sum(1 for r in rows if r[5] == "concrete replay")
    f.write("\n%d seeds, %d caught (%d with a concrete replay).\n" % (n, c, cr))
print(open(os.path.join(V, "seeded", "README.md")).read()[-200:])
