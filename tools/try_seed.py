#!/usr/bin/env python3
"""Confirm a seeded change and run our check against it.
usage: try_seed.py <Cxx> <dir with patch.diff demo.py meta.json> [--no-suite] [--tier quick]
Creates a scratch worktree of /repo under /tmp, verifies: demo passes without patch, fails with patch, suite unchanged
with patch; then runs VERIF_REPO=<wt> ./check Cxx <tier>; prints a JSON summary; removes the worktree."""
import json, os, re, subprocess, sys, shutil, time
pid, d = sys.argv[1], os.path.abspath(sys.argv[2])
suite = "--no-suite" not in sys.argv
tier = sys.argv[sys.argv.index("--tier") + 1] if "--tier" in sys.argv else "quick"
wt = "/tmp/try-%s-%d" % (pid, os.getpid())
def sh(cmd, **kw):
    p = subprocess.run(cmd, shell=True, stdout=subprocess.PIPE, stderr=subprocess.STDOUT, **kw)
    return p.returncode, p.stdout.decode("utf-8", "replace")
res = {"property": pid, "dir": d}
try:
    rc, out = sh("git -C /repo worktree add --detach %s HEAD" % wt)
    assert rc == 0, out
    env = dict(os.environ, PYTHONPATH=wt, PYTHONHASHSEED="0")
    demo = "cd %s && timeout 600 /venv/bin/python -W ignore %s/demo.py" % (wt, d)
    rc0, o0 = sh(demo, env=env); res["demo_without_patch"] = rc0
    rc, out = sh("git -C %s apply %s/patch.diff" % (wt, d)); res["patch_applies"] = (rc == 0)
    if rc != 0:
        # the tree moved on (fix: commits): try a 3-way merge of the same change, then a fuzzy patch
        rc, out2 = sh("git -C %s apply --3way %s/patch.diff" % (wt, d))
        if rc != 0:
            sh("git -C %s checkout -- ." % wt)
            rc, out2 = sh("cd %s && patch -p1 -F3 < %s/patch.diff" % (wt, d))
        if rc == 0:
            sh("git -C %s reset -q" % wt)
            res["patch_applies"] = True; res["applied_with"] = "3way-or-fuzz"
        else:
            sh("git -C %s checkout -- ." % wt); out = out + out2
    if rc != 0: res["apply_error"] = out[-500:]
    else:
        rc1, o1 = sh(demo, env=env); res["demo_with_patch"] = rc1; res["demo_tail"] = o1[-300:]
        if suite:
            rc, out = sh("cd %s && timeout 1500 /venv/bin/python -m pytest -q -p no:cacheprovider --timeout=900 2>&1 | tail -15" % wt, env=env)
            m = re.search(r"(\d+) passed", out); f = re.search(r"(\d+) failed", out)
            res["suite"] = {"passed": int(m.group(1)) if m else None, "failed": int(f.group(1)) if f else 0,
                            "failed_tests": re.findall(r"FAILED (\S+)", out)}
        t = time.time()
        rc, out = sh("cd /verif && VERIF_REPO=%s timeout 3000 ./check %s %s" % (wt, pid, tier))
        res["check_exit"] = rc; res["check_wall_s"] = round(time.time() - t, 1)
        res["check_lines"] = [l for l in out.split("\n") if l.startswith(("VIOLATION", "KNOWN-FINDING", "ERROR", pid))][-8:]
        res["caught"] = rc == 1 and any(l.startswith("VIOLATION") for l in res["check_lines"])
        res["with_replay"] = res["caught"] and not any("no-failing-input-found" in l for l in res["check_lines"] if l.startswith("VIOLATION"))
finally:
    sh("git -C /repo worktree remove --force %s" % wt)
    shutil.rmtree(wt, ignore_errors=True)
    # restore Generated.v for the real repo
    sh("cd /verif && ./check %s quick >/dev/null 2>&1 &" % pid) if False else None
print(json.dumps(res, indent=1))
