#!/usr/bin/env python3
"""Re-run ./check against already confirmed seeds of one property and refresh the `confirmation` block.
usage: recheck_seeds.py <Cxx> [only-missed]"""
import json, os, subprocess, sys
V = os.path.dirname(os.path.dirname(os.path.abspath(__file__)))
P = sys.argv[1]; only_missed = "only-missed" in sys.argv
for d in sorted(os.listdir(os.path.join(V, "seeded"))):
    if not d.startswith(P + "-"):
        continue
    src = os.path.join(V, "seeded", d)
    meta = json.load(open(os.path.join(src, "meta.json")))
    c = meta.get("confirmation", {})
    if only_missed and c.get("caught_with_concrete_replay"):
        continue
    out = subprocess.run([sys.executable, os.path.join(V, "tools", "try_seed.py"), P, src, "--no-suite"], stdout=subprocess.PIPE, stderr=subprocess.STDOUT).stdout.decode()
    try:
        r = json.loads(out[out.index("{"):])
    except Exception:
        print(d, "try_seed failed", out[-300:]); continue
    if not r.get("patch_applies"):
        print(d, "patch no longer applies to HEAD:", r.get("apply_error", "")[:150]); c["note"] = "patch no longer applies to current /repo HEAD"; 
    else:
        c.update({"demo_without_patch": r.get("demo_without_patch"), "demo_with_patch": r.get("demo_with_patch"), "check_exit": r.get("check_exit"),
                  "caught": r.get("caught"), "caught_with_concrete_replay": r.get("with_replay"), "check_lines": r.get("check_lines"), "check_wall_s": r.get("check_wall_s")})
        print(d, "caught" if r.get("caught") else "MISSED", "replay" if r.get("with_replay") else "", r.get("check_wall_s"), "demo", r.get("demo_without_patch"), r.get("demo_with_patch"))
    meta["confirmation"] = c
    json.dump(meta, open(os.path.join(src, "meta.json"), "w"), indent=1)
