#!/usr/bin/env python3
import json, sys
props = {json.loads(l)['id']: json.loads(l) for l in open('/verif/properties.jsonl')}
COMMON = """You are a builder on a formal-verification task in a sealed Linux sandbox (no network). The repository under
study is briangu/klongpy (a Python interpreter for the Klong array language) checked out at /repo; the verification
machinery lives in /verif. Your job: build the check(s) for propert{y_ies} {ids} exactly as /verif/BUILDER_GUIDE.md
prescribes. READ /verif/BUILDER_GUIDE.md FIRST AND FOLLOW IT TO THE LETTER (which files you own, what you must not touch,
no git commits in /verif, mutations only in scratch worktrees via VERIF_REPO). Then study the worked template
(coq/C13/*, harness/c13.py, harness/common.py, harness/astlib.py, harness/canon.py), then DESIGN.md section(s) {sections}
(the design for your propert{y_ies}; DESIGN.md section 0 lists defects R1-R15 already observed on the pinned tree, and
sections 1-3 the architecture; note: the directory layout actually used is the per-property one of BUILDER_GUIDE.md, which
supersedes DESIGN 1.3), then the anchored source files in /repo in full.

The technique is fixed: machine-checked proof in Coq 8.16.1 about an executable Gallina model, tied to /repo on every run
by (a) a fail-closed Python-ast translator for literal facts and (b) a correspondence check that runs the real code and
the OCaml-extracted model on the same inputs. No Admitted/admit/Axiom/Parameter. Coq, OCaml (ocamlfind), /venv/bin/python
(3.12, klongpy deps installed), python3-vt (jsonschema) and strace are available; nothing can be installed.

The propert{y_ies} (fixed text, from /verif/properties.jsonl):
{proptext}

Practical notes from earlier probing of this sandbox:
- run klongpy as: PYTHONPATH=/repo PYTHONHASHSEED=0 /venv/bin/python -W ignore ...; every shell command prints a harmless conda
  WARNING line first. The repo test-suite takes ~30-50 s: cd /repo && /venv/bin/python -m pytest -q -p no:cacheprovider --timeout=900
- coqc on a small file takes 1-5 s; always wrap coqc/make in `timeout`; `sauto`/`hauto` only under Ltac `timeout 20`;
  std++ gset under vm_compute is slow (use stdlib PositiveMap / lists); never write big nat literals.
- `simpl`, `inversion`, `injection` unfold numerals like `skipn 16 l` into huge matches: use `cbv beta iota delta [names]`,
  helper lemmas and `destruct ... eqn:`; see coq/C13/Proofs.v.
- tools/coqat <file.v> <line> -Q ../Base KB -Q . Cxx   prints the proof state at a line (run inside coq/Cxx).
- extraction: ExtrOcamlBasic only; the generic driver ocaml/driver.ml expects `dispatch : sx -> sx` in extracted.ml (see coq/C13/Run.v);
  integers of any size pass through; words become code-point lists (KB.Sx.is_tag).
{extra}

Scope and order of work. Aim for depth, but sequence it so that something sound exists early:
 (1) within your first ~90 minutes have a small faithful model, ONE real (inductive / invariant / refinement) theorem in
     Properties.v, the translator, the extracted runner, and a correspondence check that passes on the unchanged tree
     (`./check Cxx quick` exit 0) and writes valid evidence, plus manifest_parts/Cxx.json, findings_parts/Cxx.json, notes/Cxx.md;
 (2) then grow: more of the code inside the model, the remaining theorems of the DESIGN section (full strength, `_refuted`
     witnesses + KNOWN-FINDING or `fix:` commits for genuine defects), better generators, the mutation self-test of the guide;
 (3) keep `./check Cxx quick` green at every step (it may be run by the integrator at any moment) and keep notes/Cxx.md current.
Where the DESIGN asks for more than is feasible, prove the core properly, name unproved parts `_partial`, and say so in
notes/Cxx.md and in the manifest text - never fake a theorem, never weaken a check to make it quiet. Plan for roughly 4-5
hours of work in total; when done (or if you must stop), reply with the report described at the end of the guide.
"""
def prompt(ids, sections, extra=""):
    txt = "\n".join("%s - %s\n  statement: %s\n  quantifier: %s\n  anchors: %s\n  observe_at: %s\n  why tests cannot: %s" % (
        i, props[i]['title'], props[i]['statement'], props[i]['quantifier']['text'], ", ".join(props[i]['anchors']['files']),
        props[i]['anchors'].get('observe_at'), props[i]['why_tests_cant']) for i in ids)
    many = len(ids) > 1
    return COMMON.replace("{y_ies}", "ies" if many else "y").replace("{ids}", " and ".join(ids)).replace("{sections}", sections).replace("{proptext}", txt).replace("{extra}", extra)
if __name__ == "__main__":
    print(prompt(sys.argv[1].split(","), sys.argv[2], sys.argv[3] if len(sys.argv) > 3 else ""))
